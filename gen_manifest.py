#!/usr/bin/env python3
"""Writes MANIFEST.json from ucgverif.props (one entry per claimed property)."""
import json
import sys
sys.path.insert(0, "/verif")
from ucgverif import props

NOT_APPLICABLE = {
    "C19": "value-level correctness of UCG-language library code (std/*.ucg): the helpers' results are values computed by "
           "the VM; no static analyser for the UCG language exists in this toolbox and an abstract interpreter for it would "
           "be symbolic evaluation (a different family); the structural residue (names bound, files embedded) would be a proxy, "
           "not a decision",
}

ALL = ["C%02d" % i for i in range(1, 21)]
checks = []
na = []
for pid in ALL:
    if pid in props.PROPS:
        m = props.PROPS[pid]
        checks.append({
            "property_id": pid,
            "quick_cmd": "./check %s --tier quick" % pid,
            "thorough_cmd": "./check %s --tier thorough" % pid,
            "evidence_file": "/verif/evidence/%s.json" % pid,
            "replay_cmd_template": "./check %s --replay {path}" % pid,
            "engine": "mirfacts+synfacts+ucgverif",
            "level_claimed": {
                "category": "other",
                "text": "static rule checking over the type-checked MIR, the unexpanded syntax tree and the reference tables of the "
                        "current tree; decides the named structural necessary conditions of the property on every path / variant / "
                        "call site of the anchored code, not the behaviour as a whole. " + m.get("level_text", ""),
                "design_ref": "DESIGN.md section 2, " + pid,
            },
            "level_note": m.get("level_note", "trusted: rustc MIR construction and trait resolution, syn, the rule library; "
                                              "not decided: " + m.get("not_decided", "value-level behaviour")),
            "technique": m.get("technique", "static analysis: MIR dataflow / CFG path rules"),
        })
    else:
        na.append({"property_id": pid, "reason": NOT_APPLICABLE.get(pid, "not yet covered by a static rule in this tree "
                                                                         "(see DESIGN.md section 3); no check is claimed")})
man = {
    "version": 1,
    "setup_cmd": "./setup.sh",
    "hooks": {
        "guard": "ucg_verif",
        "enable": "none needed: static analysis reads /repo's source through a rustc wrapper (RUSTC_WORKSPACE_WRAPPER) and syn; "
                  "no instrumentation is compiled into /repo",
        "baseline_off_cmd": "./baseline_off.sh",
        "source_commits": [],
        "add_only": True,
    },
    "engines": [
        {"name": "mirfacts", "path": "engines/mirfacts", "serves_properties": sorted(props.PROPS),
         "kind_free_text": "rustc_private driver (nightly) dumping type-checked MIR, ADTs and impls of ucglib and ucg as JSON facts"},
        {"name": "synfacts", "path": "engines/synfacts", "serves_properties": sorted(props.PROPS),
         "kind_free_text": "syn 2 extractor of the unexpanded syntax tree (macro DSLs, format strings, match tables)"},
        {"name": "ucgverif", "path": "ucgverif", "serves_properties": sorted(props.PROPS),
         "kind_free_text": "Python rule library: CFG/dominators, origin analysis, per-variant outcomes, call graph, grammar terms"},
    ],
    "checks": checks,
    "not_applicable": na,
    "notes": "Exit codes of ./check: 0 held (known findings printed), 1 violation (VIOLATION line), 2 cannot analyse / anchor missing / "
             "floor not met, 3 seeded mutant missed (thorough). Known findings: /verif/known_findings.txt.",
}
json.dump(man, open("/verif/MANIFEST.json", "w"), indent=1)
print("claimed:", [c["property_id"] for c in checks])
