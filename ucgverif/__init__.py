"""Static-analysis rule library for zaphar/ucg (see /verif/DESIGN.md)."""
