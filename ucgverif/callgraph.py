"""A4/A5: call graph over resolved callees; dyn/generic trait-method calls are expanded to all local impls;
closures are attributed to their parent function."""
from .facts import callee


def parent_of(name):
    i = name.find("::{closure#")
    return name[:i] if i >= 0 else name


class CallGraph:
    def __init__(self, F):
        self.F = F
        self.edges = {}      # caller (closures folded into parent) -> set(callee names)
        self.sites = {}      # callee -> [(caller fn name (unfolded), bb)]
        # trait method name -> impl method paths (local impls)
        self.impl_methods = {}
        for imp in F.impls:
            if imp.get("trait"):
                for m, path in imp["methods"].items():
                    self.impl_methods.setdefault((imp["trait"], m), []).append(path)
        for n, fn in F.fns.items():
            p = parent_of(n)
            es = self.edges.setdefault(p, set())
            for b, t in fn.calls():
                targets = self.targets(t)
                for c in targets:
                    es.add(c)
                    self.sites.setdefault(c, []).append((n, b))
                # closures created here are (potentially) called by whoever receives them: attribute to parent
            for cn in F.closures_of(n):
                es.add(cn.name)

    def targets(self, t):
        c = callee(t)
        out = [c]
        tm = t.get("trait_method")
        if tm and (t.get("resolved") is None or t.get("resolved_kind") == "virtual"):
            out += self.impl_methods.get((tm["trait"], tm["name"]), [])
        return out

    def callers(self, name):
        return sorted({parent_of(n) for n, b in self.sites.get(name, [])})

    def call_sites(self, name):
        return list(self.sites.get(name, []))

    def reachable_from(self, entries):
        seen = set()
        work = [e for e in entries]
        while work:
            x = work.pop()
            if x in seen:
                continue
            seen.add(x)
            for y in self.edges.get(x, ()):
                if y not in seen:
                    work.append(y)
        return seen


_CG = {}


def get(F):
    k = id(F)
    if k not in _CG:
        _CG[k] = CallGraph(F)
    return _CG[k]
