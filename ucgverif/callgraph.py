"""A4/A5: call graph over resolved callees; dyn/generic trait-method calls are expanded to all local impls;
closures are attributed to their parent function."""
from .facts import callee


def parent_of(name):
    i = name.find("::{closure#")
    return name[:i] if i >= 0 else name


class CallGraph:
    def __init__(self, F):
        self.F = F
        self.edges = {}      # caller (closures folded into parent) -> set(callee names)
        self.sites = {}      # callee -> [(caller fn name (unfolded), bb)]
        # trait method name -> impl method paths (local impls)
        self.impl_methods = {}
        for imp in F.impls:
            if imp.get("trait"):
                for m, path in imp["methods"].items():
                    self.impl_methods.setdefault((imp["trait"], m), []).append(path)
        for n, fn in F.fns.items():
            p = parent_of(n)
            es = self.edges.setdefault(p, set())
            for b, t in fn.calls():
                targets = self.targets(t)
                for c in targets:
                    es.add(c)
                    self.sites.setdefault(c, []).append((n, b))
                # closures created here are (potentially) called by whoever receives them: attribute to parent
            for cn in F.closures_of(n):
                es.add(cn.name)

    def targets(self, t):
        c = callee(t)
        out = [c]
        tm = t.get("trait_method")
        if tm and (t.get("resolved") is None or t.get("resolved_kind") == "virtual"):
            out += self.impl_methods.get((tm["trait"], tm["name"]), [])
        return out

    def callers(self, name):
        return sorted({parent_of(n) for n, b in self.sites.get(name, [])})

    def call_sites(self, name):
        return list(self.sites.get(name, []))

    def reachable_from(self, entries):
        seen = set()
        work = [e for e in entries]
        while work:
            x = work.pop()
            if x in seen:
                continue
            seen.add(x)
            for y in self.edges.get(x, ()):
                if y not in seen:
                    work.append(y)
        return seen


def recursive_sccs(CG, nodes):
    """strongly connected components with a cycle (size > 1 or a self edge) of the call graph restricted to `nodes`"""
    nodes = set(nodes)
    idx, low, on, st, out = {}, {}, set(), [], []
    counter = [0]
    for root in sorted(nodes):
        if root in idx:
            continue
        # iterative Tarjan
        work = [(root, iter(sorted(w for w in CG.edges.get(root, ()) if w in nodes)))]
        idx[root] = low[root] = counter[0]
        counter[0] += 1
        st.append(root)
        on.add(root)
        while work:
            v, it = work[-1]
            adv = False
            for w in it:
                if w not in idx:
                    idx[w] = low[w] = counter[0]
                    counter[0] += 1
                    st.append(w)
                    on.add(w)
                    work.append((w, iter(sorted(x for x in CG.edges.get(w, ()) if x in nodes))))
                    adv = True
                    break
                elif w in on:
                    low[v] = min(low[v], idx[w])
            if adv:
                continue
            work.pop()
            if work:
                u = work[-1][0]
                low[u] = min(low[u], low[v])
            if low[v] == idx[v]:
                comp = []
                while True:
                    w = st.pop()
                    on.discard(w)
                    comp.append(w)
                    if w == v:
                        break
                if len(comp) > 1 or v in CG.edges.get(v, ()):
                    out.append(sorted(comp))
    return out


def get(F):
    # memo on the Facts object itself (id() values are reused after collection)
    if "_callgraph" not in F.__dict__:
        F.__dict__["_callgraph"] = CallGraph(F)
    return F.__dict__["_callgraph"]
