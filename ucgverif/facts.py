"""Loader and accessors for the E1 (MIR) and E2 (syntax) fact files."""
import json
import os
import re


_PROM = re.compile(r"::promoted\[(\d+)\]$")


def _fix_operand(op, prom):
    c = op.get("const")
    if c is None or not isinstance(c, str):
        return
    m = _PROM.search(c)
    if not m:
        return
    idx = int(m.group(1))
    if idx < len(prom):
        consts = prom[idx]
        op["promoted"] = consts
        strs = [x["str"] for x in consts if "str" in x]
        if len(consts) == 1 and len(strs) == 1:
            op["str"] = strs[0]
        ints = [x for x in consts if "int" in x]
        if len(consts) == 1 and len(ints) == 1:
            op["int"] = ints[0]["int"]
            op["ty"] = ints[0]["ty"]


def _resolve_promoted(d):
    prom = d.get("promoted") or []
    if not prom:
        return
    for blk in d["blocks"]:
        for st in blk["stmts"]:
            if st[0] == "assign":
                for op in st[2].get("ops", ()):
                    _fix_operand(op, prom)
        t = blk["term"]
        for op in t.get("args", ()):
            _fix_operand(op, prom)
        if "on" in t:
            _fix_operand(t["on"], prom)


class Fn:
    __slots__ = ("name", "d", "blocks", "file", "line", "crate", "_succ", "_pred", "_idom", "_vars")

    def __init__(self, name, d, crate):
        self.name = name
        self.d = d
        _resolve_promoted(d)
        self.blocks = d["blocks"]
        self.file = d["file"]
        self.line = d["line"]
        self.crate = crate
        self._succ = None
        self._pred = None
        self._idom = None
        self._vars = None

    @property
    def nargs(self):
        return self.d["args"]

    @property
    def locals(self):
        return self.d["locals"]

    @property
    def derived(self):
        return self.d["derived"]

    def local_ty(self, l):
        return self.d["locals"][l]["ty"]

    def local_adt(self, l):
        return self.d["locals"][l]["adt"]

    def var_names(self):
        """local -> set of user variable names bound directly to it"""
        if self._vars is None:
            m = {}
            for v in self.d["vars"]:
                p = v["place"]
                if not p["p"]:
                    m.setdefault(p["l"], set()).add(v["name"])
            self._vars = m
        return self._vars

    def locals_named(self, name):
        return [l for l, ns in self.var_names().items() if name in ns]

    def term(self, b):
        return self.blocks[b]["term"]

    def stmts(self, b):
        return self.blocks[b]["stmts"]

    def is_cleanup(self, b):
        return self.blocks[b]["cleanup"]

    def where(self, b=None):
        if b is None:
            return "%s:%d" % (self.file, self.line)
        return "%s:%d" % (self.file, self.term(b).get("line", self.line))

    # ---- iteration helpers
    def calls(self, include_cleanup=False):
        for i, blk in enumerate(self.blocks):
            if blk["cleanup"] and not include_cleanup:
                continue
            t = blk["term"]
            if t["k"] == "call":
                yield i, t

    def assigns(self, include_cleanup=False):
        for i, blk in enumerate(self.blocks):
            if blk["cleanup"] and not include_cleanup:
                continue
            for j, st in enumerate(blk["stmts"]):
                if st[0] == "assign":
                    yield i, j, st[1], st[2], st[3]


def callee(t):
    """best name for the function a call terminator invokes"""
    return t.get("resolved") or t.get("callee") or "<fnptr>"


def callee_full(t):
    return t.get("resolved_full") or t.get("callee_full") or "<fnptr>"


def op_place(op):
    if op is None:
        return None
    return op.get("copy") or op.get("move")


def op_local(op):
    p = op_place(op)
    return None if p is None else p["l"]


def place_str(p):
    s = "_%d" % p["l"]
    for e in p["p"]:
        if e == "*":
            s = "(*%s)" % s
        elif "f" in e:
            s += "." + e["f"]
        elif "v" in e:
            s += " as " + e["v"]
        elif "i" in e:
            s += "[_%d]" % e["i"]
        elif "ci" in e:
            s += "[%d]" % e["ci"]
        else:
            s += "{%s}" % e.get("o", "?")
    return s


def place_fields(p):
    return [e["f"] for e in p["p"] if isinstance(e, dict) and "f" in e]


def place_variants(p):
    return [e["v"] for e in p["p"] if isinstance(e, dict) and "v" in e]


class Facts:
    def __init__(self, facts_dir, tree_hash=None, config="default", repo=None):
        self.dir = facts_dir
        self.repo = repo or os.environ.get("UCG_REPO", "/repo")
        self.tree_hash = tree_hash
        self.config = config
        self.fns = {}
        self.adts = {}
        self.impls = []
        self.traits = []
        for crate in ("ucglib", "ucg"):
            with open(os.path.join(facts_dir, crate + ".json")) as fh:
                d = json.load(fh)
            for k, v in d["fns"].items():
                key = k
                if key in self.fns:
                    key = "%s@%s" % (k, crate)
                self.fns[key] = Fn(key, v, crate)
            for k, v in d["adts"].items():
                self.adts.setdefault(k, v)
            for i in d["impls"]:
                i["crate"] = crate
                self.impls.append(i)
            for t in d["traits"]:
                self.traits.append(t)
        # summaries of library combinators used by the path rules are written for this exact version
        lock = os.path.join(self.repo, "Cargo.lock")
        self.abortable_parser_version = None
        if os.path.exists(lock):
            m = re.search(r'name = "abortable_parser"\nversion = "([^"]+)"', open(lock).read())
            self.abortable_parser_version = m.group(1) if m else None
        synp = os.path.join(facts_dir, "syn.json")
        self._syn = None
        self._synp = synp

    @property
    def syn(self):
        if self._syn is None:
            with open(self._synp) as fh:
                self._syn = json.load(fh)["files"]
        return self._syn

    def fn(self, name, flat=None):
        """exact lookup; raises KeyError (-> missing anchor).  By default the function comes with its private helpers spliced in
        (flatten.flat) when flat=True: a rule anchored here then sees the same calls and paths whether or not a block was moved
        into a helper.  The default is the body as written (many rules name today's helpers); VERIF_FLAT=1 flips the default."""
        fn = self.fns[name]
        if flat is None:
            flat = "second-view" if os.environ.get("VERIF_FLAT", "0") == "1" else False
        if not flat:
            return fn
        from . import flatten
        if flat == "second-view" or (flat is True and os.environ.get("VERIF_FLAT") == "1" and flatten.KEEP_ID):
            # the generic second view: everything helper-like except what the rule's module names
            return flatten.flat(self, name, keep=("<rule-module-names>",))
        return flatten.flat(self, name)

    def find(self, suffix):
        return [f for n, f in self.fns.items() if n.endswith(suffix)]

    def closures_of(self, name):
        pre = name + "::{closure#"
        return [f for n, f in self.fns.items() if n.startswith(pre)]

    def with_closures(self, name):
        return [self.fns[name]] + self.closures_of(name)

    def adt(self, name):
        return self.adts[name]

    def variants(self, adt):
        return [v["name"] for v in self.adts[adt]["variants"]]


# ---- syntax-tree helpers (E2)
def syn_walk(node, fn):
    """pre-order walk over every dict node of an E2 tree"""
    if isinstance(node, dict):
        fn(node)
        for v in node.values():
            if isinstance(v, (dict, list)):
                syn_walk(v, fn)
    elif isinstance(node, list):
        for v in node:
            syn_walk(v, fn)


def syn_items(file_items, path=()):
    """yields (path tuple, item) for every fn (free, impl, nested mod) in a file, skipping cfg(test) modules"""
    for it in file_items:
        k = it.get("k")
        if k == "fn":
            yield path + (it["name"],), it
        elif k == "impl":
            for sub in it["items"]:
                if sub.get("k") == "fn":
                    yield path + (it["self"], sub["name"]), sub
        elif k == "trait":
            for sub in it["items"]:
                if sub.get("k") == "fn" and "body" in sub:
                    yield path + (it["name"], sub["name"]), sub
        elif k == "mod" and not it.get("cfg_test") and "items" in it:
            for x in syn_items(it["items"], path + (it["name"],)):
                yield x


def syn_fn(facts, file, *path):
    for p, it in syn_items(facts.syn[file]["items"]):
        if p == tuple(path):
            return it
    raise KeyError("syntax fn %s in %s" % ("::".join(path), file))


def syn_macros(file_items, name):
    """top-level (and nested-mod) item macros with the given name"""
    out = []
    for it in file_items:
        if it.get("k") == "macro" and it.get("name") == name:
            out.append(it)
        elif it.get("k") == "mod" and not it.get("cfg_test") and "items" in it:
            out.extend(syn_macros(it["items"], name))
    return out
