"""Views of the translator (AST -> opcodes) shared by several properties: opcode pushes, patch sites,
recursive calls and the AST arm (enum variant) every block belongs to."""
from . import cfg
from .core import need
from .facts import callee, op_local, op_place

T = "ucglib::build::opcode::translate::AST::"
OPSMAP = "ucglib::build::opcode::translate::OpsMap::"
OP = "ucglib::build::opcode::Op"
HOOK = "ucglib::build::opcode::Hook"
TRANSLATE_FNS = [T + n for n in ("translate_stmt", "translate_stmts", "translate_expr", "translate_template_part",
                                 "translate_copy", "translate_value")]


def agg_def(fn, local, at_bb=None):
    """the aggregate rvalue assigned to `local` (unique, or the one dominating at_bb); follows plain moves"""
    seen = set()
    while local not in seen:
        seen.add(local)
        defs = [(b, rv) for b, j, pl, rv, m in fn.assigns() if pl["l"] == local and not pl["p"]]
        if at_bb is not None and len(defs) > 1:
            dd = [(b, rv) for b, rv in defs if cfg.dominates(fn, b, at_bb)]
            if dd:
                defs = dd[-1:]
        if len(defs) != 1:
            return None
        b, rv = defs[0]
        if rv["k"] == "agg":
            return rv
        if rv["k"] == "use":
            nl = op_local(rv["ops"][0])
            pl = op_place(rv["ops"][0])
            if nl is None or pl["p"]:
                return None
            local = nl
            continue
        return None
    return None


def op_of_operand(fn, operand, bb):
    """(variant, hook_variant|None, agg) of an `Op` value handed to push/replace"""
    l = op_local(operand)
    if l is None:
        return None
    agg = agg_def(fn, l, bb)
    if agg is None or agg.get("adt") != OP:
        return None
    hook = None
    if agg["variant"] == "Runtime" and agg["ops"]:
        hl = op_local(agg["ops"][0])
        if hl is not None:
            ha = agg_def(fn, hl, bb)
            if ha is not None and ha.get("adt") == HOOK:
                hook = ha["variant"]
    return agg["variant"], hook, agg


def pushes(fn):
    out = []
    for b, t in fn.calls():
        if callee(t) == OPSMAP + "push":
            r = op_of_operand(fn, t["args"][1], b)
            out.append({"bb": b, "op": r[0] if r else None, "hook": r[1] if r else None, "agg": r[2] if r else None,
                        "pos": t["args"][2], "term": t})
    return out


def replaces(fn):
    out = []
    for b, t in fn.calls():
        if callee(t) == OPSMAP + "replace":
            r = op_of_operand(fn, t["args"][2], b)
            out.append({"bb": b, "op": r[0] if r else None, "agg": r[2] if r else None, "idx": t["args"][1], "term": t})
    return out


def rec_calls(fn):
    out = []
    for b, t in fn.calls():
        c = callee(t)
        if c.startswith(T) and c[len(T):].startswith("translate_"):
            out.append({"bb": b, "callee": c[len(T):], "term": t})
    return out


def arms(fn, enum):
    """{variant: entry block} for the switch(es) on `enum` in fn; unlisted variants go to `otherwise`"""
    out = {}
    for b in range(len(fn.blocks)):
        if fn.is_cleanup(b):
            continue
        t = fn.term(b)
        if t["k"] == "switch" and t.get("enum") == enum:
            named = set()
            for x in t["targets"]:
                if "variant" in x:
                    out.setdefault(x["variant"], []).append((b, x["t"]))
                    named.add(x["variant"])
            for v in t.get("all_variants", []):
                if v not in named:
                    out.setdefault(v, []).append((b, t["otherwise"]))
    return out


def arm_blocks(fn, enum, variant):
    """blocks that belong to the arm of `variant`: dominated by the arm's entry block, provided the entry
    block is entered only through that switch edge"""
    a = arms(fn, enum).get(variant)
    need(a, "no arm for %s::%s in %s" % (enum, variant, fn.name))
    out = set()
    for sb, entry in a:
        for b in range(len(fn.blocks)):
            if not fn.is_cleanup(b) and cfg.dominates(fn, entry, b):
                out.add(b)
    return out


def order_key(fn):
    """a topological position for blocks (reverse post-order index); loops keep header first"""
    rpo = cfg.rpo(fn)
    return {b: i for i, b in enumerate(rpo)}
