"""Sensitivity self-test (thorough tier): every seeded mutant of a property's rules is applied to a
scratch copy of the CURRENT /repo tree, facts are extracted from the copy (nothing is executed) and
the rule must report the expected instance key.

Mutant files: /verif/mutants/<Cxx>/<name>.patch with header lines
    # property: C13
    # expect: R57:ucg::visit_ucg_files->ucg::visit_ucg_files        (prefix of a violation key; may repeat)
    # what: one line
followed by a unified diff (paths relative to the repo root, -p1).
"""
import glob
import os
import shutil
import subprocess
import sys
import tempfile

from . import core, extract, props
from .facts import Facts

MUT_DIR = os.path.join(core.VERIF, "mutants")
SCRATCH_ROOT = "/var/tmp"


def parse_mutant(path):
    path = os.path.abspath(path)
    meta = {"expect": [], "path": path, "name": os.path.basename(path)[:-6]}
    for line in open(path):
        if line.startswith("# property:"):
            meta["property"] = line.split(":", 1)[1].strip()
        elif line.startswith("# expect:"):
            meta["expect"].append(line.split(":", 1)[1].strip())
        elif line.startswith("# what:"):
            meta["what"] = line.split(":", 1)[1].strip()
        elif line.startswith("# neutral"):
            # a behaviour-preserving variant: the property still holds, every rule must stay quiet (and must still decide)
            meta["neutral"] = True
        elif not line.startswith("#"):
            break
    return meta


def make_scratch(repo=None):
    repo = repo or extract.REPO
    d = tempfile.mkdtemp(prefix="ucgverif-mut-", dir=SCRATCH_ROOT)
    for top in extract.HASHED:
        src = os.path.join(repo, top)
        dst = os.path.join(d, top)
        os.makedirs(os.path.dirname(dst), exist_ok=True)
        if os.path.isdir(src):
            shutil.copytree(src, dst)
        else:
            shutil.copy2(src, dst)
    return d


def apply_patch(scratch, patch_path):
    r = subprocess.run(["patch", "-p1", "--no-backup-if-mismatch", "-s", "-f", "-i", patch_path], cwd=scratch,
                       stdout=subprocess.PIPE, stderr=subprocess.STDOUT, text=True)
    return r.returncode == 0, r.stdout


def violations_on(repo_dir, pid):
    """run the property's rules on an arbitrary tree; returns (violation keys, errors)"""
    d, th = extract.ensure_facts("default", repo=repo_dir)
    F = Facts(d, th, repo=repo_dir)
    res = core.run_rules(F, props.rules_for(pid))
    keys = [i["key"] for r in res for i in r.violations]
    errs = [e for r in res for e in r.errors]
    return keys, errs


def run_one(meta, pid=None):
    pid = pid or meta.get("property")
    scratch = make_scratch()
    try:
        ok, out = apply_patch(scratch, meta["path"])
        if not ok:
            return {"mutant": meta["name"], "status": "skipped", "reason": "patch does not apply to the current tree: " + out[-300:]}
        try:
            keys, errs = violations_on(scratch, pid)
        except extract.CannotAnalyse as e:
            return {"mutant": meta["name"], "status": "skipped", "reason": "mutant does not compile: " + str(e)[-400:]}
        if meta.get("neutral"):
            known, _ = core.load_known()
            keys = [k for k in keys if (pid, k) not in known]
            if not keys and not errs:
                return {"mutant": meta["name"], "status": "quiet"}
            lim = neutral_limits().get((meta["name"].replace("neutral-agent-", ""), pid))
            if lim is not None:
                # a documented limit (neutral/LIMITS.txt, DESIGN.md 7.6): reported in the evidence, not a failure of the self-test;
                # anything the file does not list for this patch still is
                rules_seen = {k.split(":")[0].upper() for k in keys} | {e.split(":")[0].upper() for e in errs}
                if rules_seen <= lim:
                    return {"mutant": meta["name"], "status": "known-limit", "got": keys[:6], "errors": errs[:3]}
            return {"mutant": meta["name"], "status": "false-alarm", "got": keys[:10], "errors": errs[:4]}
        hit = [e for e in meta["expect"] if any(k.startswith(e) for k in keys)]
        if len(hit) == len(meta["expect"]) and meta["expect"]:
            return {"mutant": meta["name"], "status": "detected", "keys": [k for k in keys if any(k.startswith(e) for e in meta["expect"])][:4]}
        # an anchor error is also a refusal to pass (exit 2), but the design asks for the named instance
        return {"mutant": meta["name"], "status": "missed", "expected": meta["expect"], "got": keys[:10], "errors": errs[:4]}
    finally:
        shutil.rmtree(scratch, ignore_errors=True)


NEUTRAL_DIR = os.path.join(core.VERIF, "neutral")


def neutral_patches(pid):
    """behaviour-preserving refactorings written by independent sub-agents (neutral/<id>/patch.diff): those made for this
    property, and those listed for it in neutral/CROSS.txt because one of its rules once raised a false alarm on them"""
    out = []
    cross = set()
    cp = os.path.join(NEUTRAL_DIR, "CROSS.txt")
    if os.path.exists(cp):
        for line in open(cp):
            f = line.split("#")[0].split()
            if len(f) >= 2 and pid in f[1:]:
                cross.add(f[0])
    cross |= {nid for (nid, p) in neutral_limits() if p == pid}
    for d in sorted(glob.glob(os.path.join(NEUTRAL_DIR, "*"))):
        nid = os.path.basename(d)
        p = os.path.join(d, "patch.diff")
        if os.path.exists(p) and (nid.startswith(pid + "-") or nid in cross):
            out.append({"expect": [], "path": p, "name": "neutral-agent-" + nid, "property": pid, "neutral": True,
                        "what": "behaviour-preserving refactoring by an independent sub-agent"})
    return out


def neutral_limits():
    """{(patch id, property): {rule ids}}: refactorings a rule is known not to follow (neutral/LIMITS.txt)"""
    out = {}
    lp = os.path.join(NEUTRAL_DIR, "LIMITS.txt")
    if os.path.exists(lp):
        for line in open(lp):
            f = line.split("#")[0].split()
            if len(f) >= 4:
                out.setdefault((f[0], f[1]), set()).add(f[3].upper())
    return out


def _run_job(job):
    meta, pid = job
    return run_one(meta, pid)


def run(pid, workers=6):
    import concurrent.futures as cf
    jobs = [(parse_mutant(p), pid) for p in sorted(glob.glob(os.path.join(MUT_DIR, pid, "*.patch")))]
    jobs += [(m, pid) for m in neutral_patches(pid)]
    if workers <= 1 or len(jobs) <= 1:
        return [_run_job(j) for j in jobs]
    with cf.ProcessPoolExecutor(max_workers=workers) as ex:
        return list(ex.map(_run_job, jobs))


if __name__ == "__main__":
    # python3 -m ucgverif.selftest <patch> [<property>]   or   python3 -m ucgverif.selftest --all
    if sys.argv[1] == "--all":
        bad = 0
        for pid in sorted(props.PROPS):
            for r in run(pid):
                print(pid, r)
                if r["status"] not in ("detected", "quiet"):
                    bad += 1
        sys.exit(1 if bad else 0)
    m = parse_mutant(sys.argv[1])
    print(run_one(m, sys.argv[2] if len(sys.argv) > 2 else None))
