"""A2: flow-insensitive intra-procedural origin ("derives-from") analysis.

Every local gets the set of labels it MAY be computed from.  Exclusion claims
("X never derives from Y") are sound with respect to the data flow visible in
the function body: assignments, references (writes through `&mut` are weak
updates of every local the reference may point into), and calls (the result and
every `&mut` argument derive from all arguments and from the call itself).

Labels (tuples):
  ("param", i)                 the i-th parameter (1-based MIR local)
  ("field", name)              a read went through field `name`
  ("variant", name)            a read went through a downcast to variant `name`
  ("call", callee, bb)         result (or &mut out-argument) of a call
  ("const", kind, value)       a literal
  ("agg", adt, variant, bb)    an aggregate built here
  ("bin", op) ("un", op) ("cast", kind) ("discr",) ("other",)
"""
from .facts import callee, op_place


def _is_mut_ref(ty):
    return ty.startswith("&mut ") or ty.startswith("&'") and " mut " in ty.split(" ", 2)[1:2]


class Origins:
    def __init__(self, fn):
        self.fn = fn
        n = len(fn.locals)
        self.n = n
        # ---- collect defs
        self.defs = [[] for _ in range(n)]       # local -> list of (kind, payload)
        self.ptr_defs = [[] for _ in range(n)]   # for alias bases
        for i in range(1, fn.nargs + 1):
            self.defs[i].append(("param", i))
        for b, blk in enumerate(fn.blocks):
            if blk["cleanup"]:
                continue
            for j, st in enumerate(blk["stmts"]):
                if st[0] == "assign":
                    self.defs[st[1]["l"]].append(("assign", b, j, st[1], st[2]))
            t = blk["term"]
            if t["k"] == "call":
                self.defs[t["dest"]["l"]].append(("call", b, t, t["dest"]))
        # ---- alias bases: which locals may a reference-typed local point into
        self.alias = [set() for _ in range(n)]
        changed = True
        while changed:
            changed = False
            for l in range(n):
                cur = self.alias[l]
                before = len(cur)
                for d in self.defs[l]:
                    if d[0] == "assign":
                        rv = d[4]
                        if rv["k"] in ("ref", "rawptr"):
                            p = rv["place"]
                            cur.add(p["l"])
                            if "*" in p["p"]:
                                cur |= self.alias[p["l"]]
                        elif rv["k"] in ("use", "cast"):
                            for op in rv["ops"]:
                                pl = op_place(op)
                                if pl is not None:
                                    cur |= self.alias[pl["l"]]
                        elif rv["k"] == "agg":
                            for op in rv["ops"]:
                                pl = op_place(op)
                                if pl is not None:
                                    cur |= self.alias[pl["l"]]
                    elif d[0] == "call":
                        ty = fn.local_ty(l)
                        if "&" in ty or "*" in ty or "Ref" in ty or "Iter" in ty or "Option<" in ty:
                            for op in d[2]["args"]:
                                pl = op_place(op)
                                if pl is not None:
                                    cur |= self.alias[pl["l"]]
                if len(cur) != before:
                    changed = True
        # ---- writes through references / out-params are weak defs of the bases
        extra = []
        for l in range(n):
            for d in self.defs[l]:
                if d[0] == "assign" and "*" in d[3]["p"]:
                    for base in self.alias[l]:
                        extra.append((base, d))
        for b, blk in enumerate(fn.blocks):
            if blk["cleanup"]:
                continue
            t = blk["term"]
            if t["k"] == "call":
                for op in t["args"]:
                    pl = op_place(op)
                    if pl is None:
                        continue
                    a = pl["l"]
                    ty = fn.local_ty(a)
                    if ty.startswith("&mut") or ty.startswith("*mut") or ("&mut" in ty):
                        for base in self.alias[a]:
                            extra.append((base, ("call", b, t, None)))
                        # a &mut parameter itself: the callee may write through it
                        extra.append((a, ("call", b, t, None)))
        for base, d in extra:
            if d not in self.defs[base]:
                self.defs[base].append(d)
        # ---- fixpoint of label sets
        self.lab = [set() for _ in range(n)]
        changed = True
        while changed:
            changed = False
            for l in range(n):
                cur = self.lab[l]
                before = len(cur)
                for d in self.defs[l]:
                    if d[0] == "param":
                        cur.add(("param", d[1]))
                    elif d[0] == "assign":
                        cur |= self._rvalue_labels(d[4], d[1])
                    elif d[0] == "call":
                        t = d[2]
                        cur.add(("call", callee(t), d[1]))
                        for op in t["args"]:
                            cur |= self.of_operand(op)
                if len(cur) != before:
                    changed = True

    # ---- flow-restricted query: only definitions that can reach block `bb`
    def at(self, op_or_place, bb):
        """labels of an operand/place as seen at block bb: a definition is considered only if its block can
        reach bb in the CFG (parameters always).  Removes the typical flow-insensitive blur where a later
        push into a container pollutes an earlier pop from it."""
        from . import cfg as _cfg
        fn = self.fn
        key = ("can", bb)
        cache = self.__dict__.setdefault("_can", {})
        if bb not in cache:
            preds = _cfg.preds(fn)
            seen = set()
            work = [bb]
            while work:
                x = work.pop()
                for p_ in preds[x]:
                    if p_ not in seen:
                        seen.add(p_)
                        work.append(p_)
            cache[bb] = seen          # blocks that reach bb through at least one edge
        can_strict = cache[bb]
        can = can_strict | {bb}
        memo = {}

        def local_labels(l, stack):
            if l in memo:
                return memo[l]
            if l in stack:
                return set()
            stack = stack | {l}
            out = set()
            for d in self.defs[l]:
                if d[0] == "param":
                    out.add(("param", d[1]))
                elif d[0] == "assign":
                    if d[1] not in can:
                        continue
                    out |= rvalue(d[4], d[1], stack)
                elif d[0] == "call":
                    # a call is the terminator of its block: its effects are visible at bb only after an edge
                    if d[1] not in can_strict:
                        continue
                    t_ = d[2]
                    out.add(("call", callee(t_), d[1]))
                    for a in t_["args"]:
                        out |= operand(a, stack)
            if len(stack) == 1:
                memo[l] = out
            return out

        def place(p_, stack):
            out = set(local_labels(p_["l"], stack))
            for e in p_["p"]:
                if isinstance(e, dict):
                    if "f" in e:
                        out.add(("field", e["f"]))
                    elif "v" in e:
                        out.add(("variant", e["v"]))
                    elif "i" in e:
                        out |= local_labels(e["i"], stack)
            if "*" in p_["p"]:
                for base in self.alias[p_["l"]]:
                    out |= local_labels(base, stack)
            return out

        def operand(op, stack):
            pl = op_place(op)
            if pl is not None:
                return place(pl, stack)
            return self.of_operand(op)

        def rvalue(rv, b_, stack):
            k = rv["k"]
            out = set()
            if k in ("use", "repeat", "cast", "bin", "un", "agg"):
                if k == "cast":
                    out.add(("cast", rv["cast"], rv["from"], rv["to"]))
                elif k == "bin":
                    out.add(("bin", rv["op"]))
                elif k == "un":
                    out.add(("un", rv["op"]))
                elif k == "agg":
                    out.add(("agg", rv.get("adt"), rv.get("variant"), b_))
                for o_ in rv["ops"]:
                    out |= operand(o_, stack)
            elif k in ("ref", "rawptr"):
                out |= place(rv["place"], stack)
            elif k == "discr":
                out.add(("discr",))
                out |= place(rv["place"], stack)
            else:
                out.add(("other",))
            return out

        if "l" in op_or_place and "p" in op_or_place:
            return place(op_or_place, frozenset())
        return operand(op_or_place, frozenset())

    def _place_labels(self, p):
        out = set(self.lab[p["l"]])
        for e in p["p"]:
            if isinstance(e, dict):
                if "f" in e:
                    out.add(("field", e["f"]))
                elif "v" in e:
                    out.add(("variant", e["v"]))
                elif "i" in e:
                    out |= self.lab[e["i"]]
        if "*" in p["p"]:
            for base in self.alias[p["l"]]:
                out |= self.lab[base]
        return out

    def of_operand(self, op):
        pl = op_place(op)
        if pl is not None:
            return self._place_labels(pl)
        if "promoted" in op:
            out = set()
            for c in op["promoted"]:
                out |= self.of_operand(c)
            out.add(("const", "promoted", op.get("const", "")))
            return out
        if "int" in op:
            return {("const", "int", op["int"])}
        if "str" in op:
            return {("const", "str", op["str"])}
        if "fn" in op:
            return {("const", "fn", op["fn"])}
        if "float" in op:
            return {("const", "float", op["float"])}
        return {("const", "other", op.get("const", ""))}

    def of_place(self, p):
        return self._place_labels(p)

    def of_local(self, l):
        return set(self.lab[l])

    def _rvalue_labels(self, rv, bb):
        k = rv["k"]
        out = set()
        if k in ("use", "repeat"):
            for op in rv["ops"]:
                out |= self.of_operand(op)
        elif k in ("ref", "rawptr"):
            out |= self._place_labels(rv["place"])
        elif k == "cast":
            out.add(("cast", rv["cast"], rv["from"], rv["to"]))
            for op in rv["ops"]:
                out |= self.of_operand(op)
        elif k == "bin":
            out.add(("bin", rv["op"]))
            for op in rv["ops"]:
                out |= self.of_operand(op)
        elif k == "un":
            out.add(("un", rv["op"]))
            for op in rv["ops"]:
                out |= self.of_operand(op)
        elif k == "discr":
            out.add(("discr",))
            out |= self._place_labels(rv["place"])
        elif k == "agg":
            out.add(("agg", rv.get("adt"), rv.get("variant"), bb))
            for op in rv["ops"]:
                out |= self.of_operand(op)
        else:
            out.add(("other",))
        return out


def has(labels, kind, *rest):
    for l in labels:
        if l[0] == kind and tuple(l[1:1 + len(rest)]) == tuple(rest):
            return True
    return False


def calls_in(labels):
    return {l[1] for l in labels if l[0] == "call"}


def fields_in(labels):
    return {l[1] for l in labels if l[0] == "field"}


def params_in(labels):
    return {l[1] for l in labels if l[0] == "param"}
