"""A2: flow-insensitive intra-procedural origin ("derives-from") analysis.

Every local gets the set of labels it MAY be computed from.  Exclusion claims
("X never derives from Y") are sound with respect to the data flow visible in
the function body: assignments, references (writes through `&mut` are weak
updates of every local the reference may point into), and calls (the result and
every `&mut` argument derive from all arguments and from the call itself).

Labels (tuples):
  ("param", i)                 the i-th parameter (1-based MIR local)
  ("field", name)              a read went through field `name`
  ("variant", name)            a read went through a downcast to variant `name`
  ("call", callee, bb)         result of a call
  ("effect", callee, bb)       written by a call through a &mut argument (out-parameter / receiver)
  ("const", kind, value)       a literal
  ("agg", adt, variant, bb)    an aggregate built here
  ("bin", op) ("un", op) ("cast", kind) ("discr",) ("other",)
"""
from .facts import callee, op_place


def _is_mut_ref(ty):
    return ty.startswith("&mut ") or ty.startswith("&'") and " mut " in ty.split(" ", 2)[1:2]


class Origins:
    def __init__(self, fn, opaque=()):
        """opaque: callee names whose result does not inherit the labels of the arguments (declared
        information barriers, e.g. a function returning only a &'static type name)"""
        self.fn = fn
        self.opaque = tuple(opaque)
        n = len(fn.locals)
        self.n = n
        # ---- collect defs
        self.defs = [[] for _ in range(n)]       # local -> list of (kind, payload)
        self.ptr_defs = [[] for _ in range(n)]   # for alias bases
        for i in range(1, fn.nargs + 1):
            self.defs[i].append(("param", i))
        for b, blk in enumerate(fn.blocks):
            if blk["cleanup"]:
                continue
            for j, st in enumerate(blk["stmts"]):
                if st[0] == "assign":
                    self.defs[st[1]["l"]].append(("assign", b, j, st[1], st[2]))
            t = blk["term"]
            if t["k"] == "call":
                self.defs[t["dest"]["l"]].append(("call", b, t, t["dest"]))
        # ---- alias bases: which locals may a reference-typed local point into
        self.alias = [set() for _ in range(n)]
        changed = True
        while changed:
            changed = False
            for l in range(n):
                cur = self.alias[l]
                before = len(cur)
                for d in self.defs[l]:
                    if d[0] == "assign":
                        rv = d[4]
                        if rv["k"] in ("ref", "rawptr"):
                            p = rv["place"]
                            cur.add(p["l"])
                            if "*" in p["p"]:
                                cur |= self.alias[p["l"]]
                        elif rv["k"] in ("use", "cast"):
                            for op in rv["ops"]:
                                pl = op_place(op)
                                if pl is not None:
                                    cur |= self._alias_of_place(pl)
                        elif rv["k"] == "agg":
                            for op in rv["ops"]:
                                pl = op_place(op)
                                if pl is not None:
                                    cur |= self.alias[pl["l"]]
                    elif d[0] == "call":
                        ty = fn.local_ty(l)
                        if "&" in ty or "*" in ty or "Ref" in ty or "Iter" in ty or "Option<" in ty:
                            for op in d[2]["args"]:
                                pl = op_place(op)
                                if pl is not None:
                                    cur |= self.alias[pl["l"]]
                if len(cur) != before:
                    changed = True
        # ---- writes through references / out-params are weak defs of the bases
        extra = []
        for l in range(n):
            for d in self.defs[l]:
                if d[0] == "assign" and "*" in d[3]["p"]:
                    for base in self.alias[l]:
                        extra.append((base, d))
        for b, blk in enumerate(fn.blocks):
            if blk["cleanup"]:
                continue
            t = blk["term"]
            if t["k"] == "call":
                for op in t["args"]:
                    pl = op_place(op)
                    if pl is None:
                        continue
                    a = pl["l"]
                    ty = fn.local_ty(a)
                    if ty.startswith("&mut") or ty.startswith("*mut") or ("&mut" in ty):
                        for base in self.alias[a]:
                            extra.append((base, ("calleff", b, t, None)))
                        # a &mut parameter itself: the callee may write through it
                        extra.append((a, ("calleff", b, t, None)))
        for base, d in extra:
            if d not in self.defs[base]:
                self.defs[base].append(d)
        # ---- fixpoint of label sets
        self.lab = [set() for _ in range(n)]
        changed = True
        while changed:
            changed = False
            for l in range(n):
                cur = self.lab[l]
                before = len(cur)
                for d in self.defs[l]:
                    if d[0] == "param":
                        cur.add(("param", d[1]))
                    elif d[0] == "assign":
                        cur |= self._rvalue_labels(d[4], d[1])
                    elif d[0] in ("call", "calleff"):
                        t = d[2]
                        cur.add(("call" if d[0] == "call" else "effect", callee(t), d[1]))
                        if callee(t) in self.opaque:
                            continue
                        for op in t["args"]:
                            cur |= self.of_operand(op)
                if len(cur) != before:
                    changed = True

    def _alias_of_place(self, pl):
        """alias bases of a read place; field-sensitive when the local is only ever built by aggregates"""
        fld = self._first_field(pl)
        if fld is not None:
            ds = self.defs[pl["l"]]
            outs = []
            for d in ds:
                fl = self._agg_fields(d)
                if not fl or fld not in fl:
                    outs = None
                    break
                op = d[4]["ops"][fl[fld]]
                p2 = op_place(op)
                outs.append(self.alias[p2["l"]] if p2 is not None else set())
            if outs is not None and ds:
                r = set()
                for o_ in outs:
                    r |= o_
                return r
        return self.alias[pl["l"]]

    # ---- flow-sensitive query
    def _can(self, bb):
        """blocks that reach bb through at least one edge"""
        from . import cfg as _cfg
        cache = self.__dict__.setdefault("_can_cache", {})
        if bb not in cache:
            preds = _cfg.preds(self.fn)
            seen = set()
            work = [bb]
            while work:
                x = work.pop()
                for p_ in preds[x]:
                    if p_ not in seen:
                        seen.add(p_)
                        work.append(p_)
            cache[bb] = seen
        return cache[bb]

    def _visible(self, d, b):
        """definition d is visible at the end of block b"""
        if d[0] == "param":
            return True
        if d[0] == "assign":
            return d[1] == b or d[1] in self._can(b)
        return d[1] in self._can(b)     # calls terminate their block: visible only after an edge

    @staticmethod
    def _first_field(p_):
        """name of the field selected directly on the local (no deref before it), else None"""
        if p_["p"] and isinstance(p_["p"][0], dict) and "f" in p_["p"][0]:
            return p_["p"][0]["f"]
        return None

    def _own_and_uses(self, d, only_operand=None):
        """(own labels, [(local, first_field|None)] used) of one definition; with only_operand=k the
        definition is restricted to the k-th operand of an aggregate (field-sensitive sub-node)"""
        own = set()
        uses = []

        def place(p_):
            uses.append((p_["l"], self._first_field(p_)))
            for e in p_["p"]:
                if isinstance(e, dict):
                    if "f" in e:
                        own.add(("field", e["f"]))
                    elif "v" in e:
                        own.add(("variant", e["v"]))
                    elif "i" in e:
                        uses.append((e["i"], None))
            if "*" in p_["p"]:
                uses.extend((x, None) for x in self.alias[p_["l"]])

        def operand(op):
            pl = op_place(op)
            if pl is not None:
                place(pl)
            else:
                own.update(self.of_operand(op))

        if d[0] == "param":
            own.add(("param", d[1]))
        elif d[0] == "assign":
            rv = d[4]
            k = rv["k"]
            if k == "cast":
                own.add(("cast", rv["cast"], rv["from"], rv["to"]))
            elif k == "bin":
                own.add(("bin", rv["op"]))
            elif k == "un":
                own.add(("un", rv["op"]))
            elif k == "agg":
                own.add(("agg", rv.get("adt"), rv.get("variant"), d[1]))
            elif k == "discr":
                own.add(("discr",))
            elif k == "other":
                own.add(("other",))
            ops_ = rv.get("ops", ())
            if only_operand is not None:
                ops_ = [ops_[only_operand]]
            for o_ in ops_:
                operand(o_)
            if "place" in rv:
                place(rv["place"])
        elif d[0] in ("call", "calleff"):
            t_ = d[2]
            own.add(("call" if d[0] == "call" else "effect", callee(t_), d[1]))
            if callee(t_) not in self.opaque:
                for a in t_["args"]:
                    operand(a)
        return own, uses

    @staticmethod
    def _agg_fields(d):
        """field names of an aggregate definition of a whole local: {name: operand index}"""
        if d[0] != "assign" or d[3]["p"] or d[4]["k"] != "agg":
            return None
        rv = d[4]
        names = rv.get("fields") or []
        if rv.get("adt") in ("(tuple)", "{closure}") or not names:
            names = [str(i) for i in range(len(rv["ops"]))]
        if len(names) != len(rv["ops"]):
            return None
        return {n: i for i, n in enumerate(names)}

    def _flow(self):
        """labels of every definition, operands evaluated at the definition's own block (worklist fixpoint
        over the definition graph; may-analysis without kills).  Aggregates get one sub-node per field so
        that `_x = (a, b); use(_x.0)` sees only `a`."""
        if "_dl" in self.__dict__:
            return
        defs = []          # (local, d, only_operand)
        by_local = [[] for _ in range(self.n)]
        sub = {}           # (def index, field name) -> node index
        for l in range(self.n):
            for d in self.defs[l]:
                by_local[l].append(len(defs))
                defs.append((l, d, None))
        n_whole = len(defs)
        for i in range(n_whole):
            l, d, _ = defs[i]
            fl = self._agg_fields(d)
            if fl:
                for name, k in fl.items():
                    sub[(i, name)] = len(defs)
                    defs.append((l, d, k))
        own = []
        preds = []
        for i, (l, d, k) in enumerate(defs):
            o_, uses = self._own_and_uses(d, k)
            own.append(o_)
            ps = []
            b = d[1] if d[0] != "param" else None
            for u, fld in set(uses):
                for j in by_local[u]:
                    d2 = defs[j][1]
                    if b is None or self._visible(d2, b):
                        if fld is not None and (j, fld) in sub:
                            ps.append(sub[(j, fld)])
                        else:
                            ps.append(j)
            preds.append(ps)
        lab = [set(x) for x in own]
        succs = [[] for _ in defs]
        for i, ps in enumerate(preds):
            for j in ps:
                succs[j].append(i)
        work = list(range(len(defs)))
        inq = [True] * len(defs)
        while work:
            j = work.pop()
            inq[j] = False
            lj = lab[j]
            for i in succs[j]:
                li = lab[i]
                before = len(li)
                li |= lj
                if len(li) != before and not inq[i]:
                    inq[i] = True
                    work.append(i)
        self._dl = lab
        self._defs_flat = defs
        self._by_local = by_local
        self._sub = sub

    def at(self, op_or_place, bb):
        """labels of an operand/place as seen at the end of block bb.  A definition is considered only if its
        block can reach bb (assignments of bb itself included, calls only through at least one edge), and the
        operands of that definition were in turn evaluated at the definition's own block.  This removes the
        flow-insensitive blur where a later write to a container pollutes an earlier read from it.
        Field-sensitive for aggregates built in the function.  Parameters are always visible.
        Still a may-analysis (no kills)."""
        self._flow()

        def local_labels(l, fld=None):
            out = set()
            for j in self._by_local[l]:
                if self._visible(self._defs_flat[j][1], bb):
                    if fld is not None and (j, fld) in self._sub:
                        out |= self._dl[self._sub[(j, fld)]]
                    else:
                        out |= self._dl[j]
            return out

        def place(p_):
            out = local_labels(p_["l"], self._first_field(p_))
            for e in p_["p"]:
                if isinstance(e, dict):
                    if "f" in e:
                        out.add(("field", e["f"]))
                    elif "v" in e:
                        out.add(("variant", e["v"]))
                    elif "i" in e:
                        out |= local_labels(e["i"])
            if "*" in p_["p"]:
                for base in self.alias[p_["l"]]:
                    out |= local_labels(base)
            return out

        if "l" in op_or_place and "p" in op_or_place:
            return place(op_or_place)
        pl = op_place(op_or_place)
        if pl is not None:
            return place(pl)
        return self.of_operand(op_or_place)

    def _place_labels(self, p):
        out = set(self.lab[p["l"]])
        for e in p["p"]:
            if isinstance(e, dict):
                if "f" in e:
                    out.add(("field", e["f"]))
                elif "v" in e:
                    out.add(("variant", e["v"]))
                elif "i" in e:
                    out |= self.lab[e["i"]]
        if "*" in p["p"]:
            for base in self.alias[p["l"]]:
                out |= self.lab[base]
        return out

    def of_operand(self, op):
        pl = op_place(op)
        if pl is not None:
            return self._place_labels(pl)
        if "promoted" in op:
            out = set()
            for c in op["promoted"]:
                if "agg" in c:
                    out.add(("const", "variant", "%s::%s" % (c["agg"], c["variant"])))
                else:
                    out |= self.of_operand(c)
            out.add(("const", "promoted", op.get("const", "")))
            return out
        if "int" in op:
            return {("const", "int", op["int"])}
        if "str" in op:
            return {("const", "str", op["str"])}
        if "fn" in op:
            return {("const", "fn", op["fn"])}
        if "float" in op:
            return {("const", "float", op["float"])}
        return {("const", "other", op.get("const", ""))}

    def of_place(self, p):
        return self._place_labels(p)

    def of_local(self, l):
        return set(self.lab[l])

    def _rvalue_labels(self, rv, bb):
        k = rv["k"]
        out = set()
        if k in ("use", "repeat"):
            for op in rv["ops"]:
                out |= self.of_operand(op)
        elif k in ("ref", "rawptr"):
            out |= self._place_labels(rv["place"])
        elif k == "cast":
            out.add(("cast", rv["cast"], rv["from"], rv["to"]))
            for op in rv["ops"]:
                out |= self.of_operand(op)
        elif k == "bin":
            out.add(("bin", rv["op"]))
            for op in rv["ops"]:
                out |= self.of_operand(op)
        elif k == "un":
            out.add(("un", rv["op"]))
            for op in rv["ops"]:
                out |= self.of_operand(op)
        elif k == "discr":
            out.add(("discr",))
            out |= self._place_labels(rv["place"])
        elif k == "agg":
            out.add(("agg", rv.get("adt"), rv.get("variant"), bb))
            for op in rv["ops"]:
                out |= self.of_operand(op)
        else:
            out.add(("other",))
        return out


def has(labels, kind, *rest):
    for l in labels:
        if l[0] == kind and tuple(l[1:1 + len(rest)]) == tuple(rest):
            return True
    return False


def calls_in(labels):
    """callees whose result OR side effect (through a &mut argument) the value may derive from"""
    return {l[1] for l in labels if l[0] in ("call", "effect")}


def results_in(labels):
    """callees whose RESULT the value may derive from (side effects through &mut arguments excluded)"""
    return {l[1] for l in labels if l[0] == "call"}


def fields_in(labels):
    return {l[1] for l in labels if l[0] == "field"}


def params_in(labels):
    return {l[1] for l in labels if l[0] == "param"}
