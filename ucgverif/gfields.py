"""Grammar side of R14: instantiate the extracted grammar down to slot-level leaves and compute, for every leaf,
which AST field its parsed value ends up in.

The flow is name-based over the unexpanded source: do_each! bindings -> result expression tokens -> struct literal
fields / positional constructor arguments / helper functions (parse/mod.rs) / constructors and setters (ast/mod.rs),
the latter followed through their own bodies (let chains, patterns, struct literals, field assignments).

gterm := ("lit", text) | ("leaf", id) | ("seq", [gterm]) | ("alt", [gterm]) | ("opt", gterm) | ("rep", gterm)
       | ("rep1", gterm) | ("sep", gterm, gterm) | ("eps",)
value := frozenset of (leaf id, path suffix)  |  ("tuple", [value...])
"""
import re

from .core import AnchorError
from .facts import syn_items

# nonterminals the printer renders through a recursive call: they stay leaves
SLOT_RULES = {
    "expression": "expr", "non_op_expression": "expr", "simple_expression": "expr", "grouped_expression": "expr",
    "constraint_expression": "expr", "op_expression": "expr",
    "statement": "stmt", "value": "value", "symbol": "value",
}
TOKEN_CLASSES = {"BAREWORD": "F", "DIGIT": "F", "BOOLEAN": "F", "STR": "Q"}
AST_ENUMS = ("Expression", "Statement", "Value", "ConstraintArm", "FormatArgs", "FuncOpDef")
MUTATORS = ("extend", "push", "insert", "push_back")


def flat(v, suffix=""):
    if isinstance(v, tuple) and v and v[0] == "tuple":
        out = set()
        for i, x in enumerate(v[1]):
            out |= flat(x, suffix + "." + str(i))
        return out
    return {(i, s + suffix) for (i, s) in (v or ())}


def union(vals):
    vals = [v for v in vals if v is not None]
    if vals and all(isinstance(v, tuple) and v and v[0] == "tuple" for v in vals) and len({len(v[1]) for v in vals}) == 1:
        n = len(vals[0][1])
        return ("tuple", [union([v[1][i] for v in vals]) for i in range(n)])
    out = set()
    for v in vals:
        out |= flat(v)
    return frozenset(out)


# ---------------------------------------------------------------- mini expression parser over raw macro tokens
def _split(toks):
    out, cur = [], []
    for t in toks:
        if t.get("p") == ",":
            out.append(cur)
            cur = []
        else:
            cur.append(t)
    if cur:
        out.append(cur)
    return out


def _idents(toks):
    out = []
    for t in toks:
        if "i" in t:
            out.append(t["i"])
        elif "g" in t:
            out.extend(_idents(t["t"]))
    return out


def _opaque(toks):
    kids = [{"k": "path", "v": i} for i in _idents(toks)]
    # struct literals inside still contribute their fields
    for k, t in enumerate(toks):
        if "g" in t and t["g"] == "{" and k > 0 and "i" in toks[k - 1] and toks[k - 1]["i"][:1].isupper():
            st = _struct(toks[k - 1]["i"], t["t"])
            if st is not None:
                kids.append(st)
        elif "g" in t:
            sub = _opaque(t["t"])
            kids.extend(x for x in sub["kids"] if x["k"] == "struct")
    return {"k": "opaque", "kids": kids}


def _struct(name, toks):
    fields = []
    for part in _split(toks):
        if not part:
            continue
        if len(part) == 1 and "i" in part[0]:
            fields.append({"name": part[0]["i"], "e": {"k": "path", "v": part[0]["i"]}})
        elif len(part) >= 3 and "i" in part[0] and part[1].get("p") == ":":
            fields.append({"name": part[0]["i"], "e": parse_toks(part[2:])})
        else:
            return None
    return {"k": "struct", "path": name, "fields": fields}


def parse_toks(toks):
    toks = list(toks)
    if not toks:
        return {"k": "opaque", "kids": []}
    # strip leading & * mut
    while toks and (toks[0].get("p") in ("&", "*") or toks[0].get("i") == "mut"):
        toks = toks[1:]
    if not toks:
        return {"k": "opaque", "kids": []}
    t0 = toks[0]
    node = None
    k = 0
    if "i" in t0 and t0["i"] not in ("match", "if", "let", "move", "return"):
        segs = [t0["i"]]
        k = 1
        while k + 1 < len(toks) and toks[k].get("p") == "::" and "i" in toks[k + 1]:
            segs.append(toks[k + 1]["i"])
            k += 2
        node = {"k": "path", "v": "::".join(segs)}
        if k < len(toks) and toks[k].get("p") == "!" and k + 1 < len(toks) and "g" in toks[k + 1]:
            node = {"k": "macro", "name": segs[-1], "args": [parse_toks(p) for p in _split(toks[k + 1]["t"])]}
            k += 2
        elif k < len(toks) and toks[k].get("g") == "{" and segs[-1][:1].isupper():
            st = _struct("::".join(segs), toks[k]["t"])
            if st is None:
                return _opaque(toks)
            node = st
            k += 1
        elif k < len(toks) and toks[k].get("g") == "(":
            node = {"k": "call", "f": node, "args": [parse_toks(p) for p in _split(toks[k]["t"])]}
            k += 1
    elif t0.get("g") == "(":
        parts = _split(t0["t"])
        has_comma = any(x.get("p") == "," for x in t0["t"])
        if has_comma:
            node = {"k": "tuple", "elems": [parse_toks(p) for p in parts]}
        else:
            node = parse_toks(t0["t"])
        k = 1
    elif "l" in t0 or "s" in t0:
        node = {"k": "lit", "v": t0.get("l", t0.get("s"))}
        k = 1
    else:
        return _opaque(toks)
    # postfix chain
    while k < len(toks):
        if toks[k].get("p") == "." and k + 1 < len(toks) and ("i" in toks[k + 1] or "l" in toks[k + 1]):
            name = toks[k + 1].get("i", toks[k + 1].get("l"))
            if k + 2 < len(toks) and toks[k + 2].get("g") == "(":
                node = {"k": "mcall", "recv": node, "m": name, "args": [parse_toks(p) for p in _split(toks[k + 2]["t"])]}
                k += 3
            else:
                node = {"k": "field", "e": node, "name": name}
                k += 2
        elif toks[k].get("p") == "?":
            k += 1
        else:
            return _opaque(toks)
    return node


# ---------------------------------------------------------------- patterns
def parse_pat(s):
    toks = re.findall(r"[A-Za-z_][A-Za-z_0-9]*|::|[(),&\[\]]|\.\.", s)
    pos = [0]

    def peek():
        return toks[pos[0]] if pos[0] < len(toks) else None

    def eat():
        pos[0] += 1
        return toks[pos[0] - 1]

    def one():
        t = peek()
        while t in ("ref", "mut", "&"):
            eat()
            t = peek()
        if t == "(":
            eat()
            elems = []
            while peek() not in (")", None):
                elems.append(one())
                if peek() == ",":
                    eat()
            eat()
            return ("tuple", elems) if len(elems) != 1 else elems[0]
        if t is None:
            return ("wild",)
        name = eat()
        segs = [name]
        while peek() == "::":
            eat()
            segs.append(eat())
        if peek() == "(":
            eat()
            elems = []
            while peek() not in (")", None):
                elems.append(one())
                if peek() == ",":
                    eat()
            eat()
            return ("ctor", "::".join(segs), elems)
        if len(segs) > 1 or name[:1].isupper():
            return ("ctor", "::".join(segs), [])
        if name == "_":
            return ("wild",)
        return ("id", name)

    return one()


def bind_pat(p, v, env):
    if p[0] == "id":
        env[p[1]] = v
    elif p[0] == "tuple":
        if isinstance(v, tuple) and v and v[0] == "tuple" and len(v[1]) == len(p[1]):
            for q, x in zip(p[1], v[1]):
                bind_pat(q, x, env)
        else:
            for q in p[1]:
                bind_pat(q, frozenset(flat(v)), env)
    elif p[0] == "ctor":
        if len(p[2]) == 1:
            bind_pat(p[2][0], v, env)
        elif p[1].endswith("Complete") and len(p[2]) == 2:
            bind_pat(p[2][1], v, env)
        else:
            for q in p[2]:
                bind_pat(q, frozenset(flat(v)), env)


# ---------------------------------------------------------------- name-based value flow over expression nodes
class Flow:
    def __init__(self, fns):
        self.fns = fns            # name -> syn fn item (parse helpers, ast constructors and setters)
        self.flows = []           # (field path, value)
        self.depth = 0

    def value_of(self, n, env):
        if n is None:
            return frozenset()
        k = n.get("k")
        if k == "path":
            v = n["v"].replace(" ", "")
            return env.get(v, frozenset())
        if k == "tuple":
            return ("tuple", [self.value_of(x, env) for x in n["elems"]])
        if k in ("ref", "unary", "try", "cast"):
            return self.value_of(n["e"], env)
        if k == "opaque":
            return union([self.value_of(x, env) for x in n["kids"] if x["k"] == "path"])
        if k == "mcall":
            # wrappers keep the shape of the receiver
            if n["m"] in ("unwrap_or_default", "unwrap_or_else", "unwrap", "clone", "into", "unwrap_or", "to_owned", "into_iter", "iter", "collect"):
                return self.value_of(n["recv"], env)
            return union([self.value_of(n["recv"], env)] + [self.value_of(a, env) for a in n["args"]])
        if k == "field":
            return self.value_of(n["e"], env)
        if k in ("call", "macro"):
            return union([self.value_of(a, env) for a in (n.get("args") or [])])
        if k == "struct":
            return union([self.value_of(f["e"], env) for f in n["fields"]])
        if k == "closure":
            return self.value_of(n["body"], env)
        if k == "block":
            env2 = dict(env)
            last = frozenset()
            for st in n["stmts"]:
                last = self.stmt(st, env2)
            return last
        if k == "if":
            return union([self.value_of(n["then"], env), self.value_of(n.get("else"), env)])
        if k == "match":
            return union([self.value_of(a["body"], env) for a in n["arms"]])
        out = []
        for x in n.values():
            if isinstance(x, dict):
                out.append(self.value_of(x, env))
            elif isinstance(x, list):
                out.extend(self.value_of(y, env) for y in x if isinstance(y, dict))
        return union(out)

    def stmt(self, st, env):
        if st["k"] == "local":
            init = st.get("init")
            if init is not None:
                self.visit(init, env)
                bind_pat(parse_pat(st["pat"]), self.value_of(init, env), env)
            return frozenset()
        if st["k"] == "expr":
            self.visit(st["e"], env)
            return self.value_of(st["e"], env)
        return frozenset()

    def add(self, path, v):
        self.flows.append((path, v))

    def call_fn(self, name, argvals):
        it = self.fns.get(name)
        if it is None or self.depth > 4:
            return False
        self.depth += 1
        env = {}
        params = [p for p in it["sig"]["params"] if p["name"] != "self" and not p["name"].endswith("self")]
        for p, v in zip(params, argvals):
            bind_pat(parse_pat(p["name"]), v, env)
        for st in it["body"]["stmts"]:
            self.stmt(st, env)
        self.depth -= 1
        return True

    def visit(self, n, env):
        if not isinstance(n, dict):
            return
        k = n.get("k")
        if k == "struct":
            for f in n["fields"]:
                self.add(f["name"].replace(" ", ""), self.value_of(f["e"], env))
                self.visit(f["e"], env)
            return
        if k == "opaque":
            for x in n["kids"]:
                if x["k"] == "struct":
                    self.visit(x, env)
            return
        if k == "assign":
            if n["l"].get("k") == "field":
                self.add(n["l"]["name"].replace(" ", ""), self.value_of(n["r"], env))
            self.visit(n["r"], env)
            return
        if k == "call":
            f = n["f"]
            fname = f["v"].replace(" ", "") if f.get("k") == "path" else ""
            argvals = [self.value_of(a, env) for a in n["args"]]
            short = fname.split("::")[-1]
            if fname in self.fns:
                self.call_fn(fname, argvals)
            elif "::".join(fname.split("::")[-2:]) in self.fns:
                self.call_fn("::".join(fname.split("::")[-2:]), argvals)
            elif short[:1].isupper() and len(n["args"]) > 1 and fname.split("::")[0] in AST_ENUMS:
                for i, v in enumerate(argvals):
                    self.add(str(i), v)
            for a in n["args"]:
                self.visit(a, env)
            return
        if k == "mcall":
            argvals = [self.value_of(a, env) for a in n["args"]]
            if n["m"] in self.fns and n["m"].startswith("set_"):
                self.call_fn(n["m"], argvals)
            if n["m"] in MUTATORS and n["recv"].get("k") == "path":
                nm = n["recv"]["v"].replace(" ", "")
                env[nm] = union([env.get(nm, frozenset())] + argvals)
            self.visit(n["recv"], env)
            for a in n["args"]:
                self.visit(a, env)
            return
        if k == "match":
            v = self.value_of(n["on"], env)
            self.visit(n["on"], env)
            for a in n["arms"]:
                env2 = dict(env)
                bind_pat(parse_pat(a["pat"]), v, env2)
                self.visit(a["body"], env2)
            return
        if k == "if":
            env2 = dict(env)
            c = n["cond"]
            if c.get("k") == "let":
                bind_pat(parse_pat(c["pat"]), self.value_of(c["e"], env), env2)
            else:
                self.visit(c, env)
            self.visit(n["then"], env2)
            if n.get("else"):
                self.visit(n["else"], env)
            return
        if k == "block":
            env2 = env  # let bindings of a block stay visible to later statements of the same block only
            env2 = dict(env)
            for st in n["stmts"]:
                self.stmt(st, env2)
            # mutations of outer locals (def.out_constraint = ..) are flows, not env updates
            return
        for x in n.values():
            if isinstance(x, dict):
                self.visit(x, env)
            elif isinstance(x, list):
                for y in x:
                    if isinstance(y, dict):
                        self.visit(y, env)


# ---------------------------------------------------------------- instantiation
class Instance:
    def __init__(self, F, rules):
        self.F = F
        self.rules = rules
        self.leaves = {}   # id -> {"cls":..., "what":..., "paths": set(), "rule":..., "binding":...}
        self.fns = {}
        for p, it in syn_items(F.syn["parse/mod.rs"]["items"]):
            if it["k"] == "fn":
                self.fns[p[-1]] = it
        for p, it in syn_items(F.syn["ast/mod.rs"]["items"]):
            if it["k"] == "fn" and len(p) >= 2 and (p[-1] == "new" or p[-1].startswith("set_")):
                ty = re.sub(r"<.*", "", p[-2])
                if p[-1] == "new":
                    self.fns[ty + "::new"] = it
                else:
                    self.fns.setdefault(p[-1], it)
        self.stack = []

    def leaf(self, cls, what, rule, binding):
        i = len(self.leaves)
        self.leaves[i] = {"cls": cls, "what": what, "paths": set(), "rule": rule, "binding": binding, "used": False}
        return i

    def inst(self, term, rule, binding="_"):
        k = term[0]
        if k == "tok":
            if term[1] == "type":
                if term[2] in TOKEN_CLASSES:
                    i = self.leaf(TOKEN_CLASSES[term[2]], term[2], rule, binding)
                    return ("leaf", i), frozenset({(i, "")})
                if term[2] == "EMPTY":
                    return ("lit", "NULL"), frozenset()
                raise AnchorError("token class %s in rule %s has no printer counterpart" % (term[2], rule))
            if binding != "_" and term[1] == "word":
                i = self.leaf("W", term[2], rule, binding)
                return ("leaf", i), frozenset({(i, "")})
            return ("lit", term[2]), frozenset()
        if k == "eps":
            return ("eps",), frozenset()
        if k == "peek":
            return ("eps",), frozenset()
        if k == "ref":
            name = term[1]
            if name in SLOT_RULES and rule != "__root__" + name:
                i = self.leaf("S:" + SLOT_RULES[name], name, rule, binding)
                return ("leaf", i), frozenset({(i, "")})
            if name in self.rules:
                if name in self.stack:
                    raise AnchorError("recursive inlining of rule %s" % name)
                self.stack.append(name)
                g, v = self.inst_rule(name)
                self.stack.pop()
                return g, v
            return ("eps",), frozenset()
        if k == "seq":
            env = {}
            gs = []
            for b, t in term[1]:
                g, v = self.inst(t, rule, b)
                gs.append(g)
                if b != "_":
                    env[b] = v
            if term[2] is None:
                return ("seq", gs), union(list(env.values()))
            node = parse_toks(term[2])
            fl = Flow(self.fns)
            fl.visit(node, env)
            val = fl.value_of(node, env)
            self.apply(fl.flows)
            for (i, s) in flat(val):
                self.leaves[i]["used"] = True
            return ("seq", gs), val
        if k == "alt":
            parts = [self.inst(t, rule, binding) for t in term[1]]
            # a bound alternative of plain words is one leaf carrying the word set (cast types)
            return ("alt", [g for g, _ in parts]), union([v for _, v in parts])
        if k in ("opt", "rep", "rep1"):
            g, v = self.inst(term[1], rule, binding)
            return (k, g), v
        if k == "sep":
            gs, _ = self.inst(term[1], rule, "_")
            gi, v = self.inst(term[2], rule, binding)
            return ("sep", gs, gi), v
        raise AnchorError("unknown grammar term %r" % (k,))

    def apply(self, flows):
        for path, v in flows:
            for (i, s) in flat(v):
                self.leaves[i]["paths"].add(path + s)
                self.leaves[i]["used"] = True

    def inst_rule(self, name):
        term, ln = self.rules[name]
        g, v = self.inst(term, name)
        it = self.fns.get(name)
        # hand-written wrapper: `let parsed = do_each!(..); match parsed { .. }`
        if it is not None:
            stmts = it["body"]["stmts"]
            if stmts and stmts[0]["k"] == "local" and stmts[0].get("init", {}).get("k") == "macro" and stmts[0]["init"]["name"] == "do_each":
                env = {}
                bind_pat(parse_pat(stmts[0]["pat"]), v, env)
                fl = Flow(self.fns)
                last = frozenset()
                for st in stmts[1:]:
                    last = fl.stmt(st, env)
                self.apply(fl.flows)
                v = frozenset(flat(v))
                for (i, s) in v:
                    self.leaves[i]["used"] = True
        return g, v

    def root(self, name):
        """instantiate rule `name` as a root (its own slot class does not stop the inlining)"""
        self.stack = [name]
        term, ln = self.rules[name]
        g, v = self.inst_rule(name)
        for (i, s) in flat(v):
            self.leaves[i]["used"] = True
        return g


def show(g, leaves):
    k = g[0]
    if k == "lit":
        return repr(g[1])[1:-1]
    if k == "leaf":
        lf = leaves[g[1]]
        return "%s%s%s" % (lf["cls"], "@" if lf["paths"] else "", "|".join(sorted(lf["paths"])))
    if k == "eps":
        return "ε"
    if k == "seq":
        return "(" + " ".join(show(x, leaves) for x in g[1] if x[0] != "eps") + ")"
    if k == "alt":
        return "(" + " | ".join(show(x, leaves) for x in g[1]) + ")"
    if k == "opt":
        return show(g[1], leaves) + "?"
    if k == "rep":
        return show(g[1], leaves) + "*"
    if k == "rep1":
        return show(g[1], leaves) + "+"
    if k == "sep":
        return "sep(%s, %s)" % (show(g[1], leaves), show(g[2], leaves))
    return "?"
