"""Fact extraction: runs the engines over /repo's current working tree.

Facts are a pure function of the tree (hash of every build-relevant file), so a
cache hit for an identical hash *is* a rebuild from the current tree.
"""
import fcntl
import hashlib
import json
import os
import shutil
import subprocess
import sys
import time

VERIF = os.path.dirname(os.path.dirname(os.path.abspath(__file__)))
REPO = os.environ.get("UCG_REPO", "/repo")
CACHE = os.environ.get("UCGVERIF_CACHE", os.path.join(VERIF, ".cache"))
MIRFACTS = os.path.join(VERIF, "engines", "mirfacts", "target", "debug", "mirfacts")
SYNFACTS = os.path.join(VERIF, "engines", "synfacts", "target", "debug", "synfacts")

HASHED = ["src", "bin", "std", "Cargo.toml", "Cargo.lock", "docsite/site/content/reference"]


class CannotAnalyse(Exception):
    pass


def tree_hash(repo=None):
    repo = repo or REPO
    h = hashlib.sha256()
    for top in HASHED:
        p = os.path.join(repo, top)
        if os.path.isfile(p):
            files = [p]
        else:
            files = []
            for root, dirs, fs in os.walk(p):
                dirs.sort()
                for f in sorted(fs):
                    files.append(os.path.join(root, f))
        for f in files:
            h.update(os.path.relpath(f, repo).encode())
            h.update(b"\0")
            with open(f, "rb") as fh:
                h.update(fh.read())
            h.update(b"\0")
    # engines are part of the function from tree to facts
    for eng in (MIRFACTS, SYNFACTS):
        if os.path.exists(eng):
            st = os.stat(eng)
            h.update(("%s:%d:%d" % (eng, st.st_size, int(st.st_mtime))).encode())
    return h.hexdigest()[:20]


def nightly_sysroot():
    return subprocess.check_output(["rustc", "+nightly", "--print", "sysroot"], text=True).strip()


def _run_mir(repo, out_dir, target_dir, features):
    dbg = os.path.join(target_dir, "debug")
    fp = os.path.join(dbg, ".fingerprint")
    if os.path.isdir(fp):
        for d in os.listdir(fp):
            if d.startswith("ucg-"):
                shutil.rmtree(os.path.join(fp, d), ignore_errors=True)
    env = dict(os.environ)
    env.update({
        "LD_LIBRARY_PATH": nightly_sysroot() + "/lib",
        "RUSTFLAGS": "-Zmir-opt-level=0 -Awarnings",
        "RUSTC_WORKSPACE_WRAPPER": MIRFACTS,
        "MIRFACTS_OUT": out_dir,
        "CARGO_TARGET_DIR": target_dir,
        "CARGO_NET_OFFLINE": "true",
    })
    cmd = ["cargo", "+nightly", "check", "--offline", "--lib", "--bins", "-j", "16"]
    if features:
        cmd += ["--features", features]
    r = subprocess.run(cmd, cwd=repo, env=env, stdout=subprocess.PIPE, stderr=subprocess.STDOUT, text=True)
    if r.returncode != 0:
        raise CannotAnalyse("cargo check failed on the current tree:\n" + r.stdout[-4000:])
    for c in ("ucglib", "ucg"):
        if not os.path.exists(os.path.join(out_dir, c + ".json")):
            raise CannotAnalyse("fact file %s.json was not produced (wrapper skipped?)\n%s" % (c, r.stdout[-2000:]))


def _run_syn(repo, out_dir):
    if not os.path.exists(SYNFACTS):
        raise CannotAnalyse("synfacts engine not built (run setup)")
    r = subprocess.run([SYNFACTS, os.path.join(repo, "src"), os.path.join(out_dir, "syn.json")],
                       stdout=subprocess.PIPE, stderr=subprocess.STDOUT, text=True)
    if r.returncode != 0 or not os.path.exists(os.path.join(out_dir, "syn.json")):
        raise CannotAnalyse("synfacts failed:\n" + r.stdout[-4000:])


def ensure_facts(config="default", repo=None, force=False, target_dir=None):
    """Returns (facts_dir, tree_hash). config: 'default' or 'tracing'."""
    repo = repo or REPO
    if not os.path.exists(MIRFACTS):
        raise CannotAnalyse("mirfacts engine not built (run MANIFEST.setup_cmd)")
    os.makedirs(os.path.join(CACHE, "facts"), exist_ok=True)
    target_dir = target_dir or os.path.join(CACHE, "target")
    os.makedirs(target_dir, exist_ok=True)
    lock = open(os.path.join(CACHE, "lock"), "w")
    fcntl.flock(lock, fcntl.LOCK_EX)
    try:
        th = tree_hash(repo)
        d = os.path.join(CACHE, "facts", "%s-%s" % (th, config))
        done = os.path.join(d, "DONE")
        if os.path.exists(done) and not force:
            try:
                os.utime(d, None)       # least-recently-USED eviction: a hit refreshes the entry
            except OSError:
                pass
            return d, th
        tmp = d + ".tmp.%d" % os.getpid()
        shutil.rmtree(tmp, ignore_errors=True)
        os.makedirs(tmp)
        t0 = time.time()
        _run_mir(repo, tmp, target_dir, "tracing" if config == "tracing" else None)
        _run_syn(repo, tmp)
        # the tree must not have changed while we extracted
        if tree_hash(repo) != th:
            shutil.rmtree(tmp, ignore_errors=True)
            raise CannotAnalyse("tree changed during extraction")
        with open(os.path.join(tmp, "DONE"), "w") as fh:
            json.dump({"tree_hash": th, "config": config, "extract_s": round(time.time() - t0, 2)}, fh)
        shutil.rmtree(d, ignore_errors=True)
        os.rename(tmp, d)
        _gc(os.path.join(CACHE, "facts"), keep=120)
        return d, th
    finally:
        fcntl.flock(lock, fcntl.LOCK_UN)
        lock.close()


def _gc(root, keep):
    ents = []
    for e in os.listdir(root):
        p = os.path.join(root, e)
        if ".tmp." in e:
            # stale temp dir from a killed run
            if time.time() - os.path.getmtime(p) > 3600:
                shutil.rmtree(p, ignore_errors=True)
            continue
        ents.append((os.path.getmtime(p), p))
    ents.sort(reverse=True)
    for _, p in ents[keep:]:
        shutil.rmtree(p, ignore_errors=True)


if __name__ == "__main__":
    try:
        d, th = ensure_facts(sys.argv[1] if len(sys.argv) > 1 else "default")
        print(d, th)
    except CannotAnalyse as e:
        print("cannot analyse:", e, file=sys.stderr)
        sys.exit(2)
