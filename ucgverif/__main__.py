import argparse
import json
import os
import sys
import time

from . import core, extract, props
from .facts import Facts


def main():
    ap = argparse.ArgumentParser(prog="check")
    ap.add_argument("prop")
    ap.add_argument("--tier", default=os.environ.get("VERIF_TIER", "quick"))
    ap.add_argument("--replay")
    ap.add_argument("--rule")
    ap.add_argument("--explain", action="store_true")
    ap.add_argument("--no-evidence", action="store_true")
    a = ap.parse_args()
    pid = a.prop
    tier = a.tier if a.tier in ("quick", "thorough") else "quick"
    seed = int(os.environ.get("VERIF_SEED", "0") or 0)
    if pid not in props.PROPS:
        print("unknown or unclaimed property %s" % pid, file=sys.stderr)
        return 2
    t0 = time.time()
    os.environ["VERIF_TIER"] = tier     # rules with a bounded exploration go deeper in the thorough tier
    try:
        configs = ["default"] + (["tracing"] if tier == "thorough" else [])
        per_config = {}
        for cfgname in configs:
            d, th = extract.ensure_facts(cfgname, force=(tier == "thorough"))
            F = Facts(d, th, cfgname)
            rule_fns = props.rules_for(pid)
            if a.rule:
                rule_fns = [f for f in rule_fns if f.__name__.upper() == a.rule.upper() or getattr(f, "rid", "") == a.rule]
            per_config[cfgname] = (F, core.run_rules(F, rule_fns))
    except extract.CannotAnalyse as e:
        print("CANNOT-ANALYSE: %s" % e, file=sys.stderr)
        return 2
    F, results = per_config["default"]
    errors = [e for r in results for e in r.errors]
    # thorough: verdicts must agree across configurations
    cfg_diff = []
    if "tracing" in per_config:
        _, res2 = per_config["tracing"]
        errors += ["[tracing] " + e for r in res2 for e in r.errors]
        v1 = sorted(i["key"] for r in results for i in r.violations)
        v2 = sorted(i["key"] for r in res2 for i in r.violations)
        if v1 != v2:
            cfg_diff = sorted(set(v1) ^ set(v2))
            # a violation only visible with the feature on is still a violation
            extra = [i for r in res2 for i in r.violations if i["key"] in set(v2) - set(v1)]
            if extra:
                rr = core.RuleResult("CFG", "feature configuration", "")
                rr.instances.extend(extra)
                rr.wall = 0
                results = results + [rr]
    known, fixed = core.load_known()
    viol = [i for r in results for i in r.violations]
    unlisted = []
    known_hit = []
    for v in viol:
        k = (pid, v["key"])
        if k in known:
            known_hit.append((v, known[k]))
        else:
            unlisted.append(v)
    selftest = None
    st_fail = []
    if tier == "thorough" and not a.replay:
        from . import selftest as st
        selftest = st.run(pid)
        st_fail = [m for m in selftest if m["status"] in ("missed", "false-alarm")]
    if a.explain or a.replay:
        want = None
        if a.replay:
            with open(a.replay) as fh:
                want = json.load(fh)["key"]
        for r in results:
            for i in r.instances:
                if want is None or i["key"] == want:
                    print("%s %s @ %s: %s" % ("ok " if i["ok"] else "BAD", i["key"], i["where"], i["verdict"]))
                    if i.get("detail") is not None and (want or not i["ok"]):
                        print("     " + json.dumps(i["detail"])[:2000])
    for v, text in known_hit:
        print("KNOWN-FINDING: property=%s %s %s (%s: %s)" % (pid, v["key"], text, v["where"], v["verdict"]))
    os.makedirs(os.path.join(core.VERIF, "replays"), exist_ok=True)
    for v in unlisted:
        safe = "".join(c if c.isalnum() or c in "-_." else "_" for c in v["key"])[:150]
        path = os.path.join(core.VERIF, "replays", "%s-%s.json" % (pid, safe))
        with open(path, "w") as fh:
            json.dump({"property": pid, "key": v["key"], "where": v["where"], "verdict": v["verdict"],
                       "detail": v.get("detail"), "tree_hash": F.tree_hash}, fh, indent=1)
        print("VIOLATION property=%s replay=%s" % (pid, path))
        print("  %s at %s: %s" % (v["key"], v["where"], v["verdict"]))
    for e in errors:
        print("CHECK-ERROR: %s" % e, file=sys.stderr)
    for m in st_fail:
        print("SELFTEST-MISSED: %s" % m, file=sys.stderr)
    wall = round(time.time() - t0, 2)
    if not a.no_evidence and not a.replay and not a.rule:
        write_evidence(pid, tier, seed, F, results, errors, known_hit, unlisted, configs, cfg_diff, selftest, wall)
    n_inst = sum(len(r.instances) for r in results)
    try:
        print("%s: %d rules, %d instances, %d violations (%d known), %d check errors, %.1fs [%s]" % (
            pid, len(results), n_inst, len(viol), len(known_hit), len(errors), wall, tier))
        sys.stdout.flush()
    except BrokenPipeError:
        pass
    if unlisted:
        return 1
    if errors:
        return 2
    if st_fail:
        return 3
    return 0


def write_evidence(pid, tier, seed, F, results, errors, known_hit, unlisted, configs, cfg_diff, selftest, wall):
    meta = props.PROPS[pid]
    insts = [i for r in results for i in r.instances]
    distinct_nontrivial = len({i["key"] for i in insts if i.get("nontrivial", True)})
    fn_count = len(F.fns)
    ev = {
        "property_id": pid,
        "tier": tier,
        "seed": seed,
        "level": "other",
        "coverage": {
            "explanation": meta["explanation"],
            "evaluations": len(insts),
            "distinct_nontrivial": distinct_nontrivial,
            "rule": "instances are the rule's anchored constructs (call sites, switch edges, enum variants, fields, table rows) "
                    "enumerated from the MIR / syntax tree of the current /repo tree; an instance is non-trivial when deciding it "
                    "needed at least one function body, grammar rule or table row of the current tree; keys are rule id + def path "
                    "+ variant/field/callee + ordinal (no line numbers)",
            "samples": core.sample_instances(results),
            "exhaustive": all(r.exhaustive for r in results) if results else False,
            "rules": [{"id": r.rid, "title": r.title, "decides": r.decides, "instances": len(r.instances),
                       "violations": len(r.violations), "floor": r.floor, "exhaustive": r.exhaustive,
                       "notes": r.notes[:6], "wall_s": getattr(r, "wall", 0)} for r in results],
            "facts_hash": F.tree_hash,
            "configs": configs,
            "config_differences": cfg_diff,
            "functions_in_facts": fn_count,
            "known_findings": [{"key": v["key"], "where": v["where"], "what": text} for v, text in known_hit],
            "unlisted_violations": [{"key": v["key"], "where": v["where"], "verdict": v["verdict"]} for v in unlisted],
            "check_errors": errors,
            "trusted_base": ["rustc (nightly) MIR construction, type checking and trait resolution",
                             "syn 2 parser for the unexpanded syntax tree",
                             "the rule library under /verif/ucgverif"],
        },
        "assumptions": meta.get("assumptions", []),
        "wall_s": wall,
        "violations": len(unlisted),
    }
    if selftest is not None:
        ev["coverage"]["selftest"] = selftest
    os.makedirs(os.path.join(core.VERIF, "evidence"), exist_ok=True)
    tmp = os.path.join(core.VERIF, "evidence", "%s.json.tmp%d" % (pid, os.getpid()))
    with open(tmp, "w") as fh:
        json.dump(ev, fh, indent=1)
    os.replace(tmp, os.path.join(core.VERIF, "evidence", "%s.json" % pid))


if __name__ == "__main__":
    sys.exit(main())
