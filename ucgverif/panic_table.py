"""R13 reviewed table.  (function, kind, detail) -> (number of reviewed sites, invariant class, one-line reason).
The n reviewed sites are the first n sites of that (function, kind, detail), in block order, that no guard idiom discharged;
one more undischarged site of the same kind in the same function is unlisted and therefore reported.  Classes:
  translator-stack      the VM pops what the translator pushed (premises: R80 arity check; R4/R1 emission shapes; assumption until
                        a stack typing of the emitted code is built)
  parallel-vectors      value vector and position vector of a Composite have the same length (R82)
  equal-length          guarded by an explicit comparison of the two lengths on the path
  just-inserted         the key looked up was inserted by the same function / loop
  grammar-invariant     the token stream ends with END, which no grammar rule consumes (R83b); closed word sets (R83); R9
  dependency-total      a dependency's documented total function
  utf8-by-construction  bytes written by this crate's printer are UTF-8
  process-environment   cwd / directory entries / stdio: faults of the process environment, not of the input text
  build-time-constant   depends only on files embedded at build time (the standard library)
  input-bounded         bounded by the size of the input (the quantifier stops at 4 KiB / 10^6 elements)
  balanced              increments and decrements are paired on every path of the same function
  guarded-by-shape      reached only under a condition established on the path (explained in the reason)
  opsmap-monotone       OpsMap only grows (R36)
"""
L = "ucglib::"
RTB = L + "build::opcode::runtime::Builtins::"
VMP = L + "build::opcode::vm::VM::"
TRX = L + "build::opcode::translate::AST::"
IDX = "<alloc::vec::Vec<T, A> as core::ops::index::Index<I>>::index"
IDXM = "<alloc::vec::Vec<T, A> as core::ops::index::IndexMut<I>>::index_mut"
# (the hooks' `panic!("BUG: ... - translator emitted wrong opcode sequence")` sites are discharged by message, wherever they are written:
#  rules/c04.py discharge_local; the printer's `curr_indent -= indent_size` sites by the path-sensitive balance idiom)
STACK = ("translator-stack", "\"BUG: stack underflow\": the translator pushes every operand this hook pops")

TABLE = {
    # ---- type checker
    ("<ucglib::ast::FuncDef as ucglib::ast::typecheck::DeriveShape>::derive_shape::{closure#2}", "unwrap", "Option::unwrap"):
        (1, "just-inserted", "sym_table was filled from the same argdefs a few lines above"),
    ("<ucglib::ast::typecheck::Checker as ucglib::ast::walk::Visitor>::leave_expression", "assert", "Overflow(Sub usize)"):
        (1, "balanced", "nested_depth -= 1 for a Module node whose visit_expression did += 1 (Walker calls visit then leave on the same node)"),
    (L + "ast::Shape::equivalent", "precond", IDX):
        (2, "equal-length", "both vectors are indexed below left_args.len() after `left.args.len() != right.args.len()` returned"),
    (L + "ast::typecheck::Checker::result", "unwrap", "Option::unwrap"):
        (1, "guarded-by-shape", "first element of err_stack on the !is_empty() edge"),
    (L + "build::ir::Val::equal", "precond", IDX):
        (2, "equal-length", "rdef[i] with i from enumerate() over ldef after `ldef.len() != rdef.len()` returned"),
    # ---- binary
    ("ucg::build_command", "unwrap", "Result::unwrap"): (1, "process-environment", "std::env::current_dir()"),
    ("ucg::build_command", "unwrap", "Option::unwrap"): (1, "guarded-by-shape", "files.unwrap() after the files.is_none() branch exited the process"),
    ("ucg::test_command", "unwrap", "Result::unwrap"): (1, "process-environment", "std::env::current_dir()"),
    ("ucg::fmt_dir", "unwrap", "Result::unwrap"): (1, "process-environment", "a directory entry that cannot be read"),
    # ---- printer
    (L + "ast::printer::AstPrinter::render_missed_comments", "assert", "Overflow(Sub usize)"):
        (1, "guarded-by-shape", "`line - 1` is evaluated only when next_comment_line <= line and comment lines start at 1"),
    # ---- build
    (L + "build::AssertCollector::record_assert_result", "assert", "Overflow(Add i32)"): (1, "input-bounded", "one increment per evaluated assert statement"),
    (L + "build::FileBuilder::build", "unwrap", "Option::unwrap"):
        (1, "guarded-by-shape", "file.parent(): build_file joins relative names onto the cwd and directories never reach build()"),
    (L + "build::FileBuilder::eval_expr", "panic", "unreachable!"): (1, "guarded-by-shape", "eval_ops just stored Some(..) in self.out / self.last (API used by tests only)"),
    (L + "build::FileBuilder::eval_input", "panic", "unreachable!"): (1, "guarded-by-shape", "eval_stmts returned Ok, so eval_ops stored Some(..) in self.out"),
    (L + "build::format::ExpressionTemplate::consume_expr", "assert", "Overflow(Add i32)"): (1, "input-bounded", "one increment per `{` of the template"),
    (L + "build::format::ExpressionTemplate::consume_expr", "assert", "Overflow(Sub i32)"): (1, "input-bounded", "one decrement per `}` of the template (i32, may go negative, never near MIN)"),
    (L + "build::opcode::environment::Environment::populate_stdlib", "unwrap", "Result::unwrap"): (1, "build-time-constant", "the embedded std/*.ucg files parse"),
    # ---- hooks: stack underflow
    # ---- hooks: parallel vectors
    (RTB + "filter", "precond", IDX): (3, "parallel-vectors", "position list indexed by the enumerate() counter of the value list of the same Composite"),
    (RTB + "map", "precond", IDX): (6, "parallel-vectors", "position list indexed by the enumerate() counter of the value list; fval[0] / fval[1] after `fval.len() != 2` returned"),
    (RTB + "reduce", "precond", IDX): (3, "parallel-vectors", "position list indexed by the enumerate() counter of the value list of the same Composite"),
    # ---- translator
    (TRX + "translate_expr", "panic", "unreachable!"):
        (2, "grammar-invariant", "selector of a copy / call after `.` is built by the parser from a symbol, string or integer token only"),
    (TRX + "translate_expr", "assert", "Overflow(Sub usize)"):
        (1, "opsmap-monotone", "`end - i`: the elements of `jumps` are earlier `len - 1` snapshots of the same growing OpsMap"),
    (TRX + "translate_expr", "unwrap", "Result::unwrap"): (1, "utf8-by-construction", "String::from_utf8 of what AstPrinter just wrote"),
    (TRX + "translate_template_part", "panic", "unreachable!"):
        (2, "guarded-by-shape", "SimpleTemplate only yields PlaceHolder parts and ExpressionTemplate only Expression parts; each caller passes the matching flag"),
    (L + "build::opcode::translate::OpsMap::replace", "precond", IDXM): (1, "opsmap-monotone", "every patched index is an earlier `len - 1` snapshot (R3)"),
    # ---- VM
    (VMP + "add", "precond", IDX): (2, "parallel-vectors", "position list indexed by a counter that follows the iteration of the value list"),
    (VMP + "fcall_impl", "unwrap", "Option::unwrap"): (1, "translator-stack", "one pop per parameter: every caller checks the arity first (R80)"),
    (VMP + "merge_field_into_tuple", "precond", IDXM): (1, "parallel-vectors", "pos_fields[counter] with counter from enumerate() over src_fields"),
    (VMP + "op_bang", "panic", "unreachable!"): (1, "translator-stack", "Bang is only emitted after a Val(Str) or a string concatenation (`\"UserDefined: \" + msg`; a non-string message fails in Add first)"),
    (VMP + "op_bind", "panic", "unreachable!"): (1, "translator-stack", "Bind / BindOver are only emitted after a Sym push (R30 sites)"),
    (VMP + "op_build_constraint", "unwrap", "Option::unwrap"): (3, "guarded-by-shape", "as many values were popped per arm type as are consumed per arm type (R18 pop/next counts)"),
    (VMP + "op_copy", "panic", "unreachable!"): (1, "translator-stack", "Cp is only emitted by translate_copy after InitTuple + Field ops"),
    (VMP + "op_copy", "precond", IDX): (4, "parallel-vectors", "override_pos_list[counter] with counter from enumerate() over the override fields"),
    (VMP + "op_element", "panic", "unreachable!"): (1, "translator-stack", "Element is only emitted after InitList"),
    (VMP + "op_field", "panic", "unreachable!"): (2, "translator-stack", "Field is only emitted after InitTuple + Sym + value"),
    (VMP + "op_jump::{closure#0}", "assert", "Overflow(Add i32)"): (1, "input-bounded", "pointer + offset are indices into the ops of one file"),
    (VMP + "op_module", "unwrap", "Option::unwrap"): (1, "guarded-by-shape", "ops.pos() while an op is being executed: the pointer is Some and in range"),
    (VMP + "pop", "panic", "unreachable!"): (1, "translator-stack", "every opcode pops what the translator pushed before it"),
    (VMP + "run", "unwrap", "Option::unwrap"): (1, "guarded-by-shape", "ops.pos() right after ops.next() returned Some: ops and pos have equal length (R36)"),
    (VMP + "symbols_to_tuple", "unwrap", "Option::unwrap"): (1, "just-inserted", "symbols.get(sym) for sym from symbols.symbol_list() of the same table"),
    # ---- converters
    (L + "convert::exec::ExecConverter::write", "unwrap", "Option::unwrap"): (1, "guarded-by-shape", "command.unwrap() after `command.is_none()` returned an error"),
    (L + "convert::json::JsonConverter::convert_json_val", "unwrap", "Option::expect"): (1, "dependency-total", "serde_json::Number is i64, u64 or f64: as_f64 is Some for the latter two"),
    (L + "convert::yaml::YamlConverter::convert_yaml_val", "unwrap", "Option::expect"): (1, "dependency-total", "serde_yaml::Number::as_f64 is Some when as_i64 is None"),
    # ---- parser
    (L + "parse::cast_expression", "panic", "unreachable!"): (1, "grammar-invariant", "closed word set (R83)"),
    (L + "parse::precedence::op_expression", "panic", "panic!"): (1, "grammar-invariant", "parse_op consumes every operator parse_operand_list collected (R9)"),
    (L + "parse::triple_to_number", "unwrap", "Option::unwrap"): (1, "guarded-by-shape", "v.1.unwrap() under `has_dot` (= v.1.is_some())"),
    (L + "tokenizer::pos", "unwrap", "Option::unwrap"): (1, "grammar-invariant", "the token stream ends with END, which no grammar rule consumes (R83b)"),
}

LSP = L + "lsp::"
SLICE_IDX = "core::slice::index::<impl core::ops::index::Index<I> for [T]>::index"
TABLE.update({
    (LSP + "ServerState::update_document", "unwrap", "Option::unwrap"): (1, "just-inserted", "documents.get(&uri) right after documents.insert(uri, ..)"),
    (LSP + "run_server", "unwrap", "Result::unwrap"): (3, "dependency-total", "serde_json::json! serialising a Value and a &str"),
    (LSP + "analysis::analyze", "precond", IDX): (2, "guarded-by-shape", "binding_ranges has one entry per Let / Constraint statement of the same ast and binding_idx counts them"),
    (LSP + "analysis::collect_inner_import_paths", "assert", "BoundsCheck()"): (2, "guarded-by-shape", "binding_ranges has one entry per Let / Constraint statement of the same ast and binding_idx counts them"),
    (LSP + "analysis::ucg_pos_to_range", "assert", "Overflow(Add u32)"): (1, "input-bounded", "column of a token of the document, minus one, plus one"),
    (LSP + "collect_dot_path", "precond", IDX): (5, "guarded-by-shape", "idx comes from position() over the same tokens; i - 1 and i - 2 under `while i >= 2`; i never grows"),
    (LSP + "find_definition", "precond", IDX): (2, "guarded-by-shape", "path[0] and path[1..]: collect_dot_path only returns paths of length >= 2"),
    (LSP + "find_definition", "assert", "BoundsCheck()"): (2, "guarded-by-shape", "fields[0]: fields = path[1..] of a path of length >= 2"),
    (LSP + "find_definition", "precond", SLICE_IDX): (2, "guarded-by-shape", "fields[1..] after `fields.len() == 1` returned"),
    (LSP + "find_hover_dot_expr", "precond", IDX): (3, "guarded-by-shape", "path[0], path[1..], path[len - 1] of a path of length >= 2"),
    (LSP + "find_hover_dot_expr", "assert", "Overflow(Sub usize)"): (1, "guarded-by-shape", "path.len() - 1 of a path of length >= 2"),
    (LSP + "token_ref_at::{closure#0}", "precond", IDX): (1, "guarded-by-shape", "idx comes from position() over the same tokens"),
    (LSP + "walk_fields_to_definition", "assert", "Overflow(Sub usize)"): (2, "guarded-by-shape", "fields is non-empty at both call sites (fields[1..] of at least two fields)"),
    (LSP + "walk_fields_to_definition", "precond", SLICE_IDX): (1, "guarded-by-shape", "fields[..len - 1] of a non-empty slice"),
    (LSP + "walk_fields_to_definition", "assert", "BoundsCheck()"): (1, "guarded-by-shape", "fields[len - 1] of a non-empty slice"),
    (LSP + "workspace::scan_imports", "precond", IDX): (5, "guarded-by-shape", "tokens[i] under `i < tokens.len()`, tokens[j] under `j < tokens.len()`"),
})

REVIEWED = {}
for (fn, kind, detail), (n, cls, why) in TABLE.items():
    for k in range(n):
        REVIEWED[(fn, kind, detail, k)] = (cls, why)
ENTRY_EXTRA = []
