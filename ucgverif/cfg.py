"""A1: CFG utilities over E1 function bodies (cleanup/unwind edges ignored)."""


def term_succs(t):
    k = t["k"]
    if k == "goto":
        return [t["t"]]
    if k == "switch":
        out = [x["t"] for x in t["targets"]]
        out.append(t["otherwise"])
        return out
    if k in ("call", "drop", "assert"):
        return [t["t"]] if t.get("t") is not None else []
    return []


def succs(fn):
    if fn._succ is None:
        s = []
        for blk in fn.blocks:
            if blk["cleanup"]:
                s.append([])
            else:
                out = []
                for x in term_succs(blk["term"]):
                    if x not in out:
                        out.append(x)
                s.append(out)
        fn._succ = s
    return fn._succ


def preds(fn):
    if fn._pred is None:
        p = [[] for _ in fn.blocks]
        for a, ss in enumerate(succs(fn)):
            for b in ss:
                p[b].append(a)
        fn._pred = p
    return fn._pred


def rpo(fn, entry=0, succ=None):
    succ = succ or succs(fn)
    seen = set()
    order = []
    stack = [(entry, iter(succ[entry]))]
    seen.add(entry)
    while stack:
        n, it = stack[-1]
        adv = False
        for m in it:
            if m not in seen:
                seen.add(m)
                stack.append((m, iter(succ[m])))
                adv = True
                break
        if not adv:
            order.append(n)
            stack.pop()
    order.reverse()
    return order


def _idoms(n_nodes, entry, succ):
    pred = [[] for _ in range(n_nodes)]
    for a in range(n_nodes):
        for b in succ[a]:
            pred[b].append(a)
    # rpo
    seen = {entry}
    order = []
    stack = [(entry, iter(succ[entry]))]
    while stack:
        n, it = stack[-1]
        adv = False
        for m in it:
            if m not in seen:
                seen.add(m)
                stack.append((m, iter(succ[m])))
                adv = True
                break
        if not adv:
            order.append(n)
            stack.pop()
    order.reverse()
    num = {n: i for i, n in enumerate(order)}
    idom = {entry: entry}
    changed = True
    while changed:
        changed = False
        for n in order[1:]:
            new = None
            for p in pred[n]:
                if p in idom:
                    if new is None:
                        new = p
                    else:
                        a, b = p, new
                        while a != b:
                            while num[a] > num[b]:
                                a = idom[a]
                            while num[b] > num[a]:
                                b = idom[b]
                        new = a
            if new is not None and idom.get(n) != new:
                idom[n] = new
                changed = True
    return idom


def idoms(fn):
    if fn._idom is None:
        fn._idom = _idoms(len(fn.blocks), 0, succs(fn))
    return fn._idom


def dominates(fn, a, b):
    """block a dominates block b (reflexive)"""
    idom = idoms(fn)
    if b not in idom or a not in idom:
        return False
    while True:
        if a == b:
            return True
        nb = idom[b]
        if nb == b:
            return False
        b = nb


def exits(fn):
    return [i for i, blk in enumerate(fn.blocks) if not blk["cleanup"] and blk["term"]["k"] == "return"]


def post_idoms(fn):
    n = len(fn.blocks)
    s = succs(fn)
    rev = [[] for _ in range(n + 1)]
    for a in range(n):
        for b in s[a]:
            rev[b].append(a)
    for e in exits(fn):
        rev[n].append(e)
    return _idoms(n + 1, n, rev)


def reachable(fn, start, removed=(), stop=(), edge_ok=None):
    """blocks reachable from `start` (a block or iterable) never entering `removed`;
    blocks in `stop` are included but not expanded; edge_ok(a, b) filters edges."""
    s = succs(fn)
    removed = set(removed)
    stop = set(stop)
    if isinstance(start, int):
        start = [start]
    seen = set()
    work = [b for b in start if b not in removed]
    seen.update(work)
    while work:
        a = work.pop()
        if a in stop:
            continue
        for b in s[a]:
            if b in removed or b in seen:
                continue
            if edge_ok is not None and not edge_ok(a, b):
                continue
            seen.add(b)
            work.append(b)
    return seen


def reaches(fn, a, b, removed=()):
    """some path a ->+ b (at least one edge) avoiding removed blocks"""
    s = succs(fn)
    starts = [x for x in s[a] if x not in removed]
    return b in reachable(fn, starts, removed=removed)


def back_edges(fn):
    out = []
    for a, ss in enumerate(succs(fn)):
        for b in ss:
            if dominates(fn, b, a):
                out.append((a, b))
    return out


def natural_loops(fn):
    """header -> set of blocks"""
    p = preds(fn)
    loops = {}
    for a, h in back_edges(fn):
        body = loops.setdefault(h, {h})
        work = [a]
        while work:
            x = work.pop()
            if x in body:
                continue
            body.add(x)
            work.extend(p[x])
    return loops


def switch_edge(t, variant=None, val=None):
    """target block for a given variant name / raw value of a switch terminator; None => otherwise"""
    for x in t["targets"]:
        if variant is not None and x.get("variant") == variant:
            return x["t"]
        if val is not None and x["val"] == str(val):
            return x["t"]
    return t["otherwise"]


def switch_variants_of_target(t, target):
    """variant names routed to `target` (listed ones; 'otherwise' gets the unlisted variants)"""
    listed = [x.get("variant") for x in t["targets"] if x["t"] == target]
    if target == t["otherwise"] and "all_variants" in t:
        named = {x.get("variant") for x in t["targets"]}
        listed += [v for v in t["all_variants"] if v not in named]
    return listed
