"""A1: CFG utilities over E1 function bodies (cleanup/unwind edges ignored)."""


def term_succs(t):
    k = t["k"]
    if k == "goto":
        return [t["t"]]
    if k == "switch":
        out = [x["t"] for x in t["targets"]]
        out.append(t["otherwise"])
        return out
    if k in ("call", "drop", "assert"):
        return [t["t"]] if t.get("t") is not None else []
    return []


def succs(fn):
    if fn._succ is None:
        s = []
        for blk in fn.blocks:
            if blk["cleanup"]:
                s.append([])
            else:
                out = []
                for x in term_succs(blk["term"]):
                    if x not in out:
                        out.append(x)
                s.append(out)
        fn._succ = s
    return fn._succ


def preds(fn):
    if fn._pred is None:
        p = [[] for _ in fn.blocks]
        for a, ss in enumerate(succs(fn)):
            for b in ss:
                p[b].append(a)
        fn._pred = p
    return fn._pred


def rpo(fn, entry=0, succ=None):
    succ = succ or succs(fn)
    seen = set()
    order = []
    stack = [(entry, iter(succ[entry]))]
    seen.add(entry)
    while stack:
        n, it = stack[-1]
        adv = False
        for m in it:
            if m not in seen:
                seen.add(m)
                stack.append((m, iter(succ[m])))
                adv = True
                break
        if not adv:
            order.append(n)
            stack.pop()
    order.reverse()
    return order


def _idoms(n_nodes, entry, succ):
    pred = [[] for _ in range(n_nodes)]
    for a in range(n_nodes):
        for b in succ[a]:
            pred[b].append(a)
    # rpo
    seen = {entry}
    order = []
    stack = [(entry, iter(succ[entry]))]
    while stack:
        n, it = stack[-1]
        adv = False
        for m in it:
            if m not in seen:
                seen.add(m)
                stack.append((m, iter(succ[m])))
                adv = True
                break
        if not adv:
            order.append(n)
            stack.pop()
    order.reverse()
    num = {n: i for i, n in enumerate(order)}
    idom = {entry: entry}
    changed = True
    while changed:
        changed = False
        for n in order[1:]:
            new = None
            for p in pred[n]:
                if p in idom:
                    if new is None:
                        new = p
                    else:
                        a, b = p, new
                        while a != b:
                            while num[a] > num[b]:
                                a = idom[a]
                            while num[b] > num[a]:
                                b = idom[b]
                        new = a
            if new is not None and idom.get(n) != new:
                idom[n] = new
                changed = True
    return idom


def idoms(fn):
    if fn._idom is None:
        fn._idom = _idoms(len(fn.blocks), 0, succs(fn))
    return fn._idom


def dominates(fn, a, b):
    """block a dominates block b (reflexive)"""
    idom = idoms(fn)
    if b not in idom or a not in idom:
        return False
    while True:
        if a == b:
            return True
        nb = idom[b]
        if nb == b:
            return False
        b = nb


def exits(fn):
    return [i for i, blk in enumerate(fn.blocks) if not blk["cleanup"] and blk["term"]["k"] == "return"]


def post_idoms(fn):
    n = len(fn.blocks)
    s = succs(fn)
    rev = [[] for _ in range(n + 1)]
    for a in range(n):
        for b in s[a]:
            rev[b].append(a)
    for e in exits(fn):
        rev[n].append(e)
    return _idoms(n + 1, n, rev)


def reachable(fn, start, removed=(), stop=(), edge_ok=None):
    """blocks reachable from `start` (a block or iterable) never entering `removed`;
    blocks in `stop` are included but not expanded; edge_ok(a, b) filters edges."""
    s = succs(fn)
    removed = set(removed)
    stop = set(stop)
    if isinstance(start, int):
        start = [start]
    seen = set()
    work = [b for b in start if b not in removed]
    seen.update(work)
    while work:
        a = work.pop()
        if a in stop:
            continue
        for b in s[a]:
            if b in removed or b in seen:
                continue
            if edge_ok is not None and not edge_ok(a, b):
                continue
            seen.add(b)
            work.append(b)
    return seen


def reaches(fn, a, b, removed=()):
    """some path a ->+ b (at least one edge) avoiding removed blocks"""
    s = succs(fn)
    starts = [x for x in s[a] if x not in removed]
    return b in reachable(fn, starts, removed=removed)


def back_edges(fn):
    out = []
    for a, ss in enumerate(succs(fn)):
        for b in ss:
            if dominates(fn, b, a):
                out.append((a, b))
    return out


def natural_loops(fn):
    """header -> set of blocks"""
    p = preds(fn)
    loops = {}
    for a, h in back_edges(fn):
        body = loops.setdefault(h, {h})
        work = [a]
        while work:
            x = work.pop()
            if x in body:
                continue
            body.add(x)
            work.extend(p[x])
    return loops


def switch_edge(t, variant=None, val=None):
    """target block for a given variant name / raw value of a switch terminator; None => otherwise"""
    for x in t["targets"]:
        if variant is not None and x.get("variant") == variant:
            return x["t"]
        if val is not None and x["val"] == str(val):
            return x["t"]
    return t["otherwise"]


def switch_variants_of_target(t, target):
    """variant names routed to `target` (listed ones; 'otherwise' gets the unlisted variants)"""
    listed = [x.get("variant") for x in t["targets"] if x["t"] == target]
    if target == t["otherwise"] and "all_variants" in t:
        named = {x.get("variant") for x in t["targets"]}
        listed += [v for v in t["all_variants"] if v not in named]
    return listed


# ---- path-sensitive reachability w.r.t. known enum discriminants
# variant transformers of the pinned parser-combinator crate (abortable_parser =0.2.3, read from its source;
# facts.py refuses to load another version): callee -> (index of the Result argument, variant map)
_AP = "abortable_parser::combinators::"
VARIANT_SUMMARIES = {
    _AP + "must": (0, {"Complete": "Complete", "Incomplete": "Incomplete", "Fail": "Abort", "Abort": "Abort"}),
    _AP + "must_complete": (0, {"Complete": "Complete", "Incomplete": "Abort", "Fail": "Abort", "Abort": "Abort"}),
    _AP + "optional": (1, {"Complete": "Complete", "Incomplete": "Incomplete", "Fail": "Complete", "Abort": "Abort"}),
    _AP + "not": (1, {"Complete": "Fail", "Incomplete": "Incomplete", "Fail": "Complete", "Abort": "Abort"}),
    _AP + "complete": (0, {"Complete": "Complete", "Incomplete": "Fail", "Fail": "Fail", "Abort": "Abort"}),
    # the `?` operator
    "<core::result::Result<T, E> as core::ops::try_trait::Try>::branch": (0, {"Ok": "Continue", "Err": "Break"}),
    "<core::option::Option<T> as core::ops::try_trait::Try>::branch": (0, {"Some": "Continue", "None": "Break"}),
}
def must_pass_ps(fn, start, through, exits, init=None):
    """path-sensitive must-pass: no exit is reachable from `start` once the blocks in `through` are removed"""
    through = set(through)
    if start in through:
        return True
    return not (reachable_ps(fn, start, removed=through, init=init) & (set(exits) - through))


def _switch_sources(fn):
    """locals whose discriminant some switch reads directly (`discriminant(_x)` or through one `&_x`)"""
    out = set()
    for b, blk in enumerate(fn.blocks):
        t = blk["term"]
        if t["k"] == "switch" and "src" in t:
            out.add(t["src"]["l"])
    return out


BOOL_PREDICATES = {"core::option::Option::is_some": "Some", "core::option::Option::is_none": "None",
                   "core::result::Result::is_ok": "Ok", "core::result::Result::is_err": "Err"}


def reachable_ps(fn, start, removed=(), init=None, parents=None, edge_ok=None):
    """like reachable(), but a path that has assigned `_x = Enum::V(..)` (aggregate) and reaches
    `switch discriminant(_x)` with no redefinition in between follows only V's edge (the parser macros'
    `let r = match .. { .. => Fail(..) }; match r { .. }` shape).  Knowledge is dropped on any other
    assignment to _x, on a call writing it, and when a reference to it is passed to a call."""
    s = succs(fn)
    removed = set(removed)
    tracked = _switch_sources(fn)
    # reference locals -> the tracked local they point to (single `&_x` / `&mut _x`)
    refs = {}
    for b, j, pl, rv, m in fn.assigns():
        if rv["k"] == "ref" and not rv["place"]["p"] and not pl["p"]:
            refs.setdefault(pl["l"], set()).add(rv["place"]["l"])
    if isinstance(start, int):
        start = [start]
    init = frozenset(init or ())
    seen = set()
    work = [(b, init) for b in start if b not in removed]
    seen.update(work)
    blocks = set(b for b, _ in work)
    while work:
        b, known = work.pop()
        k = dict(known)
        blk = fn.blocks[b]
        for st in blk["stmts"]:
            if st[0] == "assign":
                pl, rv = st[1], st[2]
                l = pl["l"]
                if pl["p"]:
                    if l in k and "*" not in pl["p"]:
                        k.pop(l, None)
                    continue
                for kk in [x for x in k if isinstance(x, tuple) and x[0] == l]:
                    k.pop(kk, None)
                if rv["k"] == "agg" and rv.get("adt") == "(tuple)":
                    # `match (a, b)`: remember what is known about the components
                    k.pop(l, None)
                    for idx, op in enumerate(rv["ops"]):
                        sp = op.get("move") or op.get("copy")
                        if sp is not None and not sp["p"] and sp["l"] in k:
                            k[(l, str(idx))] = k[sp["l"]]
                elif rv["k"] == "agg" and rv.get("variant") is not None and rv.get("adt", "").find("::") > 0:
                    k[l] = rv["variant"]
                elif rv["k"] == "use":
                    src = rv["ops"][0].get("move") or rv["ops"][0].get("copy")
                    if src is not None and not src["p"] and src["l"] in k:
                        k[l] = k[src["l"]]
                    elif rv["ops"][0].get("ty") == "bool" and rv["ops"][0].get("int") in ("0", "1"):
                        # a flag set to a constant (`did_indent = true`)
                        k[l] = "true" if rv["ops"][0]["int"] == "1" else "false"
                    else:
                        k.pop(l, None)
                elif rv["k"] == "un" and rv.get("op") == "Not":
                    src = rv["ops"][0].get("move") or rv["ops"][0].get("copy")
                    if src is not None and not src["p"] and k.get(src["l"]) in ("true", "false"):
                        k[l] = "false" if k[src["l"]] == "true" else "true"
                    else:
                        k.pop(l, None)
                else:
                    k.pop(l, None)
            elif st[0] == "setdiscr":
                k.pop(st[1]["l"], None)
        t = blk["term"]
        nxt = s[b]
        if t["k"] == "call":
            k.pop(t["dest"]["l"], None)
            # Option::is_some / is_none / Result::is_ok / is_err of a local whose variant is known
            cn = t.get("resolved") or t.get("callee") or ""
            pred = BOOL_PREDICATES.get(cn)
            if pred is not None and t["args"] and not t["dest"]["p"]:
                ap0 = t["args"][0].get("move") or t["args"][0].get("copy")
                if ap0 is not None and not ap0["p"]:
                    bases = refs.get(ap0["l"], ())
                    if len(bases) == 1 and next(iter(bases)) in k:
                        k[t["dest"]["l"]] = "true" if k[next(iter(bases))] == pred else "false"
            if cn.endswith("::from_residual") and not t["dest"]["p"]:
                # the result of `?`'s early return is the failure variant of the function's own result type
                if cn.startswith("<core::result::Result<"):
                    k[t["dest"]["l"]] = "Err"
                elif cn.startswith("<core::option::Option<"):
                    k[t["dest"]["l"]] = "None"
            summ = VARIANT_SUMMARIES.get(t.get("resolved") or t.get("callee"))
            if summ is not None and not t["dest"]["p"] and summ[0] < len(t["args"]):
                ap = t["args"][summ[0]].get("move") or t["args"][summ[0]].get("copy")
                if ap is not None and not ap["p"] and ap["l"] in k and k[ap["l"]] in summ[1]:
                    k[t["dest"]["l"]] = summ[1][k[ap["l"]]]
            for a in t["args"]:
                p = a.get("move") or a.get("copy")
                if p is not None:
                    for tgt in refs.get(p["l"], ()):
                        # a shared reference cannot change the variant; a mutable one can
                        if fn.local_ty(p["l"]).startswith("&mut"):
                            k.pop(tgt, None)
        elif t["k"] == "switch" and "src" not in t and (t["on"].get("move") or t["on"].get("copy")) is not None \
                and not (t["on"].get("move") or t["on"].get("copy"))["p"] and k.get((t["on"].get("move") or t["on"].get("copy"))["l"]) in ("true", "false"):
            val = k[(t["on"].get("move") or t["on"].get("copy"))["l"]]
            zero = [x["t"] for x in t["targets"] if x["val"] == "0"]
            if zero:
                nxt = [zero[0]] if val == "false" else [t["otherwise"]]
        elif t["k"] == "switch" and "src" in t:
            src = t["src"]
            base = None
            if not src["p"]:
                base = src["l"]
            elif src["p"] == ["*"] and len(refs.get(src["l"], ())) == 1:
                base = next(iter(refs[src["l"]]))
            if base is None and len(src["p"]) == 1 and isinstance(src["p"][0], dict) and "f" in src["p"][0] and (src["l"], src["p"][0]["f"]) in k:
                base = (src["l"], src["p"][0]["f"])
            if base is not None and base in k:
                v = k[base]
                tgt = None
                for x in t["targets"]:
                    if x.get("variant") == v:
                        tgt = x["t"]
                if tgt is None:
                    tgt = t["otherwise"]
                nxt = [tgt]
        elif t["k"] == "drop":
            k.pop(t["place"]["l"], None)
        fk = frozenset(k.items())
        for n in nxt:
            if n in removed or (edge_ok is not None and not edge_ok(b, n)):
                continue
            key = (n, fk)
            if key not in seen:
                seen.add(key)
                blocks.add(n)
                work.append(key)
                if parents is not None:
                    parents[key] = (b, known)
    return blocks
