"""A3: per-variant outcome.  Walk a function's CFG taking, at every switch on the scrutinee enum, only the edge of
one variant (all edges elsewhere); boolean predicates on the scrutinee (`v.is_tuple()`) are resolved through a
summary computed from the predicate's own body."""
from . import cfg
from .facts import callee, op_local, op_place


def predicate_summary(F, fname, enum):
    """{variant: True|False|None} for a `fn(&self) -> bool` that matches on self"""
    fn = F.fn(fname)
    out = {}
    sw = [(b, fn.term(b)) for b in range(len(fn.blocks)) if not fn.is_cleanup(b) and fn.term(b)["k"] == "switch" and fn.term(b).get("enum") == enum]
    if len(sw) != 1:
        return None
    sb, st = sw[0]
    for v in st.get("all_variants", []):
        e = cfg.switch_edge(st, variant=v)
        reach = cfg.reachable(fn, e)
        vals = set()
        for b, j, pl, rv, m in fn.assigns():
            if b in reach and pl["l"] == 0 and not pl["p"] and rv["k"] == "use" and "int" in rv["ops"][0]:
                vals.add(rv["ops"][0]["int"])
        out[v] = True if vals == {"1"} else False if vals == {"0"} else None
    return out


def predicates(F, enum):
    """summaries of all `is_*` predicates defined on the enum's type"""
    out = {}
    for n, fn in F.fns.items():
        if n.startswith(enum + "::is_") and fn.local_ty(0) == "bool" and fn.nargs == 1:
            s = predicate_summary(F, n, enum)
            if s:
                out[n] = s
    return out


def reach_variant(F, fn, start, enum, variant, preds=None, scrutinee_ok=None, removed=()):
    """blocks reachable from `start` when the scrutinee (every switch on `enum` accepted by scrutinee_ok) is `variant`"""
    preds = preds if preds is not None else predicates(F, enum)
    s = cfg.succs(fn)
    removed = set(removed)
    # bool locals defined by predicate calls
    pred_locals = {}
    for b, t in fn.calls():
        c = callee(t)
        if c in preds and not t["dest"]["p"]:
            pred_locals[t["dest"]["l"]] = c
    from .util import copies_of
    pol = {}
    for l, c in pred_locals.items():
        for l2, p in copies_of(fn, l).items():
            pol[l2] = (c, p)
    seen = set()
    work = [start] if isinstance(start, int) else list(start)
    work = [b for b in work if b not in removed]
    seen.update(work)
    while work:
        b = work.pop()
        t = fn.term(b)
        nxt = s[b]
        if t["k"] == "switch":
            if t.get("enum") == enum and (scrutinee_ok is None or scrutinee_ok(t["src"], b)):
                nxt = [cfg.switch_edge(t, variant=variant)]
            else:
                l = op_local(t["on"])
                if l in pol and not op_place(t["on"])["p"]:
                    c, p = pol[l]
                    val = preds[c].get(variant)
                    if val is not None:
                        truth = val if p == 1 else (not val)
                        zero = [x["t"] for x in t["targets"] if x["val"] == "0"]
                        if zero:
                            nxt = [t["otherwise"]] if truth else [zero[0]]
        for n in nxt:
            if n not in seen and n not in removed:
                seen.add(n)
                work.append(n)
    return seen


def reach_multi(F, fn, start, fixed, preds_by_enum=None, scrutinee_ok=None, removed=()):
    """like reach_variant for several scrutinees at once: fixed = {enum: variant}; a switch on one of the enums
    (accepted by scrutinee_ok(enum, place, block)) follows only that variant's edge"""
    s = cfg.succs(fn)
    removed = set(removed)
    seen = set()
    work = [start] if isinstance(start, int) else list(start)
    work = [b for b in work if b not in removed]
    seen.update(work)
    while work:
        b = work.pop()
        t = fn.term(b)
        nxt = s[b]
        if t["k"] == "switch" and t.get("enum") in fixed and (scrutinee_ok is None or scrutinee_ok(t["enum"], t["src"], b)):
            nxt = [cfg.switch_edge(t, variant=fixed[t["enum"]])]
        for n in nxt:
            if n not in seen and n not in removed:
                seen.add(n)
                work.append(n)
    return seen
