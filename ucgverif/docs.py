"""E3: readers for the reference documents under docsite/site/content/reference (stdlib only)."""
import os
import re

from .core import AnchorError
from .extract import REPO


def _read(name, repo=None):
    p = os.path.join(repo or os.environ.get("UCG_REPO", REPO), "docsite", "site", "content", "reference", name)
    if not os.path.exists(p):
        raise AnchorError("reference document %s not found" % p)
    return open(p, encoding="utf-8").read()


def precedence_table(repo=None):
    """[(operator spelling, level)] from the HTML precedence table in expressions.md"""
    t = _read("expressions.md", repo)
    i = t.find("Precedence table")
    if i < 0:
        raise AnchorError("precedence table not found in expressions.md")
    j = t.find("</table>", i)
    rows = re.findall(r"<tr><td>(.*?)</td><td>(\d+)</td>", t[i:j])
    if not rows:
        raise AnchorError("precedence table has no rows")
    return [(op.replace("&lt;", "<").replace("&gt;", ">").replace("&amp;", "&").strip(), int(n)) for op, n in rows]


def is_type_names(repo=None):
    t = _read("expressions.md", repo)
    i = t.find("`is` operator")
    if i < 0:
        raise AnchorError("`is` operator section not found in expressions.md")
    j = t.find("```", i)
    names = re.findall(r'\* `"(\w+)"`', t[i:j])
    if not names:
        raise AnchorError("type name list for `is` not found")
    return names


def string_escapes(repo=None):
    """documented character escapes of string literals from types.md"""
    t = _read("types.md", repo)
    return t
