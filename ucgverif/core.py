"""Rule result model, known-findings file, evidence writer, check runner."""
import json
import os
import re
import sys
import time

from . import extract
from .facts import Facts

VERIF = extract.VERIF
KNOWN = os.path.join(VERIF, "known_findings.txt")


class AnchorError(Exception):
    """a function/enum/variant/macro/doc table a rule is anchored in was not found, or an
    anchored site has a shape the rule does not recognise: the check cannot decide (exit 2)"""


class RuleResult:
    def __init__(self, rid, title, decides, floor=0, exhaustive=False):
        self.rid = rid
        self.title = title
        self.decides = decides
        self.floor = floor
        self.exhaustive = exhaustive
        self.instances = []
        self.errors = []
        self.notes = []
        self.nontrivial = 0

    def inst(self, key, where, ok, verdict, detail=None, nontrivial=True):
        """key: stable instance key (without rule id, without line numbers)"""
        full = "%s:%s" % (self.rid, key)
        n = sum(1 for i in self.instances if i["key"] == full or i["key"].startswith(full + "#"))
        if n:
            full = "%s#%d" % (full, n)
        self.instances.append({"key": full, "where": where, "ok": bool(ok), "verdict": verdict,
                               "detail": detail, "nontrivial": nontrivial})
        return ok

    def error(self, msg):
        self.errors.append("%s: %s" % (self.rid, msg))

    def note(self, msg):
        self.notes.append(msg)

    @property
    def violations(self):
        return [i for i in self.instances if not i["ok"]]


def need(cond, msg):
    if not cond:
        raise AnchorError(msg)


def load_known():
    """known: property=<id> key=<key> <text>  |  fixed: property=<id> <commit> <text>"""
    known = {}
    fixed = []
    if os.path.exists(KNOWN):
        for line in open(KNOWN):
            line = line.strip()
            if not line or line.startswith("#"):
                continue
            m = re.match(r"known:\s+property=(\S+)\s+key=(\S+)\s+(.*)$", line)
            if m:
                known[(m.group(1), m.group(2))] = m.group(3)
                continue
            m = re.match(r"fixed:\s+property=(\S+)\s+(\S+)\s+(.*)$", line)
            if m:
                fixed.append((m.group(1), m.group(2), m.group(3)))
    return known, fixed


def run_rules(F, rule_fns):
    """Every rule is run on the functions as written.  When that view does not let it decide, or shows a violation that is not a
    listed finding, it is run once more on the view in which private helpers are spliced into the functions the rule is anchored
    in (flatten.flat; Facts.fn hands that view out while VERIF_FLAT=1).  Both views describe the same program, so a clean verdict
    on either stands; anything else keeps the first result.  This is what makes `extract a helper` / `inline a helper` harmless."""
    results = []
    known_keys = {k for (_, k) in load_known()[0]}
    for fn in rule_fns:
        rs = _run_rule(F, fn)
        bad = any(x.errors or [i for i in x.violations if i["key"] not in known_keys] for x in rs)
        if bad and os.environ.get("VERIF_FLAT") != "1" and os.environ.get("VERIF_NO_SECOND_VIEW") != "1":
            os.environ["VERIF_FLAT"] = "1"
            from . import flatten
            try:
                import inspect
                import re as _re
                mod = inspect.getmodule(fn)
                src = inspect.getsource(mod) if mod is not None else ""
                flatten.KEEP_NAMES = frozenset(_re.findall(r"[A-Za-z_][A-Za-z0-9_]{2,}", " ".join(_re.findall(r"\"([^\"\n]*)\"", src))))
                flatten.KEEP_ID = getattr(mod, "__name__", "?")
                rs2 = _run_rule(F, fn)
            finally:
                os.environ["VERIF_FLAT"] = "0"
                flatten.KEEP_NAMES = frozenset()
                flatten.KEEP_ID = ""
            raw_errors = any(x.errors for x in rs)
            clean2 = not any(x.errors or [i for i in x.violations if i["key"] not in known_keys] for x in rs2)
            if raw_errors:
                # the view as written could not be read at all: a clean verdict on the other view stands (floors apply to it)
                if clean2:
                    for x in rs2:
                        x.note("decided on the view with private helpers spliced in (the view as written: %s)" % (
                            "; ".join(str(e)[:160] for y in rs for e in y.errors)))
                    rs = rs2
            elif not any(x.errors for x in rs2) and len(rs) == len(rs2):
                # both views decide. The instances of a rule are independent obligations identified by their keys: an obligation
                # shown on either view holds; one that the other view does not even state stays violated
                for x, y in zip(rs, rs2):
                    by_key = {i["key"]: i for i in y.instances}
                    for n_, i in enumerate(x.instances):
                        if not i["ok"] and i["key"] not in known_keys:
                            j = by_key.get(i["key"])
                            if j is not None and j["ok"]:
                                x.instances[n_] = dict(j, verdict=j["verdict"] + " [shown on the view with private helpers spliced in]")
        results.extend(rs)
    return results


def _run_rule(F, fn):
    results = []
    for fn in [fn]:
        t0 = time.time()
        try:
            r = fn(F)
        except AnchorError as e:
            r = RuleResult(getattr(fn, "rid", fn.__name__), fn.__name__, "")
            r.error("missing anchor / unrecognised idiom: %s" % e)
        except KeyError as e:
            r = RuleResult(getattr(fn, "rid", fn.__name__), fn.__name__, "")
            r.error("missing anchor: %s" % e)
        except (TypeError, IndexError, ValueError, AttributeError, RecursionError, NameError, AssertionError, ZeroDivisionError) as e:
            # the rule met a shape of code it was not written for: it cannot decide (never a verdict, never a crash)
            import traceback
            tb = traceback.extract_tb(e.__traceback__)[-1]
            r = RuleResult(getattr(fn, "rid", fn.__name__), fn.__name__, "")
            r.error("unrecognised idiom (the rule could not read the code: %s: %s at %s:%d)" % (type(e).__name__, e, tb.filename.split("/")[-1], tb.lineno))
        rs = r if isinstance(r, list) else [r]
        for x in rs:
            x.wall = round(time.time() - t0, 3)
            if len(x.instances) < x.floor:
                x.error("instance count %d below the floor %d counted on the reference tree "
                        "(rule would pass vacuously)" % (len(x.instances), x.floor))
        results.extend(rs)
    return results


def sample_instances(results, limit=24):
    """a spread of instances over rules, violations first"""
    out = []
    for r in results:
        for i in r.violations[:3]:
            out.append(i)
    per = max(1, (limit - len(out)) // max(1, len(results)))
    for r in results:
        oks = [i for i in r.instances if i["ok"]]
        out.extend(oks[:per])
    return [{k: v for k, v in i.items() if k != "nontrivial"} for i in out[:limit + 12]]
