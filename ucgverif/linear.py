"""A8: tiny symbolic evaluator for usize / i32 expressions over `OpsMap::len` call results.
A value is a dict {symbol: coefficient} with the constant under key 1; symbols are ("len", bb) for the result of the
len call in block bb and ("elem", local) for an element drawn from a vector local."""
from .facts import callee, op_local, op_place

LEN = "ucglib::build::opcode::translate::OpsMap::len"


def _add(a, b, sign=1):
    out = dict(a)
    for k, v in b.items():
        out[k] = out.get(k, 0) + sign * v
        if out[k] == 0:
            del out[k]
    return out


class Linear:
    def __init__(self, fn):
        self.fn = fn
        self.defs = {}
        for b, j, pl, rv, m in fn.assigns():
            if not pl["p"]:
                self.defs.setdefault(pl["l"], []).append((b, rv))
        self.calls = {}
        for b, t in fn.calls():
            if not t["dest"]["p"]:
                self.calls.setdefault(t["dest"]["l"], []).append((b, t))

    def of_operand(self, op, depth=0):
        if "int" in op:
            return {1: int(op["int"])} if int(op["int"]) != 0 else {}
        pl = op_place(op)
        if pl is None:
            return None
        # (x.0) of a checked arithmetic tuple
        if pl["p"] and not (len(pl["p"]) == 1 and isinstance(pl["p"][0], dict) and pl["p"][0].get("f") == "0"):
            return None
        return self.of_local(pl["l"], depth + 1, field0=bool(pl["p"]))

    def of_local(self, l, depth=0, field0=False):
        if depth > 24:
            return None
        if l in self.calls and l not in self.defs:
            cs = self.calls[l]
            if len(cs) == 1 and callee(cs[0][1]) == LEN:
                return {("len", cs[0][0]): 1}
            if len(cs) == 1 and callee(cs[0][1]).endswith("::next"):
                return None
            return None
        ds = self.defs.get(l, [])
        if len(ds) != 1:
            return None
        b, rv = ds[0]
        k = rv["k"]
        if k == "use":
            return self.of_operand(rv["ops"][0], depth)
        if k == "cast" and rv["cast"] == "IntToInt":
            return self.of_operand(rv["ops"][0], depth)
        if k == "bin" and rv["op"] in ("Add", "Sub", "AddWithOverflow", "SubWithOverflow", "AddUnchecked", "SubUnchecked"):
            a = self.of_operand(rv["ops"][0], depth)
            c = self.of_operand(rv["ops"][1], depth)
            if a is None or c is None:
                return None
            return _add(a, c, 1 if rv["op"].startswith("Add") else -1)
        return None


def show(v):
    if v is None:
        return "?"
    parts = []
    for k, c in sorted(v.items(), key=lambda x: str(x[0])):
        if k == 1:
            parts.append("%+d" % c)
        else:
            parts.append("%+d*%s@%s" % (c, k[0], k[1]))
    return " ".join(parts) or "0"
