"""S2: sentence forms emitted by the AST printer, by abstract interpretation of the unexpanded syntax tree of
ast/printer/mod.rs (nothing is executed: the interpreter walks the syn facts).

An AST node is abstract: every field is a path; a collection field has a size chosen from 0..BOUND, an Option field is
Some or None, a layout predicate (has_comment, is_bareword, did_indent...) is true or false; every combination is
explored.  Emitted symbols:
   ("t", text)          a UCG token written literally
   ("F", path)          a token-valued field written raw
   ("Q", path)          a string field written between double quotes
   ("S", class, path)   a child rendered through render_expr / render_value / render_stmt
Whitespace, indentation and the comment helpers are dropped."""
import re

from .core import AnchorError
from .facts import syn_items

OPS = ["=>", "::", "..", "%%", "==", "!=", ">=", "<=", "&&", "||", "!~"]
IGNORED_CALLS = ("render_comment_if_needed", "render_missed_comments", "has_comment", "make_indent", "print_comment_group")
IGNORED_ARGS = ("indent", "prefix")


def lex(text):
    out = []
    i = 0
    while i < len(text):
        c = text[i]
        if c.isspace():
            i += 1
            continue
        m = re.match(r"[A-Za-z_]+", text[i:])
        if m:
            out.append(m.group(0))
            i += len(m.group(0))
            continue
        for op in OPS:
            if text.startswith(op, i):
                out.append(op)
                i += len(op)
                break
        else:
            out.append(c)
            i += 1
    return out


def split_format(lit):
    """-> list of ('text', s) / ('ph',)"""
    out = []
    cur = ""
    i = 0
    while i < len(lit):
        if lit.startswith("{{", i):
            cur += "{"
            i += 2
        elif lit.startswith("}}", i):
            cur += "}"
            i += 2
        elif lit[i] == "{":
            j = lit.index("}", i)
            if cur:
                out.append(("text", cur))
                cur = ""
            out.append(("ph",))
            i = j + 1
        else:
            cur += lit[i]
            i += 1
    if cur:
        out.append(("text", cur))
    return out



BOUND = 3
MAX_RUNS = 60000
TRANSPARENT = ("as_ref", "as_mut", "iter", "iter_mut", "clone", "first", "unwrap", "as_bytes", "trim_end", "to_string",
               "deref", "enumerate", "as_str", "to_owned", "borrow", "into_iter")
UNKNOWN_BOOL = ("has_comment", "is_bareword", "is_some", "is_none", "contains", "starts_with", "ends_with", "unwrap_or")
CHILD = {"render_expr": "expr", "render_value": "value", "render_stmt": "stmt"}
INLINE = ("render_tuple_def", "render_list_def")


class Budget(Exception):
    pass


class Chooser:
    def __init__(self, prefix):
        self.prefix = prefix
        self.trail = []

    def choose(self, n):
        k = len(self.trail)
        c = self.prefix[k] if k < len(self.prefix) else 0
        self.trail.append((c, n))
        return c


def explore(run, max_runs=MAX_RUNS):
    results = []
    prefix = []
    n = 0
    while True:
        ch = Chooser(prefix)
        results.append(run(ch))
        n += 1
        if n > max_runs:
            raise Budget()
        trail = ch.trail
        while trail and trail[-1][0] == trail[-1][1] - 1:
            trail.pop()
        if not trail:
            return results
        trail[-1] = (trail[-1][0] + 1, trail[-1][1])
        prefix = [c for c, _ in trail]


def _join(base, name):
    return (base + "." + name) if base else name


def _closure_writes(node):
    """does the expression contain a closure whose body writes output (write!/writeln! or a method call on self)?"""
    found = []

    def walk(n, in_closure):
        if isinstance(n, dict):
            if n.get("k") == "closure":
                in_closure = True
            if in_closure:
                if n.get("k") == "macro" and n.get("name") in ("write", "writeln"):
                    found.append(1)
                if n.get("k") == "mcall" and n.get("recv", {}).get("k") == "path" and n["recv"].get("v", "").replace(" ", "") == "self":
                    found.append(1)
                if n.get("k") == "mcall" and n.get("m") in ("write_all", "write_str", "write_fmt"):
                    found.append(1)
            for v in n.values():
                walk(v, in_closure)
        elif isinstance(n, list):
            for v in n:
                walk(v, in_closure)
    walk(node, False)
    return bool(found)


class Interp:
    def __init__(self, methods, ch, bound=BOUND):
        self.methods = methods
        self.ch = ch
        self.out = []
        self.sizes = {}
        self.bound = bound
        self.unknown = []      # constructs the interpreter did not understand (reported, fail closed)
        self.trace = []        # structural decisions: ("opt", path, taken) / ("arm", path, variant) / ("size", path, n)
        self.indent = 0        # curr_indent relative to the entry of the method, in units of indent_size
        self.underflow = None  # line of a `curr_indent -= indent_size` taken below the entry level
        self.depth = 0

    # ---- values
    def size(self, path):
        if path not in self.sizes:
            self.sizes[path] = self.ch.choose(self.bound + 1)
        return self.sizes[path]

    def truth(self, v):
        if v[0] == "bool":
            return v[1]
        return self.ch.choose(2) == 1

    def eval(self, e, env):
        k = e.get("k")
        if k == "lit":
            if e["t"] in ("str", "bytestr"):
                return ("str", e["v"])
            if e["t"] == "int":
                return ("int", int(e["v"]))
            if e["t"] == "bool":
                return ("bool", e["v"])
            return ("unk",)
        if k == "path":
            v = e["v"].replace(" ", "")
            if v in env:
                return env[v]
            if v in ("true", "false"):
                return ("bool", v == "true")
            return ("unk",)
        if k in ("ref", "try", "cast"):
            return self.eval(e["e"], env)
        if k == "unary":
            v = self.eval(e["e"], env)
            if e["op"].strip() == "!" :
                return ("bool", not v[1]) if v[0] == "bool" else ("unk",)
            return v
        if k == "field":
            name = e["name"].replace(" ", "")
            if e["e"].get("k") == "path" and e["e"]["v"].replace(" ", "") == "self":
                return ("unk",)
            b = self.eval(e["e"], env)
            if b[0] == "path":
                if name == "fragment" or (name == "val" and b[1] != ""):
                    return b
                if name in ("pos", "line"):
                    return ("unk",)
                return ("path", _join(b[1], name))
            return ("unk",)
        if k == "index":
            return self.eval(e["e"], env)
        if k == "mcall":
            m = e["m"]
            if m == "make_indent":
                return ("str", "")
            r = self.eval(e["recv"], env)
            if m == "len" and r[0] == "path":
                return ("int", self.size(r[1]))
            if m == "is_empty" and r[0] == "path":
                return ("bool", self.size(r[1]) == 0)
            if m in TRANSPARENT:
                return r
            if m == "pos":
                return ("unk",)
            return ("unk",)
        if k == "call":
            f = e["f"]["v"].replace(" ", "") if e["f"].get("k") == "path" else ""
            if f.endswith("escape_quotes"):
                v = self.eval(e["args"][0], env)
                return ("epath", v[1]) if v[0] == "path" else v
            return ("unk",)
        if k == "binary":
            op = e["op"].strip()
            l = self.eval(e["l"], env)
            if op == "&&":
                if l[0] == "bool" and not l[1]:
                    return l
                r = self.eval(e["r"], env)
                if l[0] == "bool" and r[0] == "bool":
                    return ("bool", l[1] and r[1])
                return ("unk",)
            if op == "||":
                if l[0] == "bool" and l[1]:
                    return l
                r = self.eval(e["r"], env)
                if l[0] == "bool" and r[0] == "bool":
                    return ("bool", l[1] or r[1])
                return ("unk",)
            r = self.eval(e["r"], env)
            if l[0] == "int" and r[0] == "int":
                a, b = l[1], r[1]
                if op in ("+", "-", "*"):
                    return ("int", {"+": a + b, "-": a - b, "*": a * b}[op])
                if op in (">", "<", ">=", "<=", "==", "!="):
                    return ("bool", {">": a > b, "<": a < b, ">=": a >= b, "<=": a <= b, "==": a == b, "!=": a != b}[op])
            return ("unk",)
        if k == "if":
            return self.exec_if(e, env, want_value=True)
        if k == "match":
            return self.exec_match(e, env, want_value=True)
        if k == "block":
            return self.exec_block(e["stmts"], dict(env), want_value=True)
        if k == "macro" and e["name"] == "format" and e.get("args"):
            return ("fmt", e["args"], dict(env))
        return ("unk",)

    # ---- emission
    def emit_value(self, v, syms):
        if v[0] == "str":
            syms.extend(("t", t) for t in lex(v[1]))
        elif v[0] == "path":
            syms.append(("F", v[1]))
        elif v[0] == "epath":
            syms.append(("E", v[1]))
        elif v[0] == "fmt":
            self.emit_fmt(v[1], v[2], syms)
        elif v[0] == "bool":
            syms.append(("t", "true" if v[1] else "false"))
        else:
            syms.append(("?",))

    def emit_fmt(self, args, env, syms):
        if not args:
            return
        if args[0].get("k") != "lit":
            syms.append(("?",))
            return
        rest = args[1:]
        k = 0
        for p in split_format(args[0]["v"]):
            if p[0] == "text":
                syms.extend(("t", t) for t in lex(p[1]))
            else:
                if k < len(rest):
                    self.emit_value(self.eval(rest[k], env), syms)
                else:
                    syms.append(("?",))
                k += 1

    def flush(self, syms):
        # "<field>" -> Q
        i = 0
        while i < len(syms):
            if syms[i] == ("t", '"') and i + 2 < len(syms) and syms[i + 1][0] in ("F", "E") and syms[i + 2] == ("t", '"'):
                # a quoted field: Q when it went through escape_quotes, Qraw when written as it is
                self.out.append(("Q" if syms[i + 1][0] == "E" else "Qraw", syms[i + 1][1]))
                i += 3
            else:
                self.out.append(syms[i])
                i += 1

    # ---- statements
    def exec_block(self, stmts, env, want_value=False):
        last = ("unk",)
        for idx, st in enumerate(stmts):
            if st["k"] == "local":
                init = st.get("init")
                if init is None:
                    continue
                v = self.eval(init, env)
                self.bind(st["pat"], v, env)
                last = ("unk",)
            elif st["k"] == "expr":
                if want_value and idx == len(stmts) - 1 and not st.get("semi", False):
                    last = self.eval(st["e"], env)
                    if last == ("unk",) and st["e"].get("k") in ("mcall", "macro", "try", "if", "match", "for", "block", "binary", "assign"):
                        self.exec_expr(st["e"], env)
                else:
                    self.exec_expr(st["e"], env)
        return last

    def bind(self, pat, v, env):
        pat = re.sub(r"\b(ref|mut)\b", "", pat).replace("&", "").replace(" ", "")
        names = [x for x in re.findall(r"\w+", pat) if x not in ("ref", "mut")]
        if pat.startswith("(") or pat.startswith("&("):
            for idx, nme in enumerate(names):
                if nme != "_":
                    env[nme] = ("path", _join(v[1], str(idx))) if v[0] == "path" else ("unk",)
        elif len(names) == 1:
            env[names[0]] = v
        elif names:
            # Ctor(x)
            env[names[-1]] = v

    def exec_if(self, e, env, want_value=False):
        c = e["cond"]
        env2 = dict(env)
        if c.get("k") == "let":
            v = self.eval(c["e"], env)
            pat = re.sub(r"\b(ref|mut)\b", "", c["pat"]).replace(" ", "")
            if pat.startswith("Some("):
                taken = self.ch.choose(2) == 1
                self.trace.append(("opt", v[1] if v[0] == "path" else "?", taken))
                if taken:
                    self.bind(pat[5:-1], v, env2)
            else:
                taken = self.ch.choose(2) == 1
                if taken:
                    self.bind(pat, v, env2)
        else:
            taken = self.truth(self.eval(c, env))
        if taken:
            r = self.exec_block(e["then"]["stmts"], env2, want_value)
            self.merge_back(env, env2)
            return r
        if e.get("else"):
            el = e["else"]
            if el.get("k") == "block":
                env3 = dict(env)
                r = self.exec_block(el["stmts"], env3, want_value)
                self.merge_back(env, env3)
                return r
            if el.get("k") == "if":
                return self.exec_if(el, env, want_value)
        return ("unk",)

    def merge_back(self, env, inner):
        # assignments to outer locals made inside the branch
        for k in env:
            if k in inner and inner[k] != env[k] and k in self.assigned:
                env[k] = inner[k]

    assigned = ()
    top = None

    def exec_match(self, e, env, want_value=False):
        v = self.eval(e["on"], env)
        arms = e["arms"]
        if self.top is not None and e is self.top[0]:
            i = self.top[1]
        else:
            i = self.ch.choose(len(arms))
        a = arms[i]
        env2 = dict(env)
        pat = re.sub(r"\b(ref|mut)\b", "", a["pat"]).replace(" ", "")
        if v[0] == "path":
            self.trace.append(("arm", v[1], pat.split("(")[0].split("::")[-1]))
        m = re.match(r"[\w:]+\((.*)\)$", pat)
        if m:
            inner = m.group(1)
            if "," in inner and not inner.startswith("("):
                inner = "(" + inner + ")"     # Variant(a, b, c): positional fields 0, 1, 2
            self.bind(inner, v, env2)
        body = a["body"]
        if want_value:
            r = self.eval(body, env2)
            return r
        self.exec_expr(body, env2)
        self.merge_back(env, env2)
        return ("unk",)

    def exec_expr(self, e, env):
        k = e.get("k")
        if k == "try":
            return self.exec_expr(e["e"], env)
        if k == "macro":
            if e["name"] in ("write", "writeln") and e.get("args"):
                syms = []
                self.emit_fmt(e["args"][1:], env, syms)
                self.flush(syms)
            return
        if k == "mcall":
            m = e["m"]
            if m == "write_all":
                syms = []
                self.emit_value(self.eval(e["args"][0], env), syms)
                self.flush(syms)
                return
            if m in CHILD:
                v = self.eval(e["args"][0], env)
                self.out.append(("S", CHILD[m], v[1] if v[0] == "path" else "?"))
                return
            recv_self = e["recv"].get("k") == "path" and e["recv"]["v"].replace(" ", "") == "self"
            if recv_self and m in self.methods and m not in IGNORED_CALLS and self.depth < 4:
                # any other method of the printer is interpreted in place; `&mut local` arguments are copied back
                it = self.methods[m]
                params = [p["name"].replace("mut ", "").strip() for p in it["sig"]["params"] if "self" not in p["name"]]
                cenv = {}
                back = []
                for pn, a in zip(params, e["args"]):
                    cenv[pn] = self.eval(a, env)
                    if a.get("k") == "ref" and a.get("mut") and a["e"].get("k") == "path":
                        back.append((pn, a["e"]["v"].replace(" ", "")))
                self.depth += 1
                self.assigned = tuple(set(self.assigned) | set(params))
                self.exec_block(it["body"]["stmts"], cenv)
                self.depth -= 1
                for pn, local in back:
                    if local in env:
                        env[local] = cenv[pn]
                        self.assigned = tuple(set(self.assigned) | {local})
                return
            # an iterator pipeline whose closure writes (`.try_for_each(|x| write!(..))`, `.for_each(|x| self.render_expr(x))`):
            # the output happens inside the closure, which this interpreter does not enter
            if _closure_writes(e):
                self.unknown.append("output driven from a closure (`.%s(|..| ..)`) at line %s" % (m, e.get("ln")))
            return
        if k == "if":
            self.exec_if(e, env)
            return
        if k == "match":
            self.exec_match(e, env)
            return
        if k == "block":
            env2 = dict(env)
            self.exec_block(e["stmts"], env2)
            self.merge_back(env, env2)
            return
        if k == "binary" and e["op"].strip() in ("+=", "-="):
            l = e["l"]
            if l.get("k") == "field" and l["name"].replace(" ", "") == "curr_indent":
                self.indent += 1 if e["op"].strip() == "+=" else -1
                if self.indent < 0 and self.underflow is None:
                    self.underflow = e.get("ln")
            return
        if k == "assign":
            if e["l"].get("k") == "unary" and e["l"]["op"].strip() == "*" and e["l"]["e"].get("k") == "path":
                nm = e["l"]["e"]["v"].replace(" ", "")
                if nm in env:
                    env[nm] = self.eval(e["r"], env)
                    self.assigned = tuple(set(self.assigned) | {nm})
                return
            if e["l"].get("k") == "path":
                nm = e["l"]["v"].replace(" ", "")
                if nm in env:
                    env[nm] = self.eval(e["r"], env)
                    self.assigned = tuple(set(self.assigned) | {nm})
            return
        if k == "for":
            it = e["iter"]
            v = self.eval(it, env)
            if v[0] != "path":
                self.unknown.append("for over non-field at line %s" % e.get("ln"))
                return
            n = self.size(v[1])
            enum = it.get("k") == "mcall" and it["m"] == "enumerate"
            for i in range(n):
                env2 = dict(env)
                pat = re.sub(r"\b(ref|mut)\b", "", e["pat"]).replace(" ", "")
                if enum:
                    names = [x for x in re.findall(r"\w+", pat) if x not in ("ref", "mut")]
                    env2[names[0]] = ("int", i)
                    rest = pat[pat.index(",") + 1:-1]
                    self.bind(rest, v, env2)
                else:
                    self.bind(pat, v, env2)
                self.exec_block(e["body"]["stmts"], env2)
                self.merge_back(env, env2)
            return
        return


def _methods(F):
    out = {}
    for p, x in syn_items(F.syn["ast/printer/mod.rs"]["items"]):
        if x["k"] == "fn":
            out[p[-1]] = x
    return out


def _top_match(it, names):
    target = []

    def find(node):
        if target:
            return
        if isinstance(node, dict):
            if node.get("k") == "match" and node["on"].get("k") == "path" and node["on"]["v"].replace(" ", "") in names:
                target.append(node)
                return
            for v in node.values():
                if isinstance(v, (dict, list)):
                    find(v)
        elif isinstance(node, list):
            for v in node:
                find(v)
    find(it["body"])
    return target[0] if target else None


def arm_sentences(F, fn_name, bound=BOUND):
    """{variant: (set of symbol tuples, line, runs, unknown constructs, bound)}: the whole render_* method is interpreted
    once per arm of its top-level match, so text written before and after the match (the statement's `;`) is included"""
    methods = _methods(F)
    if fn_name not in methods:
        raise AnchorError("printer method %s not found" % fn_name)
    it = methods[fn_name]
    params = [p["name"] for p in it["sig"]["params"] if "self" not in p["name"]]
    top = _top_match(it, tuple(params))
    if top is None:
        raise AnchorError("top-level match not found in %s" % fn_name)
    out = {}
    for idx, a in enumerate(top["arms"]):
        pat = a["pat"].replace(" ", "")
        m = re.match(r"(\w+)::(\w+)(?:\((.*)\))?$", pat)
        if not m:
            raise AnchorError("unrecognised arm pattern %s in %s" % (pat, fn_name))
        unknown = set()
        underflows = []
        b = bound
        while True:
            def run(ch):
                I = Interp(methods, ch, b)
                I.assigned = ()
                I.top = (top, idx)
                I.exec_block(it["body"]["stmts"], {params[0]: ("path", "")})
                unknown.update(I.unknown)
                if I.underflow is not None:
                    underflows.append((I.underflow, tuple(I.out), tuple(I.trace)))
                return (tuple(I.out), tuple(I.trace))
            try:
                del underflows[:]
                res = explore(run)
                break
            except Budget:
                b -= 1
                if b < 2:
                    raise AnchorError("printer arm %s::%s: more than %d shapes at loop bound 2" % (m.group(1), m.group(2), MAX_RUNS))
        # (symbol sequences with decision traces, line, runs, unknown constructs, bound, indentation underflows)
        out[m.group(2)] = (set(res), a["ln"], len(res), sorted(unknown), b, list(underflows[:3]))
    return out


def method_sentences(F, fn_name, param, bound=BOUND):
    methods = _methods(F)
    it = methods[fn_name]
    unknown = set()

    def run(ch):
        I = Interp(methods, ch, bound)
        I.exec_block(it["body"]["stmts"], {param: ("path", "")})
        unknown.update(I.unknown)
        return tuple(I.out)
    res = explore(run)
    return set(res), it["ln"], len(res), sorted(unknown), bound


def show_syms(seq):
    out = []
    for s in seq:
        if s[0] == "t":
            out.append(s[1])
        elif s[0] == "F":
            out.append("<%s>" % s[1])
        elif s[0] == "Q":
            out.append('"<%s>"' % s[1])
        elif s[0] == "Qraw":
            out.append('"<%s unescaped>"' % s[1])
        elif s[0] == "E":
            out.append('<%s escaped>' % s[1])
        elif s[0] == "S":
            out.append("[%s:%s]" % (s[1], s[2]))
        else:
            out.append("??")
    return " ".join(out)
