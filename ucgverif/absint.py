"""A5: three-valued abstract interpretation of MIR bodies ("what is the verdict when THIS result is negative?").

The rules about verdict plumbing (C13/C16: a failed assertion must reach the exit status; C13: the collector's success flag)
used to recognise idioms (`if !x { ok = false }`, `ok &= x`, `unwrap_or(false)`, ...).  This module evaluates the code instead:
booleans are True / False / unknown, small integers and enum variants are tracked, everything else is unknown, all branches an
unknown condition allows are followed, and the states reaching the exits are reported.  Nothing is executed: the interpreter
walks the MIR facts with abstract values, loops terminate because the domain is finite (arithmetic gives unknown).

A *site* is one call terminator (function, block) whose result is forced: on one visit, chosen non-deterministically, it
returns the `forced` value ("fired"), on all other visits an unknown value.  Exits are reported together with `fired`, so a
caller can ask: on every path on which the site returned the negative value at least once, is my own result negative?  This is
the sticky reading (a later positive result must not repair the verdict) and it ignores paths that never reach the site.

Values (hashable tuples):
  ("b", True/False)   ("i", n)   ("u",) unknown
  ("e", adt, variant-or-None, ((field, value), ...))     enum / struct / tuple (adt "(tuple)")
  ("r", (local, proj))                                   reference to a place of the current frame
  ("c", closure-path, (captures...))                     closure value
  ("it", (stage, ...))                                   iterator pipeline; stage = ("map", closure value) | ("src",)
  ("d", adt, variant-or-None)                            discriminant read
  ("e", "(collection)", "Empty" | "NonEmpty", ())        what `collect()` made (only emptiness is kept)
"""
from .facts import callee, op_place

U = ("u",)
T = ("b", True)
Fv = ("b", False)
SKIP = ("skip",)                 # an element a filter stage dropped (pipelines only)
COLLECTION = "(collection)"      # what `collect` leaves: ("e", COLLECTION, "Empty" | "NonEmpty", ())


SINKS = ("core::fmt::", "alloc::fmt::", "std::io::", "std::fmt::", "<std::io::", "core::panicking::", "std::panicking::")


def _is_sink(c):
    """formatting and printing consume a value without handing anything back to the verdict"""
    return c.startswith(SINKS) or "::fmt::" in c or c.endswith("::fmt") or c.endswith("::to_string")


class Lossy(Exception):
    pass


def b3_not(v):
    if v == T:
        return Fv
    if v == Fv:
        return T
    return U


def b3_and(a, b):
    if a == Fv or b == Fv:
        return Fv
    if a == T and b == T:
        return T
    return U


def b3_or(a, b):
    if a == T or b == T:
        return T
    if a == Fv and b == Fv:
        return Fv
    return U


def enum(adt, variant, *payload):
    return ("e", adt, variant, tuple((str(i), v) for i, v in enumerate(payload)))


RESULT = "core::result::Result"
OPTION = "core::option::Option"
CFLOW = "core::ops::control_flow::ControlFlow"


def ok_(v):
    return enum(RESULT, "Ok", v)


def err_():
    return enum(RESULT, "Err", U)


def field_of(v, f):
    if v[0] == "sym":
        return v            # a part of a symbolic operand is that operand
    if v[0] == "e":
        for k, x in v[3]:
            if k == f:
                return x
    return U


def _key(place):
    proj = []
    for e in place["p"]:
        if e == "*":
            proj.append("*")
        elif isinstance(e, dict):
            if "f" in e:
                proj.append(("f", str(e["f"])))
            elif "v" in e:
                proj.append(("v", e["v"]))
            else:
                proj.append(("x",))
        else:
            proj.append(("x",))
    return (place["l"], tuple(proj))


class Frame:
    """one activation: env maps (local, proj) -> value"""
    __slots__ = ("env",)

    def __init__(self, env=None):
        self.env = dict(env or {})

    def freeze(self):
        return frozenset(self.env.items())


class Sim:
    MAX_STATES = 60000

    def __init__(self, F, site=None, forced=None, depth=3, tainted_by=None, force_all=None, opaque=(), watch=()):
        """site: (fn name, block) of the call whose result is forced; forced: the value it returns when it fires"""
        self.F = F
        self.site = site
        self.forced = forced
        self.depth = depth
        self.lossy = []          # (fn, block, callee): unmodelled calls that may have swallowed the forced value
        self.records = []        # (what, type, slot0, slot1, function, block): operations observed on symbolic operands
        self.visited = set()     # (function, block) of every block some explored path enters
        self.visited_fired = set()   # ... entered after the site fired
        self.exit_codes = []     # (fired, value) for every process::exit reached
        self.states = 0
        self.tainted_by = tainted_by   # optional callable (fn, block, term) -> bool: does this call see the site's result?
        self.force_all = force_all or {}   # callee name -> value returned on EVERY visit (no firing)
        self.opaque = set(opaque)          # crate functions that are not evaluated (their result is unknown)
        self.watch = set(watch)            # closures whose disappearance into an unmodelled call makes the result undecidable

    # ---------------------------------------------------------------- places
    def read(self, fr, key, fn):
        """value of a place: the longest tracked prefix, then the remaining projection applied to that value.  A deref of
        a value that is not a tracked reference is the identity (boxes; captured references that were resolved when the
        closure was attached)."""
        l, proj = key
        env = fr.env
        for n in range(len(proj), -1, -1):
            base = env.get((l, proj[:n]))
            if base is None:
                continue
            v = base
            for e in proj[n:]:
                if e == "*":
                    if v[0] == "r":
                        v = self.read(fr, v[1], fn)
                elif e[0] == "v":
                    if v[0] == "e" and v[2] is not None and v[2] != e[1]:
                        return U
                elif e[0] == "f":
                    v = field_of(v, e[1])
                elif v[0] == "sym":
                    pass
                else:
                    return U
            return v
        return U

    def write(self, fr, key, val, fn):
        l, proj = key
        env = fr.env
        if proj and proj[0] == "*":
            base = env.get((l, ()))
            if base is not None and base[0] == "r":
                bl, bp = base[1]
                return self.write(fr, (bl, bp + proj[1:]), val, fn)
            if 1 <= l <= fn.nargs and base is None:
                # through a pointer parameter: the pointee is a region of its own, named by the parameter
                pass
            else:
                # a write through an unknown pointer: forget everything whose address was ever taken
                for k in list(env):
                    if k[0] in self._addr_taken(fn):
                        del env[k]
                return
        # kill sub-places and tracked super-places (a field of a tracked aggregate is updated in place when simple)
        for k in list(env):
            if k[0] == l and k != key and (k[1][:len(proj)] == proj):
                del env[k]
        for n in range(len(proj)):
            sup = (l, proj[:n])
            if sup in env:
                base = env[sup]
                rest = proj[n:]
                if base[0] == "e" and len(rest) <= 2 and rest[-1][0] == "f" and all(e[0] in ("f", "v") for e in rest):
                    fld = rest[-1][1]
                    env[sup] = ("e", base[1], base[2], tuple(sorted([(k2, x) for k2, x in base[3] if k2 != fld] + [(fld, val)])))
                    return
                del env[sup]
        if val == U:
            env.pop(key, None)
        else:
            env[key] = val

    def _addr_taken(self, fn):
        c = getattr(self, "_at", None)
        if c is None:
            c = self._at = {}
        if fn.name not in c:
            s = set()
            for b, j, pl, rv, m in fn.assigns():
                if rv["k"] in ("ref", "rawptr"):
                    s.add(rv["place"]["l"])
            c[fn.name] = s
        return c[fn.name]

    # ---------------------------------------------------------------- operands / rvalues
    def operand(self, fr, op, fn):
        pl = op_place(op)
        if pl is not None:
            return self.read(fr, _key(pl), fn)
        if "fn" in op:
            return ("fnitem", op.get("fn"), str(op.get("full", op.get("fn"))))
        if "int" in op:
            ty = op.get("ty", "")
            try:
                n = int(op["int"])
            except (TypeError, ValueError):
                return U
            if ty == "bool":
                return T if n else Fv
            return ("i", n)
        return U

    def rvalue(self, fr, rv, fn, dest_ty):
        k = rv["k"]
        if k == "use":
            return self.operand(fr, rv["ops"][0], fn)
        if k == "ref":
            key = _key(rv["place"])
            # &*r  is r itself
            if key[1] == ("*",):
                base = fr.env.get((key[0], ()))
                if base is not None and base[0] == "r":
                    return base
            if key[1] and key[1][0] == "*":
                base = fr.env.get((key[0], ()))
                if base is not None and base[0] == "r":
                    return ("r", (base[1][0], base[1][1] + key[1][1:]))
                return U
            return ("r", key)
        if k == "un":
            v = self.operand(fr, rv["ops"][0], fn)
            if rv["op"] == "Not" and rv.get("ty") == "bool":
                return b3_not(v)
            return U
        if k == "bin":
            a = self.operand(fr, rv["ops"][0], fn)
            b = self.operand(fr, rv["ops"][1], fn)
            op = rv["op"]
            if a[0] == "sym" or b[0] == "sym":
                self.records.append((op.replace("WithOverflow", ""), rv.get("ty"), a, b, fn.name))
                return U
            if rv.get("ty") == "bool":
                if op == "BitAnd":
                    return b3_and(a, b)
                if op == "BitOr":
                    return b3_or(a, b)
                if a[0] == "b" and b[0] == "b":
                    if op == "Eq":
                        return T if a == b else Fv
                    if op in ("Ne", "BitXor"):
                        return T if a != b else Fv
                return U
            if a[0] == "i" and b[0] == "i":
                x, y = a[1], b[1]
                r = {"Eq": x == y, "Ne": x != y, "Lt": x < y, "Le": x <= y, "Gt": x > y, "Ge": x >= y}.get(op)
                if r is not None:
                    return T if r else Fv
            return U
        if k == "cast":
            v = self.operand(fr, rv["ops"][0], fn)
            if v[0] == "b" and rv.get("from") == "bool":
                return ("i", 1 if v[1] else 0)
            if v[0] == "i":
                return v
            if v[0] in ("r", "c", "it", "fnitem", "sym"):
                return v
            return U
        if k == "discr":
            v = self.read(fr, _key(rv["place"]), fn)
            if v[0] == "e":
                return ("d", rv.get("adt"), v[2])
            return ("d", rv.get("adt"), None)
        if k == "agg":
            ops = [self.operand(fr, o, fn) for o in rv["ops"]]
            adt = rv.get("adt")
            if adt == "{closure}":
                return ("c", rv["closure"], tuple(ops))
            if adt == "[array]":
                return U
            names = rv.get("fields") or []
            fields = []
            for i, v in enumerate(ops):
                fields.append((str(i), v))
                if i < len(names) and names[i] != str(i):
                    fields.append((names[i], v))
            return ("e", adt, rv.get("variant"), tuple(sorted(fields)))
        return U

    # ---------------------------------------------------------------- running a body
    def run(self, fn, args, fired=False, depth=None, init=None):
        """args: list of values for locals 1..n; init: {(local, proj): value} for places behind pointer parameters.
        Returns a set of (fired, return value, places written through parameter refs)"""
        if depth is not None:
            self.depth = depth
        fr0 = Frame(init)
        for i, v in enumerate(args):
            if v != U:
                fr0.env[(i + 1, ())] = v
        return self._run_from(fn, fr0, fired)

    def _outs(self, fr, fn):
        """what the frame leaves behind through references it was given (places reached through parameter references)"""
        out = []
        for (l, proj), v in fr.env.items():
            if 1 <= l <= fn.nargs and proj and proj[0] == "*":
                out.append(((l, proj), v))
        return frozenset(out)

    def _switch(self, fr, t, fn):
        v = self.operand(fr, t["on"], fn)
        targets = t["targets"]
        if v[0] == "d":
            if v[2] is not None:
                for x in targets:
                    if x.get("variant") == v[2]:
                        return [x["t"]]
                return [t["otherwise"]]
        elif v[0] == "b":
            want = "1" if v[1] else "0"
            for x in targets:
                if str(x["val"]) == want:
                    return [x["t"]]
            return [t["otherwise"]]
        elif v[0] == "i":
            for x in targets:
                if str(x["val"]) == str(v[1]):
                    return [x["t"]]
            return [t["otherwise"]]
        out = [x["t"] for x in targets]
        if t.get("otherwise") is not None:
            out.append(t["otherwise"])
        # an `otherwise` that is an unreachable block adds nothing
        return [x for x in dict.fromkeys(out) if fn.blocks[x]["term"]["k"] != "unreachable" or len(out) == 1]

    # ---------------------------------------------------------------- calls
    def _kill_mut_args(self, fr, t, fn):
        """an unmodelled callee may write through the &mut references it is given"""
        f2 = Frame(fr.env)
        for a in t["args"]:
            pl = op_place(a)
            if pl is None:
                continue
            ty = fn.local_ty(pl["l"]) if not pl["p"] else ""
            v = self.read(fr, _key(pl), fn)
            if v[0] == "r" and ty.startswith("&mut") or (v[0] == "r" and "mut " in ty[:12]):
                tl, tp = v[1]
                for k2 in list(f2.env):
                    if k2[0] == tl and k2[1][:len(tp)] == tp:
                        del f2.env[k2]
        return f2

    def _call(self, fn, b, t, fr, fd, depth):
        """yields (fired', value, frame')"""
        c = callee(t)
        args = [self.operand(fr, a, fn) for a in t["args"]]
        # ---- the forced site
        if self.site is not None and (fn.name, b) == self.site:
            f2 = self._kill_mut_args(fr, t, fn)
            out = []
            if not fd:
                out.append((True, self.forced, f2))
            out.append((fd, U, f2))
            return out
        if c in self.force_all:
            return [(fd, self.force_all[c], self._kill_mut_args(fr, t, fn))]
        short = c.split("::")[-1]
        # ---- process exit
        if c == "std::process::exit":
            self.exit_codes.append((fd, args[0] if args else U, fn.name, b))
            return []
        m = self._model(fn, b, t, c, short, args, fr, fd, depth)
        if m is not None:
            return m
        # ---- crate-local function with a body: evaluate it (bounded)
        if c in self.F.fns and depth > 0 and c not in self.opaque and not self.F.fns[c].derived and \
                (c.startswith("ucg::") or c.startswith("ucglib::") or c.startswith("<ucg")):
            cf = self.F.fns[c]
            if self.site is None or not self._reaches_site(c) or c != fn.name:
                # references into our frame cannot be followed into the callee: the pointee's current value goes along instead
                # (what the callee writes through a &mut is forgotten afterwards: _kill_mut_args)
                cargs = [a if a[0] not in ("r",) else U for a in args]
                cinit = {}
                for i_, a in enumerate(args):
                    if a[0] == "r":
                        pv = self.read(fr, a[1], fn)
                        if pv != U:
                            cinit[(i_ + 1, ("*",))] = pv
                            cargs[i_] = ("r", (i_ + 1, ("*",)))     # a reference whose pointee lives in the callee's own frame
                sub = self._sub(depth - 1)
                try:
                    res = sub.run(cf, cargs, fired=fd, init=cinit)
                except RecursionError:
                    res = None
                self._merge(sub)
                if res is not None:
                    f2 = self._kill_mut_args(fr, t, fn)
                    vals = {(r[0], r[1]) for r in res}
                    if not vals:
                        return []      # never returns
                    return [(f1, v, f2) for f1, v in vals]
        # ---- unknown callee
        if not _is_sink(c) and (self._carries_site(args) or (self.tainted_by is not None and self.tainted_by(fn, b, t))):
            self.lossy.append((fn.name, b, c))
        return [(fd, U, self._kill_mut_args(fr, t, fn))]

    def _reaches_site(self, c):
        return self.site is not None and c == self.site[0]

    def _sub(self, depth):
        sub = type(self)(self.F, site=self.site, forced=self.forced, depth=depth, tainted_by=self.tainted_by, force_all=self.force_all,
                         opaque=self.opaque, watch=self.watch)
        sub.states = self.states
        if hasattr(self, "watch_calls"):
            sub.watch_calls = self.watch_calls
        return sub

    def _merge(self, sub):
        self.states = sub.states
        self.exit_codes += sub.exit_codes
        self.lossy += sub.lossy
        self.visited |= sub.visited
        self.visited_fired |= sub.visited_fired
        self.records += sub.records

    def _carries_site(self, vals):
        """does a value handed to an unmodelled function contain a closure that is / contains the site (or is watched)?"""
        for v in vals:
            if v[0] == "c":
                if (self.site is not None and v[1] == self.site[0]) or v[1] in self.watch or self._carries_site(v[2]):
                    return True
            elif v[0] == "fnitem":
                if v[1] in self.opaque or v[1] in self.force_all:
                    return True
            elif v[0] == "it":
                for st in v[1]:
                    if st[0] == "map" and self._carries_site([st[1]]):
                        return True
            elif v[0] == "e":
                if self._carries_site([x for k, x in v[3]]):
                    return True
        return False

    def apply_closure(self, clo, cargs, fr, fd, depth, parent):
        """evaluate a closure value on argument values: yields (fired', value).  Captured references are resolved against the
        defining frame `fr` by copying the referenced values in (read-only closures)."""
        if clo[0] != "c" or clo[1] not in self.F.fns:
            return None
        cf = self.F.fns[clo[1]]
        caps = []
        for v in clo[2]:
            if v[0] == "r":
                caps.append(self.read(fr, v[1], parent))
            else:
                caps.append(v)
        env_val = ("e", "{closure}", None, tuple((str(i), v) for i, v in enumerate(caps)))
        out = set()
        if self.site is not None and self.site[0] == clo[1] and self.site[1] is None:
            # the closure as a whole is the site
            if not fd:
                out.add((True, self.forced))
            out.add((fd, U))
            return out
        if depth <= 0:
            return None
        sub = self._sub(depth - 1)
        # arguments that are references into the calling frame: the pointee's value goes along (as for evaluated functions)
        cargs2, pointees = [], {}
        for i_, a in enumerate(cargs):
            if a[0] == "r":
                pv = self.read(fr, a[1], parent)
                if pv != U:
                    pointees[i_] = pv
                    cargs2.append(("r", (i_ + 2, ("*",))))      # a reference whose pointee lives in the closure's own frame
                else:
                    cargs2.append(U)
            else:
                cargs2.append(a)
        res = sub.run_closure(cf, env_val, cargs2, fd, pointees)
        self._merge(sub)
        for nfd, v, _ in res:
            out.add((nfd, v))
        return out

    def run_closure(self, cf, env_val, cargs, fired, pointees=None):
        # `&self` closures: local 1 is a reference to the environment; emulate by storing the aggregate under (1, ("*",)) too
        fr0 = Frame()
        fr0.env[(1, ())] = env_val
        for i, v in enumerate(cargs):
            if v != U:
                fr0.env[(i + 2, ())] = v
        for i, pv in (pointees or {}).items():
            fr0.env[(i + 2, ("*",))] = pv
        return self._run_from(cf, fr0, fired)

    def _run_from(self, fn, fr0, fired):
        # same loop as run() but from a prepared frame
        saved = Frame(fr0.env)
        results = set()
        seen = set()
        work = [(0, saved, fired)]
        while work:
            b, fr, fd = work.pop()
            sig = (b, fr.freeze(), fd)
            if sig in seen:
                continue
            seen.add(sig)
            self.states += 1
            if self.states > self.MAX_STATES:
                raise Lossy("state space of %s too large" % fn.name)
            blk = fn.blocks[b]
            if blk["cleanup"]:
                continue
            self.visited.add((fn.name, b))
            if fd:
                self.visited_fired.add((fn.name, b))
            fr = Frame(fr.env)
            for st in blk["stmts"]:
                if st[0] != "assign":
                    continue
                v = self.rvalue(fr, st[2], fn, None)
                self.write(fr, _key(st[1]), v, fn)
            t = blk["term"]
            k = t["k"]
            if k in ("goto", "drop", "assert"):
                work.append((t["t"], fr, fd))
            elif k == "return":
                results.add((fd, self.read(fr, (0, ()), fn), self._outs(fr, fn)))
            elif k == "switch":
                for tb in self._switch(fr, t, fn):
                    work.append((tb, fr, fd))
            elif k == "call":
                for nfd, val, nfr in self._call(fn, b, t, fr, fd, self.depth):
                    if t.get("t") is None:
                        continue
                    f2 = Frame(nfr.env)
                    self.write(f2, _key(t["dest"]), val, fn)
                    work.append((t["t"], f2, nfd))
        return results

    # ---------------------------------------------------------------- models of library functions
    def _deref(self, v, fr, fn):
        n = 0
        while v[0] == "r" and n < 4:
            v = self.read(fr, v[1], fn)
            n += 1
        return v

    def _model(self, fn, b, t, c, short, args, fr, fd, depth):
        A = [self._deref(a, fr, fn) for a in args]
        one = lambda v: [(fd, v, fr)]
        # ---- Result / Option plumbing
        if c.startswith("core::result::Result::") or c.startswith("core::option::Option::"):
            r = A[0] if A else U
            var = r[2] if r[0] == "e" else None
            good = "Ok" if "result" in c else "Some"
            bad = "Err" if "result" in c else "None"
            if short in ("is_ok", "is_some"):
                return one(T if var == good else Fv if var == bad else U)
            if short in ("is_err", "is_none"):
                return one(T if var == bad else Fv if var == good else U)
            if short in ("unwrap", "expect", "unwrap_unchecked"):
                if var == bad:
                    return []
                return one(field_of(r, "0") if var == good else U)
            if short == "unwrap_or":
                d = A[1] if len(A) > 1 else U
                if var == good:
                    return one(field_of(r, "0"))
                if var == bad:
                    return one(d)
                return [(fd, field_of(r, "0") if r[0] == "e" else U, fr), (fd, d, fr)] if d != U else one(U)
            if short == "unwrap_or_default":
                dest_ty = fn.local_ty(t["dest"]["l"]) if not t["dest"]["p"] else ""
                d = Fv if dest_ty == "bool" else U
                if var == good:
                    return one(field_of(r, "0"))
                if var == bad:
                    return one(d)
                return [(fd, U, fr), (fd, d, fr)] if d != U else one(U)
            if short in ("ok",):
                if var == "Ok":
                    return one(enum(OPTION, "Some", field_of(r, "0")))
                if var == "Err":
                    return one(enum(OPTION, "None"))
                return one(U)
            if short == "map_err" and var is not None:
                if var == good:
                    return one(r)
                return one(enum(RESULT if "result" in c else OPTION, bad, U))
            if short == "or_else":
                if var == good:
                    return one(r)
                clo = args[-1]
                res = self.apply_closure(clo, [field_of(r, "0")] if "result" in c else [], fr, fd, depth, fn) if clo[0] == "c" else None
                if res is None:
                    return None
                outs = [(nfd, v, fr) for nfd, v in res]
                if var is None:
                    outs.append((fd, enum(RESULT if "result" in c else OPTION, good, U), fr))
                return outs
            if short in ("map_err",):
                # unknown result: Ok keeps its payload, Err stays Err
                return [(fd, ok_(U), fr), (fd, err_(), fr)]
            if short in ("as_ref", "as_mut", "as_deref", "copied", "cloned"):
                return one(r)
            if short in ("unwrap_or_else", "map", "and_then", "map_or", "map_or_else", "is_ok_and", "is_some_and"):
                clo = args[-1]
                if short == "unwrap_or_else":
                    if var == good:
                        return one(field_of(r, "0"))
                    res = self.apply_closure(clo, [field_of(r, "0") if var == bad else U], fr, fd, depth, fn) if clo[0] == "c" else None
                    if res is None:
                        return None
                    outs = [(nfd, v, fr) for nfd, v in res]
                    if var is None:
                        outs.append((fd, U, fr))
                    return outs
                if short in ("map", "and_then"):
                    if var == bad:
                        return one(r)
                    if clo[0] != "c":
                        return None
                    res = self.apply_closure(clo, [field_of(r, "0") if r[0] == "e" else U], fr, fd, depth, fn)
                    if res is None:
                        return None
                    outs = []
                    for nfd, v in res:
                        outs.append((nfd, enum(r[1] if r[0] == "e" else (RESULT if "result" in c else OPTION), good, v) if short == "map" else v, fr))
                    if var is None:
                        outs.append((fd, enum(RESULT if "result" in c else OPTION, bad, U), fr))
                    return outs
                if short in ("is_ok_and", "is_some_and"):
                    if var == bad:
                        return one(Fv)
                    if clo[0] != "c":
                        return None
                    res = self.apply_closure(clo, [field_of(r, "0") if r[0] == "e" else U], fr, fd, depth, fn)
                    if res is None:
                        return None
                    outs = [(nfd, v, fr) for nfd, v in res]
                    if var is None:
                        outs.append((fd, Fv, fr))
                    return outs
                if short == "map_or":
                    d = A[1] if len(A) > 1 else U
                    if var == bad:
                        return one(d)
                    if clo[0] != "c":
                        return None
                    res = self.apply_closure(clo, [field_of(r, "0") if r[0] == "e" else U], fr, fd, depth, fn)
                    if res is None:
                        return None
                    outs = [(nfd, v, fr) for nfd, v in res]
                    if var is None:
                        outs.append((fd, d, fr))
                    return outs
                return None
        # ---- a closure called directly: Fn::call(&clo, (args,))
        if c.startswith("core::ops::function::Fn") and short in ("call", "call_mut", "call_once") and len(args) == 2:
            clo = A[0]
            tup = A[1]
            if clo[0] == "c" and tup[0] == "e":
                n = len([k for k, x in tup[3] if k.isdigit()])
                cargs = [field_of(tup, str(i)) for i in range(n)]
                res = self.apply_closure(clo, cargs, fr, fd, depth, fn)
                if res is not None:
                    return [(nfd, v, fr) for nfd, v in res]
            return None
        # ---- `?`
        if short == "branch" and "Try" in c:
            r = A[0] if A else U
            if r[0] == "e" and r[2] in ("Ok", "Some"):
                return one(enum(CFLOW, "Continue", field_of(r, "0")))
            if r[0] == "e" and r[2] in ("Err", "None"):
                return one(enum(CFLOW, "Break", r))
            return [(fd, enum(CFLOW, "Continue", U), fr), (fd, enum(CFLOW, "Break", enum(RESULT, "Err", U)), fr)]
        if short == "from_residual":
            dty = fn.local_ty(t["dest"]["l"]) if not t["dest"]["p"] else ""
            if dty.startswith(OPTION):
                return one(enum(OPTION, "None"))
            return one(err_())
        if short == "from_output" and "Try" in c:
            dty = fn.local_ty(t["dest"]["l"]) if not t["dest"]["p"] else ""
            return one(enum(OPTION if dty.startswith(OPTION) else RESULT, "Some" if dty.startswith(OPTION) else "Ok", A[0] if A else U))
        # ---- identity-like
        if short in ("clone", "deref", "deref_mut", "borrow", "as_ref", "to_owned", "into_iter", "iter", "iter_mut", "by_ref", "rev", "copied",
                     "cloned", "peekable", "fuse", "into", "from") and len(args) == 1:
            v = A[0] if short in ("clone", "to_owned", "copied", "cloned") else args[0]
            if short in ("into", "from") and v[0] not in ("b", "i", "e"):
                return None
            if short in ("into_iter", "iter", "iter_mut") and self._deref(v, fr, fn)[0] != "it":
                return one(("it", (("src",),)))
            if short in ("into_iter", "iter", "by_ref", "rev", "peekable", "fuse", "copied", "cloned", "iter_mut"):
                return one(self._deref(v, fr, fn))
            return one(v)
        if short == "is_empty" and A and A[0][0] == "e" and A[0][1] == COLLECTION:
            return one(T if A[0][2] == "Empty" else Fv if A[0][2] == "NonEmpty" else U)
        if short == "len" and A and A[0][0] == "e" and A[0][1] == COLLECTION:
            if A[0][2] == "Empty":
                return one(("i", 0))
            self.lossy.append((fn.name, b, c))      # how many were kept is not tracked
            return one(U)
        # ---- bool operators through references
        if "::BitAnd" in c and short == "bitand":
            return one(b3_and(A[0], A[1]))
        if "::BitOr" in c and short == "bitor":
            return one(b3_or(A[0], A[1]))
        if "::Not" in c and short == "not":
            return one(b3_not(A[0]))
        if short == "then_some" and "bool" in c:
            v = A[0]
            if v == T:
                return one(enum(OPTION, "Some", A[1]))
            if v == Fv:
                return one(enum(OPTION, "None"))
            return [(fd, enum(OPTION, "Some", A[1]), fr), (fd, enum(OPTION, "None"), fr)]
        # ---- iterator pipelines
        if "Iterator::" in c or "iterator::Iterator" in c or c.startswith("core::iter::"):
            it = A[0] if A else U
            if it[0] != "it":
                it = ("it", (("src",),))
            if short == "map":
                return one(("it", it[1] + (("map", args[1], self._snapshot(args[1], fr, fn)),)))
            if short in ("filter", "skip", "take", "step_by", "chain", "inspect", "skip_while", "take_while", "filter_map", "flat_map", "flatten",
                         "enumerate", "zip"):
                if short in ("inspect",):
                    return one(it)
                if short == "filter" and len(args) > 1 and args[1][0] == "c":
                    return one(("it", it[1] + (("filter", args[1], self._snapshot(args[1], fr, fn)),)))
                return one(("it", it[1] + ((short,),)))
            if short == "next":
                # pull one element: Some(elem) or None; an element a filter drops means pulling again
                outs = set()
                states, seen = {fd}, set()
                while states:
                    f1 = states.pop()
                    if f1 in seen:
                        continue
                    seen.add(f1)
                    outs.add((f1, enum(OPTION, "None")))
                    el = self._pull(it, fr, f1, depth, fn)
                    if el is None:
                        return None
                    for nfd, v in el:
                        if v == SKIP:
                            states.add(nfd)
                        else:
                            outs.add((nfd, enum(OPTION, "Some", v)))
                return [(f1, v, fr) for f1, v in outs]
            if short in ("collect", "count") and len(args) == 1:
                # what is kept of a collection: whether anything went into it
                done = set()
                states, seen = {(fd, False)}, set()
                while states:
                    st_ = states.pop()
                    if st_ in seen:
                        continue
                    seen.add(st_)
                    f1, some = st_
                    done.add((f1, ("e", COLLECTION, "NonEmpty" if some else "Empty", ())))
                    el = self._pull(it, fr, f1, depth, fn)
                    if el is None:
                        return None
                    for nfd, v in el:
                        states.add((nfd, some if v == SKIP else True))
                if short == "count":
                    return [(f1, ("i", 0) if v[2] == "Empty" else U, fr) for f1, v in done]
                return [(f1, v, fr) for f1, v in done]
            if short in ("fold", "all", "any", "for_each", "try_fold"):
                return self._consume(short, it, args, A, fr, fd, depth, fn)
            return None
        return None

    def _snapshot(self, clo, fr, fn):
        """captured references resolved when the closure is attached (the frame may change later; read-only captures)"""
        if clo[0] != "c":
            return ()
        return tuple(self.read(fr, v[1], fn) if v[0] == "r" else v for v in clo[2])

    def _pull(self, it, fr, fd, depth, fn):
        """possible (fired', element) for one element of the pipeline, None if a stage is not modelled"""
        if it[1] and it[1][0] == ("src_empty",):
            return set()         # a source known to be empty: nothing comes out, whatever the stages are
        cur = {(fd, U)}
        for st in it[1]:
            if st[0] == "src":
                continue
            if st[0] == "map":
                clo = st[1]
                if clo[0] == "fnitem" and clo[1] not in self.opaque and clo[1] not in self.force_all:
                    cur = {(f1, U) for f1, v in cur}      # a plain function over the elements: nothing about a verdict
                    continue
                if clo[0] != "c":
                    return None
                clo2 = ("c", clo[1], st[2])
                nxt = set()
                for f1, v in cur:
                    if v == SKIP:
                        nxt.add((f1, v))
                        continue
                    res = self.apply_closure(clo2, [v], fr, f1, depth, fn)
                    if res is None:
                        return None
                    nxt |= set(res)
                cur = nxt
            elif st[0] == "filter" and len(st) == 3:
                clo2 = ("c", st[1][1], st[2])
                nxt = set()
                for f1, v in cur:
                    if v == SKIP:
                        nxt.add((f1, v))
                        continue
                    res = self.apply_closure(clo2, [v], fr, f1, depth, fn)
                    if res is None:
                        return None
                    for f2, keep in res:
                        if keep != Fv:
                            nxt.add((f2, v))
                        if keep != T:
                            nxt.add((f2, SKIP))
                cur = nxt
            else:
                # a stage that can drop or reshape elements
                return None
        return cur

    def _consume(self, short, it, args, A, fr, fd, depth, fn):
        if short == "fold":
            init, f = A[1], args[2]
        elif short == "try_fold":
            return None
        else:
            init, f = None, args[1]
        if f[0] != "c":
            return None
        f = ("c", f[1], self._snapshot(f, fr, fn))
        outs = set()
        if short == "fold":
            states = {(fd, init)}
            seen = set()
            while states:
                s = states.pop()
                if s in seen:
                    continue
                seen.add(s)
                f1, acc = s
                el = self._pull(it, fr, f1, depth, fn)
                if el is None:
                    return None
                for f2, v in el:
                    if v == SKIP:
                        states.add((f2, acc))
                        continue
                    res = self.apply_closure(f, [acc, v], fr, f2, depth, fn)
                    if res is None:
                        return None
                    for f3, nv in res:
                        states.add((f3, nv))
            return [(f1, acc, fr) for f1, acc in seen]
        if short in ("all", "any"):
            stop = Fv if short == "all" else T
            done = set()
            states = {fd}
            seen = set()
            while states:
                f1 = states.pop()
                if f1 in seen:
                    continue
                seen.add(f1)
                done.add((f1, b3_not(stop)))          # the iterator ends here
                el = self._pull(it, fr, f1, depth, fn)
                if el is None:
                    return None
                for f2, v in el:
                    if v == SKIP:
                        states.add(f2)
                        continue
                    res = self.apply_closure(f, [v], fr, f2, depth, fn)
                    if res is None:
                        return None
                    for f3, rv in res:
                        if rv == stop or rv == U:
                            done.add((f3, stop))
                        if rv != stop:
                            states.add(f3)
            return [(f1, v, fr) for f1, v in done]
        return None
