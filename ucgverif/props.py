"""property -> rules; texts used in the evidence files"""
import importlib

PROPS = {
    "C13": {
        "module": "c13",
        "explanation": "Static rules over the type-checked MIR of the `ucg` binary and of ucglib decide the structural "
                       "necessary conditions of C13: no false verdict is dropped between do_validate/do_compile/visit_ucg_files "
                       "and the exit status (R57), the assertion collector shared through the Environment is re-initialised "
                       "per file (R58), every path through the assert hook records a result with the right polarity (R59), and "
                       "verdict polarity / exit(1) wiring (R60). Not decided: the printed text.",
        "assumptions": ["rustc MIR construction and callee resolution (Instance::try_resolve)",
                        "panicking paths are not normal exits (covered by C04)"],
    },
}


def rules_for(pid):
    mod = importlib.import_module("ucgverif.rules." + PROPS[pid]["module"])
    return mod.RULES
