"""property -> rules; texts used in the evidence files"""
import importlib

PROPS = {
    "C13": {
        "module": "c13",
        "technique": "static analysis: three-valued abstract interpretation of MIR bodies (verdict plumbing), CFG must-pass rules, who-may-write",
        "explanation": "Static rules over the type-checked MIR of the `ucg` binary and of ucglib decide the structural "
                       "necessary conditions of C13: no false verdict is dropped between do_validate/do_compile/visit_ucg_files "
                       "and the exit status (R57), the assertion collector shared through the Environment is re-initialised "
                       "per file (R58), every path through the assert hook records a result with the right polarity (R59), and "
                       "verdict polarity / exit(1) wiring (R60). Not decided: the printed text. Added later: R57 Err edges, R58e (build evaluates the file). Third session: R57, R60 and the collector half of R59 are decided by three-valued abstract interpretation of the MIR (ucgverif/absint.py): one result is forced negative on one visit and the caller's outcomes on every path that saw it must be negative (sticky), verdict-carrying wrappers and closures are discovered, iterator adaptors and `?` are modelled, an unmodelled sink of the value gives `cannot decide`; R59's hook half runs on the flat view (private helpers spliced in). R57 also: inside the collector's statement loop every path on which an assertion was negative passes the bookkeeping that records it (evaluated, visited-after-fired). R60s (syntax tree of main.rs): wherever a PASS text and a FAIL text are chosen between, the condition is the validation of that file itself, not an accumulated flag.",
        "assumptions": ["rustc MIR construction and callee resolution (Instance::try_resolve)",
                        "panicking paths are not normal exits (covered by C04)"],
    },
    "C14": {
        "module": "c14",
        "explanation": "Path rules on Builtins::out / Builtins::convert decide: the artifact is created only after the converter "
                       "returned successfully (R49, all-or-nothing), the one-out-per-file lock is tested before it is taken and "
                       "guards every conversion/creation (R50), the created path is <source>.with_extension(file_ext()) of the "
                       "selected converter (R51), `out` and `convert` run the same registry converter on the same popped value "
                       "and do not post-process the bytes (R52); the registry/extension table is enumerated (R87b). "
                       "Not decided: byte equality as a value, I/O faults during write_all. Added later: R49t, R49w (a successful out writes unless the whole old file is identical), R50r (who may release the out lock), R48k (lock keys agree), R51s (no symlink resolution in the artifact path).",
        "assumptions": ["std::fs::File::create / OpenOptions / fs::write are the only ways the hook creates files",
                        "a partially failed write_all (I/O fault) is outside the property's quantifier"],
    },
    "C16": {
        "module": "c16",
        "explanation": "Who-may-write analysis over every field of the Environment shared by all files of one invocation (R48, "
                       "exhaustive over the struct's fields, fail closed on new mutable fields): each is immutable after "
                       "construction, a write-only sink, a memo cache or reset on every path from a per-file entry "
                       "(FileBuilder::build, Builtins::import) to the file's evaluation; the memo discipline of the op, value "
                       "and shape caches is checked on the CFG (R48m: insert only on the vacant/miss edge after success, never "
                       "shrunk); R57 (verdict propagation) covers `build -r`. Not decided: byte equality of artifacts; "
                       "positions stored inside cached import shapes. Added later: R48k (the three out-lock functions and the import hook's call sites agree on the key). R26l (shared with C09): inside the link loop only 'already linked in this walk' may skip loading a link - no question put to a cache that all files of the invocation share. R68 (shared with C09): the checker of an imported file works in that file's own directory, so the shape cached for it does not depend on which file imported it first.",
        "assumptions": ["state that outlives a file lives in Environment (statics: only the reserved-word LazyLock, immutable)",
                        "the repl is outside the property's quantifier"],
    },
    "C15": {
        "module": "c15",
        "explanation": "Path and provenance rules on Builtins::include and the importers: every typed include passes "
                       "Importer::import before pushing a value (R53), the importer is fed from a byte-preserving read (R54), "
                       "unknown type / decoder error end in a build error and `include str` pushes the text unchanged (R55), "
                       "as_i64 precedes the float fallback in the json/yaml importers and toml Integer -> Int (R56), the "
                       "importer registry and the two base64 alphabets are enumerated (R87). Not decided: the decoders "
                       "themselves (serde_json, serde_yaml, toml, base64). Added later: R56 on provenance (Int payload never through the f64 view), R55w (decode to the end of the input).",
        "assumptions": ["serde_json/serde_yaml/toml/base64 decode and encode correctly"],
    },
    "C18": {
        "module": "c18",
        "explanation": "Translator/VM wiring rules: a bare word after `.` is lowered to a string index, never a DeRef, and op_index "
                       "never consults bindings (R43); no formatting argument of the missing-selector diagnostic derives from the "
                       "container operand other than through Value::type_name (R44, provenance over MIR); Index passes !strict, "
                       "SafeIndex true, the safe edge yields NULL and the strict edge an error (R45); std::env::vars is read once "
                       "in main and flows only into the Environment, env_vars has no later writer, the env tuple is built from it "
                       "alone and a local symbol named env wins (R46); `env` aborts both binding forms in the parser (R47). "
                       "Not decided: the values of variables as strings (OS encoding). Added later: R45s (strictness handed down unchanged to every function that stores or forwards a strict flag). R46 also: the closure that turns std::env::vars() into the env tuple neither filters nor rewrites the pairs. R45s also: every struct literal with a `strict` field inside the evaluator fills it from a strict field or parameter.",
        "assumptions": ["Value::type_name returns a &'static str that names the kind only (checked: body has only constant arms)"],
    },
    "C10": {
        "module": "c10",
        "explanation": "Who-may-call / who-may-write and provenance rules: Stack::add has a single caller behind both guards "
                       "(R28, R29), the rebinding opcode BindOver is built only for the format `item` and the second bind of a "
                       "constraint statement and Bind/BindOver map to op_bind(true/false) (R30), closures carry a snapshot taken at "
                       "definition and calls are scoped with it alone, child scopes copy nothing back (R31), module bodies run in a "
                       "clean copy with only `mod` bound (R32), `env` and every tokenizer keyword are refused as binding names "
                       "(R47, R35 exhaustive over the keyword recognisers). Not decided: value equality of prefix runs. Added later: R29 follows the reserved-word test into the callers of binding_push.",
        "assumptions": ["Rc<Value> values are immutable once built (no interior mutability in Value: checked by R28's field inventory of Stack only)"],
    },
    "C09": {
        "module": "c09",
        "explanation": "R25 (exhaustive over the AST type graph): every child of every Statement/Expression/Value variant that can "
                       "hold an Expression is handed to a walk_* call of the generic Walker that drives the import-path rewriter "
                       "(children computed from the ADT facts, not listed). R26/R26c: ordering protocol of the runtime import hook "
                       "and of the checker's resolve_import on the CFG (normalise, cache, cycle test, in-progress mark before run, "
                       "cache after run). R27: std::env::current_dir unreachable from the import/include/translate/check paths "
                       "(call graph). R68: rewriter arms and provenance of its base directory. Not decided: filesystem behaviour, "
                       "equality of values across builds; format template expressions are parsed after the rewrite (noted). Added later: R25p, R26c normalised keys and child directory, R26l (link_ops), R26v (every nested VM run gets the import stack), R27n (normalize is total), R68 helper-aware with import-only std exemption and late-parsed format expressions. R26l also: inside the link loop only 'already linked in this walk' may skip loading a link. R68 also: the checker of an imported file works in that file's own directory (base:child-checker).",
        "assumptions": ["the parser never stores an import inside CallDef.funcref / CopyDef.selector (Value from a selector)"],
    },
    "C08": {
        "module": "c08",
        "explanation": "R22: provenance over MIR (every formatting argument of the env/flags/exec converters that derives from a "
                       "Val::Str payload does so only through a shell-escape helper, helpers treated as the only declassifiers) plus "
                       "syntax-level quoting context of each helper call and exact replacement tables of the helpers (R22h: backslash "
                       "first). R23: no success return inside any per-field/per-item loop. R24 (exhaustive over Val variants, "
                       "per-variant path analysis): the env converter never writes NAME= without value and newline; separators of all "
                       "writes. Not decided: what /bin/sh reconstructs (POSIX quoting rules are the trusted base); field names are "
                       "written raw (the property speaks of values). Added later: R22 also refuses any rewriting of the quoted text outside the helper. R24 also: every path through a field of the env converter that returns Ok has written the value after the name.",
        "assumptions": ["POSIX: inside '..' only ' is special and '\\'' yields it; inside \"..\" exactly \\ \" $ ` are special"],
    },
    "C03": {
        "module": "c03",
        "explanation": "R10: no lossy numeric cast between a Val number and the serializer (cast kinds from MIR + provenance). "
                       "R11 (exhaustive, 3 converters x 9 Val variants, per-variant path analysis): always-Err exactly for the "
                       "variants the format cannot represent, non-finite float -> Err in JSON. R64: every loop iteration adds the "
                       "element or fails the conversion; append-only forward iteration. R12: `---` before every yamlmulti document. "
                       "R70: no Val payload hand-formatted into the output. Not decided: that serde_json / serde_yaml / toml emit "
                       "valid text that an independent decoder reads back. Added later: R12b (the YAML text is exactly the serializer's document), R64 on iterator pipelines, R64v (value lowering keeps every field and element), R49t (artifact opened truncating). R11 also: every scalar kind of the lowered value is written by the converter arm of the same kind. R12c: the string the convert expression pushes is the decoded converter buffer, through conversions only (no trim / replace).",
        "assumptions": ["serde_json, serde_yaml and toml serialise their own value types correctly"],
    },
    "C12": {
        "module": "c12",
        "explanation": "R61: the raw writer is only given to xml-rs, all content goes through EventWriter::write / characters(). "
                       "R69: start/end element pairing on every successful path. R62: error table per Val variant and for missing "
                       "root, bad version, name+text. R90: namespace and version tables. R63: NULL parts are skipped before any "
                       "getter / attr(). Not decided: escaping, namespace prefixing and indentation behaviour of xml-rs; equality "
                       "of the re-parsed tree; a root tuple without name and text writes nothing (noted in DESIGN.md). Added later: R62 name-and-text decided path-sensitively, R69v (strings verbatim), R63e (is_empty true for NULL only). R61t (round 6): the text string goes from get_str_val to characters() with no str method applied to it (presence depends on NULL only). R61 also: a bare string child reaches the writer as text; R90 also: the element name written does not depend on whether a namespace was given.",
        "assumptions": ["xml-rs escapes markup-significant characters in characters() and attribute values"],
    },
    "C02": {
        "module": "c02",
        "explanation": "R5 (exhaustive, 18 rows): BinaryExprType::precedence_level (constants read from MIR) equals the reference "
                       "table in expressions.md, operator spellings mapped through the parser's own recognisers. R6: the two "
                       "comparisons of the precedence-climbing loop (>= against the minimum, strict > against the current operator), "
                       "their polarity, the recursive minimum and the start level. R7: no branch on operands. R8 (exhaustive): printer "
                       "and parser operator tables are inverse. R9 (exhaustive): the five classifiers partition the 18 operators. "
                       "With these the grouping function is fixed up to the correctness of the textbook climbing loop; parenthesised "
                       "groups are Grouped operands (R7). Added later: R6o (every operand of a chain is parsed with non_op_expression); R6 follows a level hoisted into a local.",
        "assumptions": ["the precedence-climbing algorithm itself (Dijkstra / Richards) is correct given the two comparisons"],
        "technique": "static analysis: table agreement (MIR constants vs reference document), comparison-operator rules on MIR",
    },
    "C11": {
        "module": "c11",
        "explanation": "R71 (exhaustive over the 1653 ordered pairs of the 58 recognisers `token` tries, order read from MIR, literals "
                       "from the unexpanded macros and cross-checked against MIR constants): no earlier recogniser matches a proper "
                       "prefix of a later one; the 11 multi-character operators of the property against their prefixes. R72: no "
                       "u8->char cast reaches token text. R73: every Token's pos comes from Position::from of an unconsumed clone of "
                       "the recogniser's input (59 sites). R74: WS/COMMENT never pushed to the output. R86 (exhaustive): escape table = "
                       "documented escapes. Not decided: column semantics for non-ASCII text (byte columns), token-stream equality "
                       "across layouts as a whole; keyword-like prefixes of words (`truex`, `NULLx`) are noted, not claimed. Added later: R74l (no parser function compares token positions). R72 also decides that a count of characters is never used as a byte offset; R72s: the text handed to the tokenizer is the text read from the file, unmodified. R73c: the fields of OffsetStrIter that take part in line() / column() are fixed at construction (a counter of its own without a reset at a line break is reported, one with a reset is refused).",
        "assumptions": ["abortable_parser's text_token! consumes exactly the literal it is given"],
    },
    "C06": {
        "module": "c06",
        "explanation": "R18: the four bound comparisons of ConstraintVal::check are >= against field 0 and <= against field 1 (read "
                       "from the MIR of the bound closures, operands identified by provenance), reached only for candidates of the "
                       "bound's type, all arms tried; the six ConstraintBound aggregates of op_build_constraint take field 0 from the "
                       "first and field 1 from the second consumed value, pop/next counts per arm type agree, the translator pushes "
                       "start before end. R19: CheckConstraint between value and Bind, failure is an error, Ok-without-check only on "
                       "the two listed paths, checker records a narrow TypeErr and a non-empty error stack stops the build. R20: named "
                       "constraints go through the same lowering and are expanded before comparison. R66: subset test in both "
                       "directions. Not decided: the shape-compatibility relation (narrow) itself; recursive constraints are outside "
                       "the property's quantifier. Added later: R66s (list subset false only from the element loop), R18e (equality compares lengths), R20m (memo hit needs exact equality), R19n (module nesting is counted); R19 reports the two unchecked bypasses (F35, F39 known). R66s also: a found-flag set by an inner loop and tested by the enclosing loop is cleared for every element (no stale flag).",
        "assumptions": ["Val::equal is structural equality (unit-tested)"],
    },
    "C07": {
        "module": "c07",
        "explanation": "At each dynamic-type dispatch the accept set of the VM is computed from the MIR of the hook (which kinds of "
                       "value have a non-error path) and the accept set of the checker from the MIR of the derive_* function (which "
                       "Shape variants have a path that does not return TypeErr), by per-variant path analysis; required: VM set "
                       "(mapped kind -> shape) is a subset of the checker set. R21a: map/filter/reduce targets; R21b: the forms the "
                       "translator lowers after `.` on a tuple / resolved import; R21c: copy bases and `not`. Not decided: "
                       "completeness of the checker in general (value-level rules of narrow, e.g. `[1] + [\"a\"]`). Added later: R21b for partly known left shapes, R21h (F33 known), R21p (with_pos preserves variant and kind of knowledge), R25p (visit/leave pairing). Third session: R21a/R21c also require partly known shapes (Hole, Narrowed[Any], Narrowed[candidates]) to pass every dispatch (F45 fixed); R21s parameters are layered over the enclosing scope in FuncDef::derive_shape (F42 fixed); R21d every result-carrying sub-expression (select branches and default, func body, module out) flows into the derived shape (F44 fixed); R21n a callee's open parameter shapes are not narrowed in the caller's table (F43 known). R21q: with one candidate's comparison forced to a fitting shape and the others unknown, narrow_cached builds no TypeErr (evaluated; one fitting candidate is enough). R21m: merge_in_shape drops an incoming select candidate only when Shape::equivalent (one-directional on tuples) holds both ways (F46). R21e: with is_empty() answering true, an empty candidate list on either side of narrow never reaches the candidate comparison (evaluated). R21f: with the target of map / filter / reduce forced to a shape of unknown kind and the callback a function of unknown arity, no TypeErr is built (evaluated). R19n (shared with C06): the checker counts its nesting into module expressions (a flag instead of a counter checks the rest of an outer module body at file level).",
        "assumptions": ["runtime kind -> Shape variant map of impl DeriveShape for Value (List->List, Tuple->Tuple, Str->Str)"],
    },
    "C17": {
        "module": "c17",
        "explanation": "R36: who-may-write on OpsMap.ops / OpsMap.pos (paired API only). R37: provenance of the position of every "
                       "emitted opcode (all OpsMap::push sites of the translator) from the AST parameter, no Position::new. R38: every "
                       "fcall_impl call site (callbacks of map/filter/reduce, ordinary calls) and the module body run record the "
                       "caller's position on the Err edge. R39: provenance of the position of every Error::new in vm.rs/runtime.rs "
                       "from an operand / parameter / op pointer; inventory of Position::new users. R92: line/column/offset wiring "
                       "from the input iterator through parser errors to the printed diagnostic. Not decided: that the reported line "
                       "lies inside the right statement for a given input; errors inside imported files. Added later: R38 frame-position and result-position provenance (also through a forwarding helper), R39c (checker mismatches are anchored where the operands meet). R39s: every VM::push in vm.rs / runtime.rs takes its position from a popped entry, the handler's pos parameter or the op pointer, never out of the position list stored inside a value (definition chain, stops at pop). R38 also: the result a functional operator (map / filter / reduce) pushes does not carry a position that came back from a callback.",
        "assumptions": ["abortable_parser's line()/column() count from the start of the input"],
    },
    "C01": {
        "module": "c01",
        "explanation": "Structural necessary conditions of compiled = definitional evaluation, each decided on every arm / handler: "
                       "R1 composes the push order of the translator (which AST side is translated when, per operator arm) with the "
                       "pop order and operand use of the VM handler (provenance from each pop to the slots of the machine operation) "
                       "against a 14-row semantic table; R1h the argument order of the map/filter/reduce callbacks, calls and format "
                       "placeholders; R2 opcode -> handler -> machine operation (exhaustive over the dispatch); R3 a linear-form "
                       "evaluation of every jump patch (idx = len_a - 1, offset = len_b - len_a) plus jump arithmetic and short-circuit "
                       "polarity in the VM; R4 exhaustive translation; R84 range bounds; R85 the `is` type-name table against the "
                       "reference. Not decided: values computed by arbitrary programs (that needs an independent evaluator, a dynamic "
                       "oracle). Added later: R3s (PushSelf/PopSelf bracket, unconditional push/pop), R3t (the translator compiles every child of every node on every path), R31 of C10 (scope snapshots). R3s also: the child VM that evaluates the @{..} parts of a format string is built with the parent's self stack. R2e: PartialEq for opcode::Value (behind Equal / NotEqual) compares the number of fields of two tuples before looking the fields up.",
        "assumptions": ["the semantic table (left - right, text ~ pattern, item in container, container . key) is the reference's"],
        "technique": "static analysis: provenance composition translator/VM over MIR, linear forms for jump offsets, table agreement",
    },
    "C04": {
        "module": "c04",
        "explanation": "R13: every panic-capable site (explicit panics, unwrap/expect, std APIs with a panicking precondition, overflow / "
                       "bounds / division assertions, integer operator impls) in every function reachable from the compiler's entry points "
                       "(call graph with trait expansion) is enumerated from MIR and discharged by a type class, a guard idiom decided on "
                       "the CFG (dominating is_some / is_empty / bounds tests, drain(0..), linear forms over OpsMap::len), another rule "
                       "(R97 for RefCell, R82 for parallel vectors, R83 for closed word sets and END) or a reviewed table entry with an "
                       "invariant class; a new site is unlisted and reported. R80: arity check dominating every callback call. R76/R77/R78: "
                       "structural termination of the grammar (nullable / first-set analysis of the extracted grammar), the tokenizer and "
                       "the VM dispatch (forward jumps only). Not decided: running time, stack depth as a function of nesting, user-level "
                       "recursion; the translator-stack class (no VM stack underflow) is an assumption premised on R80. Added later: R13p (printer indentation never underflows, by abstract interpretation), R81c (consistent net stack effect per VM handler), R98 (recursion through a name table is cut by an in-progress mark and threads one memo), R76x (re-parse multiplicity of bracketed constructs; reports F40).",
        "assumptions": ["translator-stack invariant: every opcode pops what the translator pushed before it (premised on R80, R4, R1; not proved)",
                        "panics inside dependencies on well-typed arguments are out of scope", "unwinding allocation failure is out of scope"],
        "technique": "static analysis: call-graph reachability + panic-site enumeration over MIR with CFG guard idioms; grammar nullability",
    },
    "C05": {
        "module": "c05",
        "explanation": "R14: per AST variant (19 expressions, 5 statements, tuple and list literals), the printer arm is interpreted "
                       "abstractly over every node shape (collections of 0..3 elements, Options both ways, every layout decision) and "
                       "the symbol sequences it writes are compared with the parser rule instantiated from the macro DSL together with "
                       "its binding->AST-field flow: whatever is written for a producible shape is accepted by the rule, and every "
                       "sentence form of the rule has a printed form carrying the same fields in the same order. R15: float literals keep "
                       "a decimal point. R16/R16m: a comment can only be consumed as a COMMENT token and tokenize moves every COMMENT into "
                       "the map. R17/R17b: escape sets of printer and tokenizer agree, quoted payloads go through escape_quotes, bare field "
                       "names are single barewords for the tokenizer. R79/R79t: pending comment groups are printed once, in key order, "
                       "flushed at the end, and a comment line's layout is decided on the text printed. R8: operator spellings. Not "
                       "decided: comment placement relative to nodes, blank-line policy, idempotence of layout for comments inside "
                       "expressions, numeric value of floats after Display. Added later: R15p (float literals are finite), R79m (a fresh comment map per file). R14w: the file `ucg fmt -w` rewrites is opened truncating (File::create or OpenOptions with truncate(true)).",
        "assumptions": ["sentence forms are bounded: collections up to 3 elements on both sides (the rules have no counting behaviour)",
                        "node shapes the parser cannot produce are outside the property (one table entry, re-verified against the grammar)",
                        "Display for f64 prints digits the tokenizer reads back to the same value (std property, not checked)"],
        "technique": "static analysis: abstract interpretation of the printer's syntax tree vs grammar extracted from the parser macros; MIR path rules",
    },
    "C20": {
        "module": "c20",
        "explanation": "R13L: the panic-site audit of C04 with the server's entry points (run_server, main_loop, handle_request, "
                       "handle_notification, analyze, the workspace index). R40: one Response on every Ok path of each of the five request "
                       "branches. R41: documents[uri] is replaced by analyze(content argument, workspace cache) and written by nothing "
                       "else; analyze cannot see the documents map. R42: analyze uses the compiler's tokenize and parse, exactly one "
                       "diagnostic per front-end error from the error's own position. R89: provenance of everything written into the "
                       "workspace cache. Not decided: range containment (UTF-16 vs byte columns), equality of diagnostics with a fresh "
                       "server as values, messages with malformed parameters (they end the server with an error, outside the quantifier). Added later: R41 for the workspace index (every update replaces the entry), R76x (F40 known). R89t: topo_sort_files marks a file visited when its stack entry is expanded, not when it is queued, and emits it when the entry comes back (necessary for dependencies to be analysed before their importers). R42p: if a record of the diagnostics last sent is kept, every place that builds a PublishDiagnosticsParams updates it (a send that bypasses the record leaves it ahead of the client).",
        "assumptions": ["lsp-server / lsp-types / serde_json do not panic on well-formed messages"],
    },
}


def rules_for(pid):
    mod = importlib.import_module("ucgverif.rules." + PROPS[pid]["module"])
    return mod.RULES
