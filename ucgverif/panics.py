"""R13 support: enumeration of panic-capable sites in the functions reachable from a set of entry points."""
from . import cfg, callgraph
from .facts import callee, op_local, op_place

PANIC_CALLS = ("core::panicking::", "std::rt::begin_panic", "std::panicking::", "core::option::unwrap_failed", "core::option::expect_failed",
               "core::result::unwrap_failed", "core::slice::index::slice_", "core::str::slice_error_fail", "alloc::raw_vec::capacity_overflow",
               "core::cell::panic_already")
UNWRAPS = ("core::option::Option::unwrap", "core::option::Option::expect", "core::result::Result::unwrap", "core::result::Result::expect",
           "core::result::Result::unwrap_err", "core::result::Result::expect_err")
PRECOND_SUFFIX = ("::index", "::index_mut")
PRECOND_EXACT = ("alloc::vec::Vec::remove", "alloc::vec::Vec::insert", "alloc::vec::Vec::swap_remove", "alloc::vec::Vec::drain", "alloc::vec::Vec::split_off",
                 "alloc::string::String::remove", "alloc::string::String::insert", "alloc::string::String::insert_str", "alloc::string::String::drain",
                 "core::cell::RefCell::borrow", "core::cell::RefCell::borrow_mut", "core::iter::traits::iterator::Iterator::step_by",
                 "core::slice::<impl [T]>::chunks", "core::slice::<impl [T]>::windows", "core::slice::<impl [T]>::copy_from_slice",
                 "core::slice::<impl [T]>::split_at", "core::str::<impl str>::split_at", "alloc::vec::Vec::truncate_front",
                 "core::slice::<impl [T]>::swap", "alloc::string::String::truncate", "alloc::string::String::replace_range",
                 "alloc::collections::vec_deque::VecDeque::remove")
INT_OPS = ("core::ops::arith::Add", "core::ops::arith::Sub", "core::ops::arith::Mul", "core::ops::arith::Div", "core::ops::arith::Rem",
           "core::ops::arith::Neg", "core::ops::bit::Shl", "core::ops::bit::Shr", "core::ops::arith::AddAssign", "core::ops::arith::SubAssign",
           "core::ops::arith::MulAssign", "core::ops::arith::DivAssign", "core::ops::arith::RemAssign")
INT_TYS = ("i8", "i16", "i32", "i64", "i128", "isize", "u8", "u16", "u32", "u64", "u128", "usize")


def is_int_op(c):
    """`<&i64 as core::ops::arith::Sub<&i64>>::sub` etc. on primitive integers (the assertion sits inside core)"""
    if not any(x in c for x in INT_OPS):
        return None
    if not c.startswith("<"):
        return None
    self_ty = c[1:].split(" as ")[0].replace("&", "").replace("mut ", "").strip()
    if self_ty in INT_TYS:
        return self_ty
    return None


def sites_of(fn):
    """[(kind, detail, bb, macro_name_or_None, message)] for one function (non-cleanup blocks)"""
    out = []
    for b, blk in enumerate(fn.blocks):
        if blk["cleanup"]:
            continue
        t = blk["term"]
        if t["k"] == "assert":
            if t["kind"] in ("Misaligned", "NullPtr"):
                continue
            out.append(("assert", "%s(%s %s)" % (t["kind"], t.get("op", ""), t.get("ty", "")) if t["kind"] == "Overflow" else "%s(%s)" % (t["kind"], t.get("ty", "")), b, None, ""))
        elif t["k"] == "call":
            c = callee(t)
            mac = (t.get("macros") or [None])
            msg = ""
            for a in t["args"]:
                if "str" in a:
                    msg = a["str"][:80]
            if c.startswith(PANIC_CALLS):
                # the explicit panic family; the macro that produced it names the intent
                m = [x for x in (t.get("macros") or []) if x in ("panic", "unreachable", "assert", "assert_eq", "assert_ne", "unimplemented", "todo", "debug_assert")]
                out.append(("panic", (m[0] + "!") if m else c.split("::")[-1], b, None, msg))
            elif c in UNWRAPS:
                out.append(("unwrap", c.split("::")[-2] + "::" + c.split("::")[-1], b, None, msg))
            elif c in PRECOND_EXACT or (c.endswith(PRECOND_SUFFIX) and ("Index" in c or "index::" in c)):
                out.append(("precond", c, b, None, ""))
            else:
                ty = is_int_op(c)
                if ty:
                    out.append(("intop", "%s:%s" % (c.split("core::ops::")[1].split("<")[0].split(">")[0], ty), b, None, ""))
    return out


def reachable_fns(F, entries):
    cg = callgraph.get(F)
    return cg.reachable_from(entries)
