"""Shared helpers for rules (built on A1/A2)."""
from . import cfg
from .facts import callee, op_place, op_local


def calls_to(fn, pred, include_cleanup=False):
    """[(bb, term)] for calls whose callee name satisfies pred (str -> bool) or equals/endswith a string"""
    if isinstance(pred, str):
        s = pred
        pred = lambda c: c == s or c.endswith("::" + s) or c.endswith(s)
    return [(b, t) for b, t in fn.calls(include_cleanup) if pred(callee(t))]


def copies_of(fn, local, allow_not=True):
    """locals that hold the value of `local` (copy/move chains), with polarity for bools:
    {local: +1 | -1}.  Flow-insensitive; a local assigned from anything else as well is dropped."""
    pol = {local: 1}
    changed = True
    while changed:
        changed = False
        for b, j, pl, rv, meta in fn.assigns():
            if pl["p"]:
                continue
            tgt = pl["l"]
            if tgt in pol:
                continue
            if rv["k"] == "use":
                src = op_place(rv["ops"][0])
                if src is not None and not src["p"] and src["l"] in pol:
                    pol[tgt] = pol[src["l"]]
                    changed = True
            elif allow_not and rv["k"] == "un" and rv["op"] == "Not":
                src = op_place(rv["ops"][0])
                if src is not None and not src["p"] and src["l"] in pol:
                    pol[tgt] = -pol[src["l"]]
                    changed = True
    return pol


def feeders_of(fn, local=0):
    """locals whose value is moved/copied (whole) into `local`, transitively: `_0 = move _7; _7 = move _31` -> {0, 7, 31}.
    The return value of a spliced helper reaches the caller's result this way."""
    out = {local}
    changed = True
    while changed:
        changed = False
        for b, j, pl, rv, meta in fn.assigns():
            if pl["p"] or pl["l"] not in out or rv["k"] != "use":
                continue
            src = op_place(rv["ops"][0])
            if src is not None and not src["p"] and src["l"] not in out:
                out.add(src["l"])
                changed = True
    return out


def result_blocks(fn, variant):
    """blocks that build the function's result as `variant` (Ok / Err): an aggregate assigned to the return place or to a local
    that is moved into it, and for Err also `?` (from_residual written to such a local)"""
    feed = feeders_of(fn, 0)
    out = set()
    for b, j, pl, rv, meta in fn.assigns():
        if pl["l"] in feed and not pl["p"] and rv["k"] == "agg" and rv.get("variant") == variant:
            out.add(b)
    if variant == "Err":
        for b, t in fn.calls():
            if callee(t).endswith("::from_residual") and t["dest"]["l"] in feed and not t["dest"]["p"]:
                out.add(b)
    return out


def bool_switches(fn, local):
    """[(bb, false_target, true_target)] for every switch deciding on the bool held in `local`"""
    pol = copies_of(fn, local)
    out = []
    for b, blk in enumerate(fn.blocks):
        if blk["cleanup"]:
            continue
        t = blk["term"]
        if t["k"] != "switch":
            continue
        l = op_local(t["on"])
        pl = op_place(t["on"])
        if l is None or pl["p"] or l not in pol:
            continue
        zero = None
        for x in t["targets"]:
            if x["val"] == "0":
                zero = x["t"]
        if zero is None:
            continue
        other = t["otherwise"]
        if pol[l] == 1:
            out.append((b, zero, other))
        else:
            out.append((b, other, zero))
    return out


def blocks_assigning_const(fn, local, value):
    """blocks with `local = const value` (value as string, e.g. '0' / '1')"""
    out = []
    for b, j, pl, rv, meta in fn.assigns():
        if pl["l"] == local and not pl["p"] and rv["k"] == "use":
            op = rv["ops"][0]
            if op.get("int") == str(value):
                out.append(b)
    return out


def exit_calls(fn):
    """[(bb, code or None)] for std::process::exit calls"""
    out = []
    for b, t in fn.calls():
        if callee(t) == "std::process::exit":
            a = t["args"][0]
            out.append((b, a.get("int")))
    return out


def normal_exits(fn):
    """return blocks plus process::exit call blocks"""
    return set(cfg.exits(fn)) | {b for b, _ in exit_calls(fn)}


def must_pass(fn, start, through, exits=None):
    """every path from block `start` to a normal exit passes through a block in `through`.
    `start` itself counts if it is in `through`."""
    through = set(through)
    if exits is None:
        exits = normal_exits(fn)
    exits = set(exits) - through
    if start in through:
        return True
    r = cfg.reachable(fn, start, removed=through)
    return not (r & exits)


def region(fn, start, stop):
    """blocks reachable from start without entering `stop`"""
    return cfg.reachable(fn, start, removed={stop} if stop is not None else ())


def ipdom(fn, b):
    p = cfg.post_idoms(fn)
    x = p.get(b)
    if x is None or x == len(fn.blocks):
        return None
    return x


def enum_switches(fn, local, enum=None):
    """switch terminators whose discriminant source place is rooted at `local` (through copies)"""
    pol = copies_of(fn, local, allow_not=False)
    out = []
    for b, blk in enumerate(fn.blocks):
        if blk["cleanup"]:
            continue
        t = blk["term"]
        if t["k"] == "switch" and "src" in t and t["src"]["l"] in pol:
            if enum is None or t.get("enum") == enum:
                out.append((b, t))
    return out


def fmt_where(fn, b=None):
    return fn.where(b)


def str_consts(fn):
    """every string literal mentioned in the body (statements and call arguments), in block order"""
    out = []
    for b, blk in enumerate(fn.blocks):
        if blk["cleanup"]:
            continue
        for st in blk["stmts"]:
            if st[0] == "assign":
                for op in st[2].get("ops", ()):
                    if "str" in op:
                        out.append(op["str"])
        t = blk["term"]
        for op in t.get("args", ()):
            if "str" in op:
                out.append(op["str"])
    return out


def is_std_callee(c):
    """the callee lives in core/alloc/std (including `<T as core::..>` trait forms)"""
    if " as core::" in c or " as alloc::" in c or " as std::" in c:
        return True
    return c.lstrip("<&").startswith(("core::", "alloc::", "std::"))


def need_parser_crate(F):
    from .core import need
    need(F.abortable_parser_version == "0.2.3",
         "abortable_parser %s: the variant summaries of its combinators (cfg.VARIANT_SUMMARIES) were read from 0.2.3" % F.abortable_parser_version)


def err_edges(fn, result_local):
    """blocks entered when the Result held in `result_local` is an Err: the Err edge of a direct match and/or the
    Break edge of `?` (Try::branch) applied to it"""
    out = []
    sws = enum_switches(fn, result_local)
    sws = [x for x in sws if x[1].get("enum") == "core::result::Result"]
    first = [x for x in sws if all(cfg.dominates(fn, x[0], y[0]) for y in sws)]
    for sb, st in first:
        out.append(cfg.switch_edge(st, variant="Err"))
    cps = copies_of(fn, result_local, allow_not=False)
    for b, t in fn.calls():
        if callee(t).endswith("Try>::branch") and op_local(t["args"][0]) in cps:
            for sb, st in enum_switches(fn, t["dest"]["l"]):
                if st.get("enum") == "core::ops::control_flow::ControlFlow":
                    out.append(cfg.switch_edge(st, variant="Break"))
    return out


def forwarders(F, target, prefix="ucglib::build::opcode::"):
    """{name: (fn, block of the inner call)} for small loop-free functions that hand their own parameters on to `target` once
    (a helper folded out of several call sites, e.g. `call_callback` around VM::fcall_impl)"""
    from .origins import Origins
    out = {}
    for n, fn in F.fns.items():
        if n == target or not n.startswith(prefix) or fn.derived or "{closure" in n:
            continue
        cs = [(b, t) for b, t in fn.calls() if callee(t) == target]
        if len(cs) != 1 or cfg.natural_loops(fn) or len(fn.blocks) > 60:
            continue
        b, t = cs[0]
        o = Origins(fn)
        params = [any(l[0] == "param" for l in o.at(a, b)) for a in t["args"] if "int" not in a and "str" not in a]
        if params and sum(params) >= max(2, len(params) - 1):
            out[n] = (fn, b)
    return out


def expanded_call_sites(F, CG, target):
    """call sites of target, a site inside a forwarder replaced by the call sites of the forwarder: [(caller, block, via)]"""
    fw = forwarders(F, target)
    out = []
    for n, b in CG.call_sites(target):
        if n in fw:
            for n2, b2 in CG.call_sites(n):
                out.append((n2, b2, n))
        else:
            out.append((n, b, None))
    return out



def derives_from_call(F, labels, target, depth=2):
    """the value may derive from a call of `target`: directly, or as the result of a crate function (a private helper) whose own
    result derives from it"""
    from .origins import Origins, calls_in
    cs = calls_in(labels)
    if any(c == target or c.endswith(target) for c in cs):
        return True
    if depth <= 0:
        return False
    for c in cs:
        if c in F.fns and (c.startswith("ucglib::") or c.startswith("ucg::") or c.startswith("<ucglib::")) and not F.fns[c].derived:
            if derives_from_call(F, Origins(F.fns[c]).of_local(0), target, depth - 1):
                return True
    return False



def stale_flags(fn):
    """[(local, names, outer header, inner header, test block)]: a bool flag that an inner loop sets to true and the enclosing
    loop tests after the inner loop, without being set back to false on every path from the outer header to the inner loop:
    from the second outer iteration on the test sees what an earlier iteration found"""
    loops = cfg.natural_loops(fn)
    out = []
    for oh, obody in loops.items():
        for ih, ibody in loops.items():
            if ih == oh or not (ibody < obody) or ih not in obody:
                continue
            sets_true = {}
            for b, j, pl, rv, m in fn.assigns():
                if b in ibody and not pl["p"] and fn.local_ty(pl["l"]) == "bool" and rv["k"] == "use" and rv["ops"][0].get("int") == "1":
                    sets_true.setdefault(pl["l"], []).append(b)
            for l, tb in sets_true.items():
                names = fn.var_names().get(l, set())
                if not names:
                    continue
                tests = [sb for sb, ft, tt in bool_switches(fn, l) if sb in obody and sb not in ibody]
                if not tests:
                    continue
                resets = {b for b, j, pl, rv, m in fn.assigns() if b in obody and b not in ibody and pl["l"] == l and not pl["p"]
                          and rv["k"] == "use" and rv["ops"][0].get("int") == "0"}
                # can the inner header be reached from the outer header (inside the outer body) without a reset?
                reach = cfg.reachable(fn, oh, removed=resets | (set(range(len(fn.blocks))) - obody))
                if ih in reach and oh not in resets:
                    out.append((l, sorted(names), oh, ih, tests[0]))
    return out


PASS_THROUGH = ("::clone", "::as_ref", "::deref", "::borrow", "::to_owned", "::into", "::from", "::as_path", "::to_path_buf",
                "::as_str", "::to_string", "::unwrap", "::expect", "::cloned", "::copied", "::as_mut", "::deref_mut")


def source_calls(fn, op, pass_through=PASS_THROUGH):
    """the calls a value comes from, read off its definition chain: backward over copies, references, field reads and the calls
    in `pass_through` (which hand their argument on), stopping at every other call.  -> {(callee, block)}; parameters are
    reported as ("param", n).  Unlike Origins labels this does not blur a container with what is put into it later."""
    calls_by_dest = {}
    for b, t in fn.calls():
        calls_by_dest.setdefault(t["dest"]["l"], []).append((b, t))
    assigns_by_local = {}
    for b, j, pl, rv, meta in fn.assigns():
        assigns_by_local.setdefault(pl["l"], []).append(rv)
    out, seen, work = set(), set(), []
    p0 = op_place(op) if not ("l" in op and "p" in op) else op
    if p0 is None:
        return out
    work.append(p0["l"])
    nargs = fn.d.get("args")
    while work:
        l = work.pop()
        if l in seen:
            continue
        seen.add(l)
        if nargs is not None and 1 <= l <= nargs:
            out.add(("param", l))
        for b, t in calls_by_dest.get(l, ()):
            c = callee(t)
            base = c
            if any(base.endswith(s) or (s + "<") in base for s in pass_through):
                for a in t["args"]:
                    ap = op_place(a)
                    if ap is not None:
                        work.append(ap["l"])
            else:
                out.add((c, b))
        for rv in assigns_by_local.get(l, ()):
            for o_ in rv.get("ops", ()):
                ap = op_place(o_)
                if ap is not None:
                    work.append(ap["l"])
            if isinstance(rv.get("place"), dict):
                work.append(rv["place"]["l"])
    return out


def captures_used(fn, op, pass_through=PASS_THROUGH + ("::get", "::index", "::iter", "::next", "::unwrap_or", "::branch")):
    """indices of the captured variables (fields of the closure environment, local 1) the value of `op` is read from, along its
    definition chain (copies, references, field reads, pass-through calls and lookups)"""
    calls_by_dest = {}
    for b, t in fn.calls():
        calls_by_dest.setdefault(t["dest"]["l"], []).append(t)
    assigns_by_local = {}
    for b, j, pl, rv, meta in fn.assigns():
        assigns_by_local.setdefault(pl["l"], []).append(rv)
    out, seen, work = set(), set(), []
    p0 = op_place(op) if not ("l" in op and "p" in op) else op
    if p0 is None:
        return out
    work.append(p0)
    while work:
        pl = work.pop()
        if pl["l"] == 1:
            for e in pl["p"]:
                if isinstance(e, dict) and "f" in e:
                    out.add(int(e["f"]) if str(e["f"]).isdigit() else e["f"])
                    break
            continue
        if pl["l"] in seen:
            continue
        seen.add(pl["l"])
        for t in calls_by_dest.get(pl["l"], ()):
            c = callee(t)
            if any(c.endswith(s) or (s + "<") in c for s in pass_through):
                for a in t["args"]:
                    ap = op_place(a)
                    if ap is not None:
                        work.append(ap)
        for rv in assigns_by_local.get(pl["l"], ()):
            for o_ in rv.get("ops", ()):
                ap = op_place(o_)
                if ap is not None:
                    work.append(ap)
            if isinstance(rv.get("place"), dict):
                work.append(rv["place"])
    return out


def capture_operands(F, cfn):
    """(parent Fn, block, [operand per captured variable]) of the place where the closure `cfn` is built, or None"""
    name = cfn.name
    i = name.rfind("::{closure")
    if i < 0:
        return None
    parent = name[:i]
    cands = [parent] + [n for n in F.fns if n.startswith(parent + "::{closure") and n != name]
    for pn in cands:
        pf = F.fns.get(pn)
        if pf is None:
            continue
        for b, j, pl, rv, m in pf.assigns():
            if rv["k"] == "agg" and rv.get("adt") == "{closure}" and rv.get("closure") == name:
                return pf, b, rv["ops"]
    return None
