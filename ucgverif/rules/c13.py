"""C13 — `ucg test` reports PASS exactly when all assertions hold.  Rules R57 R58 R59 R60."""
from .. import cfg, util
from ..core import RuleResult, need
from ..facts import callee, op_place, op_local, place_fields
from ..origins import Origins
from .. import absint as AI
from .. import flatten

VERDICT_FNS = ("ucg::do_validate", "ucg::do_compile", "ucg::visit_ucg_files")


def _nonzero_exit_blocks(fn):
    """blocks that commit to a non-zero exit status: exit(<const != 0>) calls, and for exit(<selected code>) the blocks that select a
    non-zero code"""
    out = {b for b, c in util.exit_calls(fn) if c not in ("0", None)}
    for eb, t in fn.calls():
        if callee(t) == "std::process::exit" and "int" not in t["args"][0]:
            cl = op_local(t["args"][0])
            if cl is None:
                out.add(eb)
                continue
            cps = util.copies_of(fn, cl, allow_not=False)
            sel = {b for b, j, pl, rv, meta in fn.assigns() if pl["l"] in cps and not pl["p"] and rv["k"] == "use" and rv["ops"][0].get("int") not in (None, "0")}
            if sel:
                out |= sel
            else:
                out.add(eb)
    return out


def _verdict_blocks(fn):
    """blocks that make the caller's own verdict negative: `L = false` for a bool local that is
    the function result, feeds the `Ok(..)` result, or guards a process::exit(nonzero);
    process::exit(nonzero) itself."""
    blocks = set()
    ret_ty = fn.local_ty(0)
    o = Origins(fn)
    cand = []
    if ret_ty == "bool":
        cand.append(0)
    for l, d in enumerate(fn.locals):
        if d["ty"] != "bool" or l == 0:
            continue
        if not fn.var_names().get(l):
            continue
        # feeds the Ok(..) payload of the result?
        feeds = False
        for b, j, pl, rv, meta in fn.assigns():
            if pl["l"] == 0 and rv["k"] == "agg" and rv.get("variant") == "Ok":
                src = op_local(rv["ops"][0]) if rv["ops"] else None
                if src is not None and l in util.copies_of(fn, l) and src in util.copies_of(fn, l, allow_not=False):
                    feeds = True
        # guards a process::exit(nonzero)?
        guards = False
        for sb, ft, tt in util.bool_switches(fn, l):
            for eb, code in util.exit_calls(fn):
                if code not in (None, "0") and cfg.dominates(fn, ft, eb):
                    guards = True
        if feeds or guards:
            cand.append(l)
    # `process::exit(if ok { 0 } else { 1 })`: the non-zero code is chosen on the false edge of a bool
    sel_nonzero = set()
    for eb, t in fn.calls():
        if callee(t) == "std::process::exit" and "int" not in t["args"][0]:
            cl = op_local(t["args"][0])
            if cl is None:
                continue
            cps = util.copies_of(fn, cl, allow_not=False)
            for b, j, pl, rv, meta in fn.assigns():
                if pl["l"] in cps and not pl["p"] and rv["k"] == "use" and rv["ops"][0].get("int") not in (None, "0"):
                    sel_nonzero.add(b)
    for l, d in enumerate(fn.locals):
        if d["ty"] != "bool" or l == 0 or l in cand:
            continue
        for sb, ft, tt in util.bool_switches(fn, l):
            if any(cfg.dominates(fn, ft, nb) for nb in sel_nonzero) and not any(cfg.dominates(fn, tt, nb) for nb in sel_nonzero):
                cand.append(l)
                break
    for l in cand:
        blocks.update(util.blocks_assigning_const(fn, l, 0))
    for eb, code in util.exit_calls(fn):
        if code not in ("0", None):
            blocks.add(eb)
    blocks |= sel_nonzero
    return blocks, cand


SHORT_CIRCUIT = ("all", "any", "find", "find_map", "position", "take_while", "map_while", "try_fold", "try_for_each", "skip_while")
EXHAUSTIVE = ("fold", "for_each", "collect", "count", "last", "sum", "product", "max", "min", "reduce", "unzip", "partition")


def _consumption(F, r, cf, key):
    """a closure that yields a verdict per path is consumed by an iterator chain of its parent: every path has to be visited,
    so the chain may not end in a short-circuiting adaptor"""
    parent = cf.name[:cf.name.rindex("::{closure")]
    if parent not in F.fns:
        return
    pf = F.fn(parent)
    cname = cf.name.split("::")[-1]
    its = [(b, callee(t).split("::")[-1]) for b, t in pf.calls() if "::Iterator::" in callee(t) or callee(t).startswith("core::iter::")]
    short = [(b, n) for b, n in its if n in SHORT_CIRCUIT]
    full = [(b, n) for b, n in its if n in EXHAUSTIVE]
    if not its:
        return
    ok = not short and bool(full)
    r.inst(key + ":every-path-visited", pf.where((short or full or its)[0][0]), ok,
           "the verdicts are consumed by %s: every path is visited" % "/".join(sorted({n for b, n in full})) if ok else
           "the per-path verdicts are consumed by `%s`, which stops at the first %s: the paths after it are never visited (no log, no "
           "verdict for them)" % (short[0][1] if short else "?", "false" if short and short[0][1] == "all" else "hit"))


# ---------------------------------------------------------------------------------------------------------------------
# verdict plumbing by abstract evaluation (absint.Sim): for every call of a function that yields a verdict, the result is forced to
# its negative value on one visit and the caller's own outcome is evaluated on every path
SEEDS = {"ucglib::build::FileBuilder::assert_results": "bool", "ucg::build_file": "result"}
ROOT_VERDICTS = ("ucg::do_validate", "ucg::do_compile", "ucg::visit_ucg_files")


def _kind(ty):
    if ty == "bool":
        return "bool"
    if ty.startswith("core::result::Result<bool,"):
        return "result-bool"
    if ty.startswith("core::result::Result<"):
        return "result"
    if ty in ("()", "!"):
        return "unit"
    if ty in ("i32", "u8", "i64", "isize", "usize", "u32"):
        return "int"
    return None


def _negatives(kind):
    return {"bool": [("", AI.Fv)], "result-bool": [("", AI.ok_(AI.Fv)), (":Err", AI.err_())], "result": [(":Err", AI.err_())],
            "int": [("", ("i", 1))]}.get(kind, [])


def _positive(kind):
    return {"bool": AI.T, "result-bool": AI.ok_(AI.T), "result": AI.ok_(AI.U), "int": ("i", 0)}.get(kind, AI.U)


def _is_negative(v, kind):
    if kind == "bool":
        return v == AI.Fv
    if kind == "result-bool":
        return v[0] == "e" and (v[2] == "Err" or (v[2] == "Ok" and AI.field_of(v, "0") == AI.Fv))
    if kind == "result":
        return v[0] == "e" and v[2] == "Err"
    if kind == "int":
        return v[0] == "i" and v[1] != 0
    return False


def _definitely_negative_verdict(v, kind):
    """for the positive direction: a value that says FAIL although every verdict was positive (an Err is another kind of failure)"""
    if kind == "bool":
        return v == AI.Fv
    if kind == "result-bool":
        return v[0] == "e" and v[2] == "Ok" and AI.field_of(v, "0") == AI.Fv
    if kind == "int":
        return v[0] == "i" and v[1] != 0
    return False


def verdict_functions(F):
    """name -> kind for every function (or closure) whose result carries a verdict: the seeds and, transitively, every function of
    the binary crate that calls one and returns bool / Result<bool, _> / an integer"""
    verdict = dict(SEEDS)
    changed = True
    while changed:
        changed = False
        for n, fn in F.fns.items():
            if fn.derived or n in verdict or not (fn.crate == "ucg" or n.startswith("ucg::")):
                continue
            if not any(callee(t) in verdict for b, t in fn.calls()) and not any(c in verdict for c in _closures_made(fn)):
                continue
            k = _kind(fn.local_ty(0))
            if k in ("bool", "result-bool", "int"):
                verdict[n] = k
                changed = True
    return verdict


def verdict_closures(F, verdict):
    """closures that call a verdict function (directly or through a nested closure)"""
    out = set()
    changed = True
    while changed:
        changed = False
        for n, fn in F.fns.items():
            if "{closure" not in n or n in out:
                continue
            if any(callee(t) in verdict for b, t in fn.calls()) or any(c in out for c in _closures_made(fn)):
                out.add(n)
                changed = True
    return out


def _closures_made(fn):
    return [rv["closure"] for b, j, pl, rv, m in fn.assigns() if rv["k"] == "agg" and rv.get("adt") == "{closure}"]


def _taint(F, fn, sb):
    """does an unmodelled call see the result of the call in block sb?"""
    o = Origins(fn)
    st = fn.term(sb)
    sc = callee(st)

    def tainted(f2, b, t):
        if f2.name != fn.name:
            return False
        for a in t["args"]:
            for l in o.at(a, b):
                if l[0] in ("call", "effect") and l[1] == sc and l[2] == sb:
                    return True
        return False
    return tainted


def _judge(F, fn, sim, res, kind):
    """(ok, why) for the fired outcomes of one simulation"""
    bad = []
    for fired, v, outs in res:
        if fired and not _is_negative(v, kind):
            bad.append("returns %s" % _show(v))
    for fired, code, fname, b in sim.exit_codes:
        if fired and not (code[0] == "i" and code[1] != 0):
            bad.append("exits with status %s" % _show(code))
    return bad


def _show(v):
    if v == AI.U:
        return "an undetermined value"
    if v[0] == "b":
        return "true" if v[1] else "false"
    if v[0] == "i":
        return str(v[1])
    if v[0] == "e":
        inner = AI.field_of(v, "0")
        return "%s(%s)" % (v[2], _show(inner) if inner != AI.U else "..") if v[2] else "a value of %s" % v[1]
    return str(v[0])


def _link(F, r, fn, site, forced, kind_out, key, what, c, opaque):
    """one obligation: when `site` yields `forced` (once, any visit), every outcome of fn is negative"""
    sb = site[1]
    sim = AI.Sim(F, site=site, forced=forced, tainted_by=_taint(F, F.fn(site[0]), sb) if sb is not None else None, opaque=opaque)
    if F.__dict__.get("_vclosures") is None:
        F.__dict__["_vclosures"] = verdict_closures(F, verdict_functions(F))
    try:
        res = sim.run(fn, [AI.U] * fn.nargs)
    except AI.Lossy as e:
        need(False, "%s: %s" % (key, e))
    bad = _judge(F, fn, sim, res, kind_out)
    reached = any(f for f, v, o in res) or any(f for f, c2, n2, b2 in sim.exit_codes)
    if bad and sim.lossy:
        need(False, "%s: the verdict passes through %s, which is not modelled" % (key, sorted({x[2] for x in sim.lossy})[0]))
    if not reached and sim.lossy:
        need(False, "%s: the verdict passes through %s, which is not modelled" % (key, sorted({x[2] for x in sim.lossy})[0]))
    if not reached and not bad:
        # the negative value never leaves the function through a return or an exit: it diverges (panic) or the site is dead
        r.inst(key, fn.where(sb) if sb is not None and site[0] == fn.name else fn.where(), True,
               "no outcome after %s (the path ends in a panic or loop)" % what, nontrivial=False)
        return
    # the remaining paths are still visited: a call that sits in a loop is reached again after it returned the negative value
    # (`ok = ok && visit(p)` stops visiting once one path failed: the files after it get no verdict and no log)
    if sb is not None and site[0] == fn.name and what == "a negative result" and not bad:
        in_loop = any(sb in body for h, body in cfg.natural_loops(fn).items())
        if in_loop:
            again = (fn.name, sb) in sim.visited_fired
            r.inst(key + ":every-path-visited", fn.where(sb), again,
                   "after a failing path the loop still visits the next one" if again else
                   "once one path has failed the call is skipped for all later paths (short circuit on the accumulated verdict): "
                   "they are never visited - no log, no verdict for them")
    r.inst(key, fn.where(sb) if sb is not None and site[0] == fn.name else fn.where(), not bad,
           "%s forces the caller's verdict on every path" % what if not bad else
           "verdict dropped: after %s from %s, %s %s" % (what, c.split("::")[-1], fn.name, sorted(set(bad))[0]),
           {"outcomes": sorted({_show(v) for f, v, o in res if f})[:6], "exit_codes": sorted({_show(c2) for f, c2, n2, b2 in sim.exit_codes if f})})


def r57(F):
    r = RuleResult("R57", "no verdict is dropped on the way to the exit status",
                   "every false / Ok(false) / Err result of do_validate, do_compile, visit_ucg_files (and of every helper or closure "
                   "that returns their verdict) makes the caller's own outcome negative on every path that sees it, whatever the "
                   "other results are: decided by evaluating the caller with that one result forced (three-valued abstract "
                   "interpretation of the MIR, no idiom matching)", floor=9)
    verdict = verdict_functions(F)
    opaque = set(verdict)
    roots = {n: k for n, k in verdict.items() if n not in SEEDS}
    need(all(x in roots for x in ROOT_VERDICTS), "do_validate / do_compile / visit_ucg_files are not recognised as verdict functions")
    for fn in [f for n, f in F.fns.items() if (f.crate == "ucg" or n.startswith("ucg::")) and not f.derived]:
        kind_out = _kind(fn.local_ty(0))
        sites = [(b, t) for b, t in fn.calls() if callee(t) in roots]
        for b, t in sites:
            c = callee(t)
            key = "%s->%s" % (fn.name, c)
            need(kind_out is not None, "%s returns %s: not a verdict type this rule understands" % (fn.name, fn.local_ty(0)))
            for suffix, forced in _negatives(roots[c]):
                what = {"": "a negative result", ":Err": "an Err"}[suffix]
                if "{closure" in fn.name and kind_out == "unit":
                    need(False, "%s: the closure returns () - its verdict leaves through captured state, which is not modelled" % key)
                _link(F, r, fn, (fn.name, b), forced, kind_out, key + suffix, what, c, opaque)
            if "{closure" in fn.name:
                _consumption(F, r, fn, key)
        # closures that carry a verdict are consumed by this function: the call inside the closure is forced and the
        # enclosing function is evaluated through the iterator adaptors that invoke the closure
        for cn in _closures_made(fn):
            if cn in roots:
                cf = F.fn(cn)
                need(kind_out is not None, "%s returns %s: not a verdict type this rule understands" % (fn.name, fn.local_ty(0)))
                for b2, t2 in cf.calls():
                    c2 = callee(t2)
                    if c2 not in roots:
                        continue
                    key = "%s->%s->%s" % (fn.name, cn.split("::")[-1] if cn.startswith(fn.name) else cn, c2)
                    for suffix, forced in _negatives(roots[c2]):
                        what = {"": "a negative result", ":Err": "an Err"}[suffix]
                        _link(F, r, fn, (cn, b2), forced, kind_out, key + suffix + ":consumed", what + " inside the closure", c2, opaque)
    return r


def r58(F):
    r = RuleResult("R58", "per-file assertion collector",
                   "on every path from the per-file entry (build_file / FileBuilder::build) to evaluation in "
                   "validate mode, Environment.assert_results is re-initialised", floor=2)
    # who writes Environment.assert_results (whole-field assignment) or calls a reset method
    writers = []
    for n, fn in F.fns.items():
        if fn.derived:
            continue
        for b, j, pl, rv, meta in fn.assigns():
            fs = place_fields(pl)
            if fs and fs[-1] == "assert_results" and fn.local_adt(pl["l"]) and "Environment" in (fn.local_adt(pl["l"]) or ""):
                writers.append((n, b, "field assignment"))
            # aggregate construction of Environment (constructor)
            if rv["k"] == "agg" and rv.get("adt") == "ucglib::build::opcode::environment::Environment":
                writers.append((n, b, "constructor aggregate"))
    ctor_only = [w for w in writers if w[2] == "constructor aggregate"]
    resets = [w for w in writers if w[2] != "constructor aggregate"]
    # AssertCollector mutators other than record_assert_result (a reset method)
    reset_methods = []
    for n, fn in F.fns.items():
        if n.startswith("ucglib::build::AssertCollector::") and not n.endswith("::new") and not n.endswith("::record_assert_result") and "{closure" not in n:
            # a method assigning success = true
            for b, j, pl, rv, meta in fn.assigns():
                if place_fields(pl)[-1:] == ["success"] and rv["k"] == "use" and rv["ops"][0].get("int") == "1":
                    reset_methods.append(n)
    r.note("writers of Environment.assert_results: %s; reset methods: %s" % (writers, reset_methods))
    # per-file entries
    entries = ["ucg::build_file", "ucglib::build::FileBuilder::build"]
    reset_fns = set(w[0] for w in resets) | set(reset_methods)
    # transitive: functions that always call a reset fn are reset fns too (wrappers)
    changed = True
    while changed:
        changed = False
        for n, fn in F.fns.items():
            if n in reset_fns or fn.derived:
                continue
            blocks = [b for b, t in fn.calls() if callee(t) in reset_fns]
            if blocks and util.must_pass(fn, 0, blocks, exits=cfg.exits(fn)):
                reset_fns.add(n)
                changed = True
    for e in entries:
        fn = F.fn(e)
    # the property needs: between build_file's entry and the evaluation (FileBuilder::build -> eval_ops -> VM::run)
    # a reset happens. Check build_file: all paths from entry to the call of FileBuilder::build pass a reset,
    # or FileBuilder::build itself passes a reset before eval_ops.
    bf = F.fn("ucg::build_file")
    fb = F.fn("ucglib::build::FileBuilder::build")
    def passes_reset_before(fn, target_pred):
        tb = [b for b, t in fn.calls() if target_pred(callee(t))]
        need(tb, "no evaluation call found in %s" % fn.name)
        rb = set()
        for b, j, pl, rv, meta in fn.assigns():
            fs = place_fields(pl)
            if fs and fs[-1] == "assert_results":
                rb.add(b)
        rb |= {b for b, t in fn.calls() if callee(t) in reset_fns}
        if not rb:
            return False
        # every path entry -> target passes rb
        r_ = cfg.reachable(fn, 0, removed=rb)
        return not (set(tb) & r_) and 0 not in tb
    ok_bf = passes_reset_before(bf, lambda c: c == "ucglib::build::FileBuilder::build")
    ok_fb = passes_reset_before(fb, lambda c: c.endswith("FileBuilder::eval_ops"))
    ok = ok_bf or ok_fb
    r.inst("ucg::build_file", bf.where(), ok,
           "collector reset on every path to evaluation" if ok else
           "collector not reset: Environment.assert_results is only written by the constructor, so `success` is sticky "
           "and `summary` accumulates across the files of one invocation",
           {"writers": writers, "reset_fns": sorted(reset_fns)})
    r.inst("who-may-write:Environment.assert_results", "src/build/opcode/environment.rs", True,
           "%d constructor site(s), %d reset site(s)" % (len(ctor_only), len(resets) + len(reset_methods)), nontrivial=False)
    return r


def _labels_through_helpers(F, fn, o, op, depth=2):
    labs = set(o.of_operand(op))
    return labs


def r59(F):
    r = RuleResult("R59", "every assert is recorded",
                   "in Builtins::assert (private helpers spliced in) every path to a return passes record_assert_result; malformed "
                   "shapes pass false; record_assert_result leaves `success` equal to (old success AND is_success) for all four "
                   "combinations (evaluated, not pattern-matched) and counts on every path", floor=5)
    fn = flatten.flat(F, "ucglib::build::opcode::runtime::Builtins::assert", keep=("record_assert_result",))
    rec = [(b, t) for b, t in fn.calls() if callee(t).endswith("::record_assert_result")]
    need(rec, "no record_assert_result call in Builtins::assert")
    rb = {b for b, _ in rec}
    ok = util.must_pass(fn, 0, rb, exits=cfg.exits(fn))
    r.inst("Builtins::assert:all-paths", fn.where(), ok,
           "every return path records a result" if ok else "a return path records no assertion result",
           {"record_sites": len(rec), "spliced": flatten.spliced(fn)})
    # polarity of each record site: constant false for the malformed-shape sites, the `ok` payload for the real one
    n_dynamic = 0
    o = Origins(fn)
    for b, t in rec:
        a = t["args"][2]
        if a.get("int") == "0":
            r.inst("Builtins::assert:record", fn.where(b), True, "malformed assertion recorded as failure (const false)")
        elif a.get("int") == "1":
            r.inst("Builtins::assert:record", fn.where(b), False, "assertion recorded as success unconditionally (const true)")
        else:
            n_dynamic += 1
            labs = o.of_operand(a)
            has_not = ("un", "Not") in labs
            from_bool = ("variant", "Bool") in labs
            r.inst("Builtins::assert:record", fn.where(b), from_bool and not has_not,
                   "recorded verdict is the tuple's Bool `ok` payload" if from_bool and not has_not else
                   "recorded verdict does not derive (un-negated) from the Bool payload of field ok",
                   {"labels": sorted(map(str, labs))[:12]})
    need(n_dynamic >= 1, "no dynamic record site")
    # the `ok` payload is taken from the field named "ok"
    strs = set(util.str_consts(fn))
    for b, t in fn.calls():
        for a in t["args"]:
            if "str" in a:
                strs.add(a["str"])
    for b, j, pl, rv, meta in fn.assigns():
        for a in rv.get("ops", []):
            if "str" in a:
                strs.add(a["str"])
    r.inst("Builtins::assert:field-names", fn.where(), "ok" in strs and "desc" in strs,
           "field names compared: ok, desc" if "ok" in strs and "desc" in strs else "field-name constants ok/desc not found",
           {"strings": sorted(s for s in strs if len(s) < 8)})
    # AssertCollector::record_assert_result: success' = success AND is_success, by evaluation
    rf = F.fn("ucglib::build::AssertCollector::record_assert_result")
    need(rf.nargs == 3 and rf.local_ty(3) == "bool", "record_assert_result(&mut self, msg, is_success: bool) expected")
    key = (1, ("*", ("f", "success")))
    wrong, unknown = [], []
    for old in (True, False):
        for cur in (True, False):
            sim = AI.Sim(F)
            try:
                res = sim.run(rf, [AI.U, AI.U, ("b", cur)], init={key: ("b", old)})
            except AI.Lossy as e:
                need(False, "record_assert_result: %s" % e)
            need(res, "record_assert_result never returns")
            for fired, v, outs in res:
                got = dict(outs).get(key, AI.U)
                want = ("b", old and cur)
                if got == AI.U:
                    unknown.append((old, cur))
                elif got != want:
                    wrong.append("success=%s, is_success=%s -> success=%s" % (str(old).lower(), str(cur).lower(), str(got[1]).lower()))
    need(not unknown or wrong, "record_assert_result: the new value of `success` could not be evaluated for %s" % unknown[:2])
    r.inst("AssertCollector::record_assert_result:success", rf.where(), not wrong,
           "success' = success AND is_success in all four cases" if not wrong else
           "success flag handling broken: %s" % "; ".join(sorted(set(wrong))))
    # counter incremented on all paths
    cnt = set()
    for b, j, pl, rv, meta in rf.assigns():
        if place_fields(pl)[-1:] == ["counter"]:
            cnt.add(b)
    okc = bool(cnt) and util.must_pass(rf, 0, cnt, exits=cfg.exits(rf))
    r.inst("AssertCollector::record_assert_result:counter", rf.where(), okc,
           "counter incremented on every path" if okc else "a path does not increment the assertion counter")
    return r


def r60(F):
    r = RuleResult("R60", "verdict polarity",
                   "where a verdict is born: do_validate is negative when assert_results() is false and when the build fails, "
                   "do_compile when the build fails (each result forced, the function evaluated); and in the other direction: with "
                   "every verdict positive, no function on the way to the exit status turns negative, and each can end positive; "
                   "FileBuilder::assert_results returns the collector's success flag", floor=9)
    verdict = verdict_functions(F)
    opaque = set(verdict)
    for fn in [f for n, f in F.fns.items() if (f.crate == "ucg" or n.startswith("ucg::")) and not f.derived]:
        kind_out = _kind(fn.local_ty(0))
        short = fn.name.split("ucg::", 1)[-1]
        for b, t in fn.calls():
            c = callee(t)
            if c not in SEEDS:
                continue
            need(kind_out is not None, "%s returns %s: not a verdict type this rule understands" % (fn.name, fn.local_ty(0)))
            for suffix, forced in _negatives(SEEDS[c]):
                if c.endswith("assert_results"):
                    key, what = "%s:assert_results=false" % short, "assert_results() == false"
                else:
                    key, what = "%s:build Err" % short, "a failed build"
                _link(F, r, fn, (fn.name, b), forced, kind_out, key, what, c, opaque)
    # the other direction
    carriers = [n for n in verdict if n not in SEEDS]
    for n, fn in F.fns.items():
        if fn.derived or not (fn.crate == "ucg" or n.startswith("ucg::")) or "{closure" in n:
            continue
        if n not in carriers and not any(callee(t) in verdict for b, t in fn.calls()) and not any(c in verdict for c in _closures_made(fn)):
            continue
        if n == "ucg::main":
            continue
        kind_out = _kind(fn.local_ty(0))
        force = {c: _positive(k) for c, k in verdict.items()}
        sim = AI.Sim(F, force_all=force, opaque=opaque, watch=verdict_closures(F, verdict))
        try:
            res = sim.run(fn, [AI.U] * fn.nargs)
        except AI.Lossy as e:
            need(False, "%s: %s" % (n, e))
        need(not sim.lossy, "%s: a verdict passes through %s, which is not modelled" % (n, sorted({x[2] for x in sim.lossy})[0] if sim.lossy else ""))
        neg = [_show(v) for f, v, o in res if _definitely_negative_verdict(v, kind_out)]
        neg += ["exit status %s" % _show(c2) for f, c2, n2, b2 in sim.exit_codes if c2[0] == "i" and c2[1] != 0]
        pos = [v for f, v, o in res if not _is_negative(v, kind_out)] if kind_out != "unit" else list(res)
        pos += [c2 for f, c2, n2, b2 in sim.exit_codes if c2 == ("i", 0)]
        short = n.split("ucg::", 1)[-1]
        r.inst("%s:all-pass" % short, fn.where(), not neg and bool(pos),
               "with every verdict positive the outcome is never negative and can be positive" if not neg and pos else
               ("with every file passing, %s still yields %s" % (n, sorted(set(neg))[0]) if neg else
                "%s has no positive outcome at all" % n))
    # FileBuilder::assert_results returns collector.success
    ar = flatten.flat(F, "ucglib::build::FileBuilder::assert_results")
    o = Origins(ar)
    labs = o.of_local(0)
    ok = ("field", "success") in labs and ("field", "assert_results") in labs and ("un", "Not") not in labs
    r.inst("FileBuilder::assert_results", ar.where(), ok,
           "returns environment.assert_results.success" if ok else "does not return the collector's success flag un-negated")
    return r


def r58e(F):
    r = RuleResult("R58e", "building a file evaluates it",
                   "every successful return of FileBuilder::build has passed eval_ops (the run of the file's own code), after the "
                   "per-file reset of the assertion collector: a shortcut that returns a value the import cache already holds skips the "
                   "file's assertions, which were recorded into the importer's report and discarded by the reset", floor=1)
    fn = F.fn("ucglib::build::FileBuilder::build")
    ev = {b for b, t in fn.calls() if callee(t).endswith("FileBuilder::eval_ops") or callee(t) == "ucglib::build::opcode::vm::VM::run"}
    need(ev, "FileBuilder::build does not call eval_ops")
    oks = [b for b, j, pl, rv, m in fn.assigns() if pl["l"] == 0 and not pl["p"] and rv["k"] == "agg" and rv.get("variant") == "Ok"]
    need(oks, "FileBuilder::build has no Ok return")
    ok = all(ob not in cfg.reachable(fn, 0, removed=ev) for ob in oks)
    r.inst("FileBuilder::build:evaluates", fn.where(sorted(ev)[0]), ok, "Ok only after eval_ops" if ok else
           "FileBuilder::build can return Ok without evaluating the file (a cached value?): a *_test.ucg that was imported earlier in the "
           "same invocation reports Pass with an empty log")
    return r



def r60s(F):
    r = RuleResult("R60s", "a file's PASS / FAIL line is that file's own verdict",
                   "wherever the front end chooses between a text containing PASS and one containing FAIL, the condition is the result "
                   "of the validation of that file itself (a direct call, or an immutable binding of one) - not a flag that "
                   "accumulates over the files visited so far (syntax tree of main.rs)", floor=1)
    from ..facts import syn_walk
    tree = F.syn.get("main.rs")
    need(tree is not None, "main.rs not in the syntax facts")
    VERDICT_FNS = {n.split("::")[-1] for n in verdict_functions(F) if n.startswith("ucg::")} | {"do_validate"}

    def lits(node):
        out = []
        def v(n):
            if n.get("k") == "lit" and n.get("t") == "str":
                out.append(n.get("v") or "")
        syn_walk(node, v)
        return out

    fns = []
    syn_walk(tree, lambda n: fns.append(n) if n.get("k") == "fn" else None)
    n_ = 0
    for f in fns:
        locals_ = []
        syn_walk(f, lambda n: locals_.append(n) if n.get("k") == "local" else None)
        assigned = set()
        def va(n):
            if n.get("k") in ("assign", "assign_op", "binary_assign") and isinstance(n.get("l"), dict) and n["l"].get("k") == "path":
                assigned.add(n["l"]["v"])
        syn_walk(f, va)
        ifs = []
        syn_walk(f, lambda n: ifs.append(n) if n.get("k") == "if" and n.get("else") is not None else None)
        for node in ifs:
            a, b = lits(node.get("then")), lits(node.get("else"))
            pa, fa = any("PASS" in x for x in a), any("FAIL" in x for x in a)
            pb, fb = any("PASS" in x for x in b), any("FAIL" in x for x in b)
            if not ((pa and fb and not fa and not pb) or (fa and pb and not pa and not fb)):
                continue
            cond = node.get("cond") or {}
            while cond.get("k") in ("unary", "paren") and isinstance(cond.get("e"), dict):
                cond = cond["e"]
            ok, why = False, "the condition is not the validation of the file"
            if cond.get("k") == "call" and isinstance(cond.get("f"), dict) and str(cond["f"].get("v", "")).split("::")[-1] in VERDICT_FNS:
                ok, why = True, "decided by %s(..) of this file" % cond["f"]["v"]
            elif cond.get("k") == "path":
                v_ = cond.get("v")
                inits = [l for l in locals_ if l.get("pat") == v_]
                direct = [l for l in inits if isinstance(l.get("init"), dict) and l["init"].get("k") == "call" and
                          str((l["init"].get("f") or {}).get("v", "")).split("::")[-1] in VERDICT_FNS]
                if direct and len(inits) == 1 and v_ not in assigned:
                    ok, why = True, "decided by `%s`, bound once to the validation of this file" % v_
                else:
                    why = "decided by `%s`, which %s" % (v_, "is assigned elsewhere (it accumulates over the files visited so far)" if v_ in assigned else
                                                        "is not bound to the validation of this file")
            r.inst("%s:label#%d" % (f.get("name"), n_), "src/main.rs:%s" % node.get("ln"), ok,
                   why if ok else "%s: a passing file is listed as FAIL (or a failing one as PASS) depending on what was tested before it" % why)
            n_ += 1
    need(n_, "no choice between a PASS and a FAIL text found in main.rs (labels are chosen some other way)")
    return r

RULES = [r57, r58, r59, r60, r58e, r60s]
