"""C13 — `ucg test` reports PASS exactly when all assertions hold.  Rules R57 R58 R59 R60."""
from .. import cfg, util
from ..core import RuleResult, need
from ..facts import callee, op_place, op_local, place_fields
from ..origins import Origins
from .. import absint as AI

VERDICT_FNS = ("ucg::do_validate", "ucg::do_compile", "ucg::visit_ucg_files")


def _nonzero_exit_blocks(fn):
    """blocks that commit to a non-zero exit status: exit(<const != 0>) calls, and for exit(<selected code>) the blocks that select a
    non-zero code"""
    out = {b for b, c in util.exit_calls(fn) if c not in ("0", None)}
    for eb, t in fn.calls():
        if callee(t) == "std::process::exit" and "int" not in t["args"][0]:
            cl = op_local(t["args"][0])
            if cl is None:
                out.add(eb)
                continue
            cps = util.copies_of(fn, cl, allow_not=False)
            sel = {b for b, j, pl, rv, meta in fn.assigns() if pl["l"] in cps and not pl["p"] and rv["k"] == "use" and rv["ops"][0].get("int") not in (None, "0")}
            if sel:
                out |= sel
            else:
                out.add(eb)
    return out


def _verdict_blocks(fn):
    """blocks that make the caller's own verdict negative: `L = false` for a bool local that is
    the function result, feeds the `Ok(..)` result, or guards a process::exit(nonzero);
    process::exit(nonzero) itself."""
    blocks = set()
    ret_ty = fn.local_ty(0)
    o = Origins(fn)
    cand = []
    if ret_ty == "bool":
        cand.append(0)
    for l, d in enumerate(fn.locals):
        if d["ty"] != "bool" or l == 0:
            continue
        if not fn.var_names().get(l):
            continue
        # feeds the Ok(..) payload of the result?
        feeds = False
        for b, j, pl, rv, meta in fn.assigns():
            if pl["l"] == 0 and rv["k"] == "agg" and rv.get("variant") == "Ok":
                src = op_local(rv["ops"][0]) if rv["ops"] else None
                if src is not None and l in util.copies_of(fn, l) and src in util.copies_of(fn, l, allow_not=False):
                    feeds = True
        # guards a process::exit(nonzero)?
        guards = False
        for sb, ft, tt in util.bool_switches(fn, l):
            for eb, code in util.exit_calls(fn):
                if code not in (None, "0") and cfg.dominates(fn, ft, eb):
                    guards = True
        if feeds or guards:
            cand.append(l)
    # `process::exit(if ok { 0 } else { 1 })`: the non-zero code is chosen on the false edge of a bool
    sel_nonzero = set()
    for eb, t in fn.calls():
        if callee(t) == "std::process::exit" and "int" not in t["args"][0]:
            cl = op_local(t["args"][0])
            if cl is None:
                continue
            cps = util.copies_of(fn, cl, allow_not=False)
            for b, j, pl, rv, meta in fn.assigns():
                if pl["l"] in cps and not pl["p"] and rv["k"] == "use" and rv["ops"][0].get("int") not in (None, "0"):
                    sel_nonzero.add(b)
    for l, d in enumerate(fn.locals):
        if d["ty"] != "bool" or l == 0 or l in cand:
            continue
        for sb, ft, tt in util.bool_switches(fn, l):
            if any(cfg.dominates(fn, ft, nb) for nb in sel_nonzero) and not any(cfg.dominates(fn, tt, nb) for nb in sel_nonzero):
                cand.append(l)
                break
    for l in cand:
        blocks.update(util.blocks_assigning_const(fn, l, 0))
    for eb, code in util.exit_calls(fn):
        if code not in ("0", None):
            blocks.add(eb)
    blocks |= sel_nonzero
    return blocks, cand


SHORT_CIRCUIT = ("all", "any", "find", "find_map", "position", "take_while", "map_while", "try_fold", "try_for_each", "skip_while")
EXHAUSTIVE = ("fold", "for_each", "collect", "count", "last", "sum", "product", "max", "min", "reduce", "unzip", "partition")


def _consumption(F, r, cf, key):
    """a closure that yields a verdict per path is consumed by an iterator chain of its parent: every path has to be visited,
    so the chain may not end in a short-circuiting adaptor"""
    parent = cf.name[:cf.name.rindex("::{closure")]
    if parent not in F.fns:
        return
    pf = F.fn(parent)
    cname = cf.name.split("::")[-1]
    its = [(b, callee(t).split("::")[-1]) for b, t in pf.calls() if "::Iterator::" in callee(t) or callee(t).startswith("core::iter::")]
    short = [(b, n) for b, n in its if n in SHORT_CIRCUIT]
    full = [(b, n) for b, n in its if n in EXHAUSTIVE]
    if not its:
        return
    ok = not short and bool(full)
    r.inst(key + ":every-path-visited", pf.where((short or full or its)[0][0]), ok,
           "the verdicts are consumed by %s: every path is visited" % "/".join(sorted({n for b, n in full})) if ok else
           "the per-path verdicts are consumed by `%s`, which stops at the first %s: the paths after it are never visited (no log, no "
           "verdict for them)" % (short[0][1] if short else "?", "false" if short and short[0][1] == "all" else "hit"))


# ---------------------------------------------------------------------------------------------------------------------
# verdict plumbing by abstract evaluation (absint.Sim): for every call of a function that yields a verdict, the result is forced to
# its negative value on one visit and the caller's own outcome is evaluated on every path
SEEDS = {"ucglib::build::FileBuilder::assert_results": "bool", "ucg::build_file": "result"}
ROOT_VERDICTS = ("ucg::do_validate", "ucg::do_compile", "ucg::visit_ucg_files")


def _kind(ty):
    if ty == "bool":
        return "bool"
    if ty.startswith("core::result::Result<bool,"):
        return "result-bool"
    if ty.startswith("core::result::Result<"):
        return "result"
    if ty in ("()", "!"):
        return "unit"
    if ty in ("i32", "u8", "i64", "isize", "usize", "u32"):
        return "int"
    return None


def _negatives(kind):
    return {"bool": [("", AI.Fv)], "result-bool": [("", AI.ok_(AI.Fv)), (":Err", AI.err_())], "result": [(":Err", AI.err_())],
            "int": [("", ("i", 1))]}.get(kind, [])


def _positive(kind):
    return {"bool": AI.T, "result-bool": AI.ok_(AI.T), "result": AI.ok_(AI.U), "int": ("i", 0)}.get(kind, AI.U)


def _is_negative(v, kind):
    if kind == "bool":
        return v == AI.Fv
    if kind == "result-bool":
        return v[0] == "e" and (v[2] == "Err" or (v[2] == "Ok" and AI.field_of(v, "0") == AI.Fv))
    if kind == "result":
        return v[0] == "e" and v[2] == "Err"
    if kind == "int":
        return v[0] == "i" and v[1] != 0
    return False


def _definitely_negative_verdict(v, kind):
    """for the positive direction: a value that says FAIL although every verdict was positive (an Err is another kind of failure)"""
    if kind == "bool":
        return v == AI.Fv
    if kind == "result-bool":
        return v[0] == "e" and v[2] == "Ok" and AI.field_of(v, "0") == AI.Fv
    if kind == "int":
        return v[0] == "i" and v[1] != 0
    return False


def verdict_functions(F):
    """name -> kind for every function (or closure) whose result carries a verdict: the seeds and, transitively, every function of
    the binary crate that calls one and returns bool / Result<bool, _> / an integer"""
    verdict = dict(SEEDS)
    changed = True
    while changed:
        changed = False
        for n, fn in F.fns.items():
            if fn.derived or n in verdict or not (fn.crate == "ucg" or n.startswith("ucg::")):
                continue
            if not any(callee(t) in verdict for b, t in fn.calls()) and not any(c in verdict for c in _closures_made(fn)):
                continue
            k = _kind(fn.local_ty(0))
            if k in ("bool", "result-bool", "int"):
                verdict[n] = k
                changed = True
    return verdict


def _closures_made(fn):
    return [rv["closure"] for b, j, pl, rv, m in fn.assigns() if rv["k"] == "agg" and rv.get("adt") == "{closure}"]


def _taint(F, fn, sb):
    """does an unmodelled call see the result of the call in block sb?"""
    o = Origins(fn)
    st = fn.term(sb)
    sc = callee(st)

    def tainted(f2, b, t):
        if f2.name != fn.name:
            return False
        for a in t["args"]:
            for l in o.at(a, b):
                if l[0] in ("call", "effect") and l[1] == sc and l[2] == sb:
                    return True
        return False
    return tainted


def _judge(F, fn, sim, res, kind):
    """(ok, why) for the fired outcomes of one simulation"""
    bad = []
    for fired, v, outs in res:
        if fired and not _is_negative(v, kind):
            bad.append("returns %s" % _show(v))
    for fired, code, fname, b in sim.exit_codes:
        if fired and not (code[0] == "i" and code[1] != 0):
            bad.append("exits with status %s" % _show(code))
    return bad


def _show(v):
    if v == AI.U:
        return "an undetermined value"
    if v[0] == "b":
        return "true" if v[1] else "false"
    if v[0] == "i":
        return str(v[1])
    if v[0] == "e":
        inner = AI.field_of(v, "0")
        return "%s(%s)" % (v[2], _show(inner) if inner != AI.U else "..") if v[2] else "a value of %s" % v[1]
    return str(v[0])


def _link(F, r, fn, site, forced, kind_out, key, what, c, opaque):
    """one obligation: when `site` yields `forced` (once, any visit), every outcome of fn is negative"""
    sb = site[1]
    sim = AI.Sim(F, site=site, forced=forced, tainted_by=_taint(F, fn, sb) if sb is not None and site[0] == fn.name else None, opaque=opaque)
    try:
        res = sim.run(fn, [AI.U] * fn.nargs)
    except AI.Lossy as e:
        need(False, "%s: %s" % (key, e))
    bad = _judge(F, fn, sim, res, kind_out)
    reached = any(f for f, v, o in res) or any(f for f, c2, n2, b2 in sim.exit_codes)
    if bad and sim.lossy:
        need(False, "%s: the verdict passes through %s, which is not modelled" % (key, sorted({x[2] for x in sim.lossy})[0]))
    if not reached and not bad:
        # the negative value never leaves the function through a return or an exit: it diverges (panic) or the site is dead
        r.inst(key, fn.where(sb) if sb is not None else fn.where(), True, "no outcome after %s (the path ends in a panic or loop)" % what, nontrivial=False)
        return
    r.inst(key, fn.where(sb) if sb is not None else fn.where(), not bad,
           "%s forces the caller's verdict on every path" % what if not bad else
           "verdict dropped: after %s from %s, %s %s" % (what, c.split("::")[-1], fn.name, sorted(set(bad))[0]),
           {"outcomes": sorted({_show(v) for f, v, o in res if f})[:6], "exit_codes": sorted({_show(c2) for f, c2, n2, b2 in sim.exit_codes if f})})


def r57(F):
    r = RuleResult("R57", "no verdict is dropped on the way to the exit status",
                   "every false / Ok(false) / Err result of do_validate, do_compile, visit_ucg_files (and of every helper or closure "
                   "that returns their verdict) makes the caller's own outcome negative on every path that sees it, whatever the "
                   "other results are: decided by evaluating the caller with that one result forced (three-valued abstract "
                   "interpretation of the MIR, no idiom matching)", floor=9)
    verdict = verdict_functions(F)
    opaque = set(verdict)
    roots = {n: k for n, k in verdict.items() if n not in SEEDS}
    need(all(x in roots for x in ROOT_VERDICTS), "do_validate / do_compile / visit_ucg_files are not recognised as verdict functions")
    for fn in [f for n, f in F.fns.items() if (f.crate == "ucg" or n.startswith("ucg::")) and not f.derived]:
        kind_out = _kind(fn.local_ty(0))
        sites = [(b, t) for b, t in fn.calls() if callee(t) in roots]
        for b, t in sites:
            c = callee(t)
            key = "%s->%s" % (fn.name, c)
            need(kind_out is not None, "%s returns %s: not a verdict type this rule understands" % (fn.name, fn.local_ty(0)))
            for suffix, forced in _negatives(roots[c]):
                what = {"": "a negative result", ":Err": "an Err"}[suffix]
                if "{closure" in fn.name and kind_out == "unit":
                    need(False, "%s: the closure returns () - its verdict leaves through captured state, which is not modelled" % key)
                _link(F, r, fn, (fn.name, b), forced, kind_out, key + suffix, what, c, opaque)
            if "{closure" in fn.name:
                _consumption(F, r, fn, key)
        # closures that carry a verdict are consumed by this function
        for cn in _closures_made(fn):
            if cn in roots:
                key = "%s->%s" % (fn.name, cn.split("::")[-1] if cn.startswith(fn.name) else cn)
                need(kind_out is not None, "%s returns %s: not a verdict type this rule understands" % (fn.name, fn.local_ty(0)))
                for suffix, forced in _negatives(roots[cn])[:1]:
                    _link(F, r, fn, (cn, None), forced, kind_out, key + ":consumed", "a negative result of the closure", cn, opaque)
    return r


def r58(F):
    r = RuleResult("R58", "per-file assertion collector",
                   "on every path from the per-file entry (build_file / FileBuilder::build) to evaluation in "
                   "validate mode, Environment.assert_results is re-initialised", floor=2)
    # who writes Environment.assert_results (whole-field assignment) or calls a reset method
    writers = []
    for n, fn in F.fns.items():
        if fn.derived:
            continue
        for b, j, pl, rv, meta in fn.assigns():
            fs = place_fields(pl)
            if fs and fs[-1] == "assert_results" and fn.local_adt(pl["l"]) and "Environment" in (fn.local_adt(pl["l"]) or ""):
                writers.append((n, b, "field assignment"))
            # aggregate construction of Environment (constructor)
            if rv["k"] == "agg" and rv.get("adt") == "ucglib::build::opcode::environment::Environment":
                writers.append((n, b, "constructor aggregate"))
    ctor_only = [w for w in writers if w[2] == "constructor aggregate"]
    resets = [w for w in writers if w[2] != "constructor aggregate"]
    # AssertCollector mutators other than record_assert_result (a reset method)
    reset_methods = []
    for n, fn in F.fns.items():
        if n.startswith("ucglib::build::AssertCollector::") and not n.endswith("::new") and not n.endswith("::record_assert_result") and "{closure" not in n:
            # a method assigning success = true
            for b, j, pl, rv, meta in fn.assigns():
                if place_fields(pl)[-1:] == ["success"] and rv["k"] == "use" and rv["ops"][0].get("int") == "1":
                    reset_methods.append(n)
    r.note("writers of Environment.assert_results: %s; reset methods: %s" % (writers, reset_methods))
    # per-file entries
    entries = ["ucg::build_file", "ucglib::build::FileBuilder::build"]
    reset_fns = set(w[0] for w in resets) | set(reset_methods)
    # transitive: functions that always call a reset fn are reset fns too (wrappers)
    changed = True
    while changed:
        changed = False
        for n, fn in F.fns.items():
            if n in reset_fns or fn.derived:
                continue
            blocks = [b for b, t in fn.calls() if callee(t) in reset_fns]
            if blocks and util.must_pass(fn, 0, blocks, exits=cfg.exits(fn)):
                reset_fns.add(n)
                changed = True
    for e in entries:
        fn = F.fn(e)
    # the property needs: between build_file's entry and the evaluation (FileBuilder::build -> eval_ops -> VM::run)
    # a reset happens. Check build_file: all paths from entry to the call of FileBuilder::build pass a reset,
    # or FileBuilder::build itself passes a reset before eval_ops.
    bf = F.fn("ucg::build_file")
    fb = F.fn("ucglib::build::FileBuilder::build")
    def passes_reset_before(fn, target_pred):
        tb = [b for b, t in fn.calls() if target_pred(callee(t))]
        need(tb, "no evaluation call found in %s" % fn.name)
        rb = set()
        for b, j, pl, rv, meta in fn.assigns():
            fs = place_fields(pl)
            if fs and fs[-1] == "assert_results":
                rb.add(b)
        rb |= {b for b, t in fn.calls() if callee(t) in reset_fns}
        if not rb:
            return False
        # every path entry -> target passes rb
        r_ = cfg.reachable(fn, 0, removed=rb)
        return not (set(tb) & r_) and 0 not in tb
    ok_bf = passes_reset_before(bf, lambda c: c == "ucglib::build::FileBuilder::build")
    ok_fb = passes_reset_before(fb, lambda c: c.endswith("FileBuilder::eval_ops"))
    ok = ok_bf or ok_fb
    r.inst("ucg::build_file", bf.where(), ok,
           "collector reset on every path to evaluation" if ok else
           "collector not reset: Environment.assert_results is only written by the constructor, so `success` is sticky "
           "and `summary` accumulates across the files of one invocation",
           {"writers": writers, "reset_fns": sorted(reset_fns)})
    r.inst("who-may-write:Environment.assert_results", "src/build/opcode/environment.rs", True,
           "%d constructor site(s), %d reset site(s)" % (len(ctor_only), len(resets) + len(reset_methods)), nontrivial=False)
    return r


def r59(F):
    r = RuleResult("R59", "every assert is recorded",
                   "in Builtins::assert every path to a return passes record_assert_result; malformed shapes pass false; "
                   "record_assert_result counts on both edges and clears success on the false edge only", floor=6)
    fn = F.fn("ucglib::build::opcode::runtime::Builtins::assert")
    rec = [(b, t) for b, t in fn.calls() if callee(t).endswith("::record_assert_result")]
    need(rec, "no record_assert_result call in Builtins::assert")
    rb = {b for b, _ in rec}
    ok = util.must_pass(fn, 0, rb, exits=cfg.exits(fn))
    r.inst("Builtins::assert:all-paths", fn.where(), ok,
           "every return path records a result" if ok else "a return path records no assertion result",
           {"record_sites": len(rec)})
    # polarity of each record site: constant false for the malformed-shape sites, the `ok` payload for the real one
    n_const_false = 0
    n_dynamic = 0
    for b, t in rec:
        a = t["args"][2]
        if a.get("int") == "0":
            n_const_false += 1
            r.inst("Builtins::assert:record", fn.where(b), True, "malformed assertion recorded as failure (const false)")
        elif a.get("int") == "1":
            r.inst("Builtins::assert:record", fn.where(b), False, "assertion recorded as success unconditionally (const true)")
        else:
            n_dynamic += 1
            o = Origins(fn)
            labs = o.of_operand(a)
            has_not = ("un", "Not") in labs
            from_bool = ("variant", "Bool") in labs
            r.inst("Builtins::assert:record", fn.where(b), from_bool and not has_not,
                   "recorded verdict is the tuple's Bool `ok` payload" if from_bool and not has_not else
                   "recorded verdict does not derive (un-negated) from the Bool payload of field ok",
                   {"labels": sorted(map(str, labs))[:12]})
    need(n_dynamic >= 1, "no dynamic record site")
    # the `ok` payload is taken from the field named "ok"
    consts = set()
    for b, j, pl, rv, meta in fn.assigns():
        pass
    strs = set()
    for b, t in fn.calls():
        for a in t["args"]:
            if "str" in a:
                strs.add(a["str"])
    for b, j, pl, rv, meta in fn.assigns():
        for a in rv.get("ops", []):
            if "str" in a:
                strs.add(a["str"])
    r.inst("Builtins::assert:field-names", fn.where(), "ok" in strs and "desc" in strs,
           "field names compared: ok, desc" if "ok" in strs and "desc" in strs else "field-name constants ok/desc not found",
           {"strings": sorted(s for s in strs if len(s) < 8)})
    # AssertCollector::record_assert_result
    rf = F.fn("ucglib::build::AssertCollector::record_assert_result")
    sw = util.bool_switches(rf, 3)
    need(len(sw) >= 1, "no switch on is_success in record_assert_result")
    succ_false = set()
    for b, j, pl, rv, meta in rf.assigns():
        if place_fields(pl)[-1:] == ["success"] and rv["k"] == "use" and rv["ops"][0].get("int") == "0":
            succ_false.add(b)
    succ_true = set()
    for b, j, pl, rv, meta in rf.assigns():
        if place_fields(pl)[-1:] == ["success"] and not (rv["k"] == "use" and rv["ops"][0].get("int") == "0"):
            succ_true.add(b)
    sb, ft, tt = sw[0]
    stop = util.ipdom(rf, sb)
    false_region = util.region(rf, ft, stop)
    true_region = util.region(rf, tt, stop)
    ok1 = util.must_pass(rf, ft, succ_false, exits=cfg.exits(rf))
    ok2 = not (true_region & succ_false)
    ok3 = not succ_true
    r.inst("AssertCollector::record_assert_result:success", rf.where(), ok1 and ok2 and ok3,
           "success cleared on the false edge only, never set back" if ok1 and ok2 and ok3 else
           "success flag handling broken (cleared on false edge: %s; untouched on true edge: %s; never re-set: %s)" % (ok1, ok2, ok3))
    # counter incremented on all paths
    cnt = set()
    for b, j, pl, rv, meta in rf.assigns():
        if place_fields(pl)[-1:] == ["counter"]:
            cnt.add(b)
    okc = bool(cnt) and util.must_pass(rf, 0, cnt, exits=cfg.exits(rf))
    r.inst("AssertCollector::record_assert_result:counter", rf.where(), okc,
           "counter incremented on every path" if okc else "a path does not increment the assertion counter")
    return r


def r60(F):
    r = RuleResult("R60", "verdict polarity",
                   "do_validate returns false on the assert_results()==false edge and on the Err edge, true otherwise; "
                   "the exit status is 1 iff ok is false; FileBuilder::assert_results returns the collector's success flag",
                   floor=6)
    dv = F.fn("ucg::do_validate")
    ret_false = set(util.blocks_assigning_const(dv, 0, 0))
    ret_true = set(util.blocks_assigning_const(dv, 0, 1))
    need(ret_false and ret_true, "do_validate does not assign constant verdicts")
    ar = [(b, t) for b, t in dv.calls() if callee(t) == "ucglib::build::FileBuilder::assert_results"]
    need(len(ar) == 1, "expected one assert_results call in do_validate, found %d" % len(ar))
    b, t = ar[0]
    sw = util.bool_switches(dv, t["dest"]["l"])
    need(sw, "assert_results() is not tested in do_validate")
    for sb, ft, tt in sw:
        ok_f = util.must_pass(dv, ft, ret_false, exits=cfg.exits(dv)) and not (cfg.reachable(dv, ft) & ret_true)
        ok_t = util.must_pass(dv, tt, ret_true, exits=cfg.exits(dv)) and not (cfg.reachable(dv, tt) & ret_false)
        r.inst("do_validate:assert_results=false", dv.where(sb), ok_f,
               "returns false" if ok_f else "failed assertions do not yield a false verdict (polarity)")
        r.inst("do_validate:assert_results=true", dv.where(sb), ok_t,
               "returns true" if ok_t else "passing assertions do not yield a true verdict (polarity)")
    bf = [(b, t) for b, t in dv.calls() if callee(t) == "ucg::build_file"]
    need(len(bf) == 1, "expected one build_file call in do_validate")
    esw = util.enum_switches(dv, bf[0][1]["dest"]["l"])
    need(esw, "build_file result not matched in do_validate")
    for sb, st in esw:
        et = cfg.switch_edge(st, variant="Err")
        ok = util.must_pass(dv, et, ret_false, exits=cfg.exits(dv)) and not (cfg.reachable(dv, et) & ret_true)
        r.inst("do_validate:build Err", dv.where(sb), ok, "returns false" if ok else "a build error does not yield a false verdict")
    # do_compile
    dc = F.fn("ucg::do_compile")
    cf = set(util.blocks_assigning_const(dc, 0, 0))
    ct = set(util.blocks_assigning_const(dc, 0, 1))
    bf = [(b, t) for b, t in dc.calls() if callee(t) == "ucg::build_file"]
    need(len(bf) == 1 and cf and ct, "do_compile shape")
    for sb, st in util.enum_switches(dc, bf[0][1]["dest"]["l"]):
        et = cfg.switch_edge(st, variant="Err")
        okt = cfg.switch_edge(st, variant="Ok")
        ok = util.must_pass(dc, et, cf, exits=cfg.exits(dc)) and not (cfg.reachable(dc, et) & ct)
        ok2 = not (cfg.reachable(dc, okt) & cf)
        r.inst("do_compile:build Err", dc.where(sb), ok, "returns false" if ok else "a build error does not yield a false verdict")
        r.inst("do_compile:build Ok", dc.where(sb), ok2, "returns true" if ok2 else "a successful build can yield a false verdict")
    # visit_ucg_files: result=false only on false edges
    vf = F.fn("ucg::visit_ucg_files")
    vblocks, cand = _verdict_blocks(vf)
    for b, t in vf.calls():
        if callee(t) in ("ucg::do_validate", "ucg::do_compile"):
            for sb, ft, tt in util.bool_switches(vf, t["dest"]["l"]):
                stop = util.ipdom(vf, sb)
                treg = util.region(vf, tt, stop)
                ok = not (treg & vblocks)
                r.inst("visit_ucg_files:%s=true" % callee(t).split("::")[-1], vf.where(sb), ok,
                       "verdict untouched on the success edge" if ok else "verdict cleared on the success edge")
    # exit status: exit(1) iff ok false
    for name in ("ucg::test_command", "ucg::build_command"):
        fn = F.fn(name)
        vb, cand = _verdict_blocks(fn)
        oks = [l for l in cand if l != 0]
        need(oks, "no verdict local in %s" % name)
        for l in oks:
            for sb, ft, tt in util.bool_switches(fn, l):
                nz = _nonzero_exit_blocks(fn)
                ok_f = util.must_pass(fn, ft, nz)
                ok_t = not (cfg.reachable(fn, tt) & nz)
                r.inst("%s:ok=false" % name, fn.where(sb), ok_f, "reaches exit(1)" if ok_f else "ok=false does not force a non-zero exit")
                r.inst("%s:ok=true" % name, fn.where(sb), ok_t, "does not reach exit(1)" if ok_t else "ok=true can reach a non-zero exit")
    # FileBuilder::assert_results returns collector.success
    ar = F.fn("ucglib::build::FileBuilder::assert_results")
    o = Origins(ar)
    labs = o.of_local(0)
    ok = ("field", "success") in labs and ("field", "assert_results") in labs and ("un", "Not") not in labs
    r.inst("FileBuilder::assert_results", ar.where(), ok,
           "returns environment.assert_results.success" if ok else "does not return the collector's success flag un-negated")
    return r


def r58e(F):
    r = RuleResult("R58e", "building a file evaluates it",
                   "every successful return of FileBuilder::build has passed eval_ops (the run of the file's own code), after the "
                   "per-file reset of the assertion collector: a shortcut that returns a value the import cache already holds skips the "
                   "file's assertions, which were recorded into the importer's report and discarded by the reset", floor=1)
    fn = F.fn("ucglib::build::FileBuilder::build")
    ev = {b for b, t in fn.calls() if callee(t).endswith("FileBuilder::eval_ops") or callee(t) == "ucglib::build::opcode::vm::VM::run"}
    need(ev, "FileBuilder::build does not call eval_ops")
    oks = [b for b, j, pl, rv, m in fn.assigns() if pl["l"] == 0 and not pl["p"] and rv["k"] == "agg" and rv.get("variant") == "Ok"]
    need(oks, "FileBuilder::build has no Ok return")
    ok = all(ob not in cfg.reachable(fn, 0, removed=ev) for ob in oks)
    r.inst("FileBuilder::build:evaluates", fn.where(sorted(ev)[0]), ok, "Ok only after eval_ops" if ok else
           "FileBuilder::build can return Ok without evaluating the file (a cached value?): a *_test.ucg that was imported earlier in the "
           "same invocation reports Pass with an empty log")
    return r


RULES = [r57, r58, r59, r60, r58e]
