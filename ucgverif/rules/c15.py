"""C15 — included data files decode to the data they contain.  R53 R54 R55 R56 R87."""
from .. import cfg, util
from ..core import RuleResult, need, AnchorError
from ..facts import callee, op_local, op_place
from ..origins import Origins, calls_in

INCLUDE = "ucglib::build::opcode::runtime::Builtins::include"
DYN_IMPORT = "ucglib::convert::traits::Importer::import"
UTF8_READS = ("::read_to_string", "::from_utf8", "::from_utf8_lossy", "::from_utf8_unchecked", "::read_line", "::lines")
BYTE_READS = ("::read_to_end", "std::fs::read", "::read_exact")


def _str_edge(fn):
    """(true_target, false_target) of the `typ == "str"` test in include"""
    o = Origins(fn)
    for b, t in fn.calls():
        if callee(t).endswith("::eq") and any(("const", "str", "str") in o.at(a, b) for a in t["args"]):
            sw = util.bool_switches(fn, t["dest"]["l"])
            need(sw, "`typ == \"str\"` result is not tested")
            sb, ft, tt = sw[0]
            return tt, ft
    need(False, "`typ == \"str\"` comparison not found in Builtins::include")


def _stack_pushes(fn):
    out = []
    for b, t in fn.calls():
        if callee(t) == "alloc::vec::Vec::push":
            l = op_local(t["args"][0])
            if l is not None and "alloc::vec::Vec<(alloc::rc::Rc<ucglib::build::opcode::Value>" in fn.local_ty(l):
                out.append(b)
    return out


def _transitive_callees(F, name, depth=3):
    seen = set()
    work = [(name, 0)]
    while work:
        n, d = work.pop()
        f = F.fns.get(n)
        if f is None:
            continue
        for b, t in f.calls():
            c = callee(t)
            if c not in seen:
                seen.add(c)
                if d < depth and c.startswith("ucglib::"):
                    work.append((c, d + 1))
    return seen


def r53(F):
    r = RuleResult("R53", "importer on every success path of a typed include",
                   "for every include type other than `str`, each path that pushes a value has passed Importer::import", floor=2)
    fn = F.fn(INCLUDE)
    str_t, nonstr_t = _str_edge(fn)
    imp = [b for b, t in fn.calls() if callee(t) == DYN_IMPORT]
    need(imp, "no Importer::import call in Builtins::include")
    pushes = _stack_pushes(fn)
    need(pushes, "no stack push in Builtins::include")
    bypass = cfg.reachable(fn, nonstr_t, removed=set(imp))
    for pb in pushes:
        if cfg.dominates(fn, str_t, pb):
            r.inst("include:str-push", fn.where(pb), True, "push on the `str` branch (no importer by definition)")
            continue
        if pb not in bypass:
            r.inst("include:typed-push", fn.where(pb), True, "every path to the push passes Importer::import")
            continue
        # one instance per bypass: a value built on an importer-free path, keyed by the variant it builds and by
        # the test that guards it (callee whose bool result the nearest dominating switch decides on)
        found = 0
        for b, j, pl, rv, meta in fn.assigns():
            if b in bypass and rv["k"] == "agg" and (rv.get("adt") or "") in ("ucglib::build::opcode::Primitive", "ucglib::build::opcode::Composite") \
                    and pb in cfg.reachable(fn, b, removed=set(imp)):
                guard = "?"
                x = b
                idom = cfg.idoms(fn)
                while idom.get(x, x) != x:
                    x = idom[x]
                    tt = fn.term(x)
                    if tt["k"] == "switch":
                        l = op_local(tt["on"])
                        for bb, t2 in fn.calls():
                            if t2["dest"]["l"] == l and not t2["dest"]["p"]:
                                guard = callee(t2).split("::")[-1]
                        break
                found += 1
                r.inst("include:typed-push:bypass:%s::%s:guard=%s" % (rv["adt"].split("::")[-1], rv.get("variant"), guard),
                       fn.where(b), False,
                       "a typed include pushes %s::%s without calling the importer (guarded by `%s`)" % (rv["adt"].split("::")[-1], rv.get("variant"), guard))
        if not found:
            r.inst("include:typed-push", fn.where(pb), False, "a typed include can push a value without calling the importer")
    return r


def r54(F):
    r = RuleResult("R54", "byte-preserving read",
                   "the bytes handed to Importer::import do not pass a UTF-8 validating or lossy read", floor=1)
    fn = F.fn(INCLUDE)
    o = Origins(fn)
    for b, t in fn.calls():
        if callee(t) == DYN_IMPORT:
            labs = o.at(t["args"][1], b)
            cs = calls_in(labs)
            expanded = set(cs)
            for c in cs:
                if c.startswith("ucglib::"):
                    expanded |= _transitive_callees(F, c, 2)
            bad = sorted(c for c in expanded if c.endswith(UTF8_READS))
            good = sorted(c for c in expanded if c.endswith(BYTE_READS))
            ok = not bad and bool(good)
            r.inst("include:import-arg", fn.where(b), ok,
                   "importer input comes from a byte read (%s)" % good if ok else
                   "importer input passes %s: a file that is not valid UTF-8 (binary data for b64) cannot be included" % (bad or "no recognised byte read"),
                   {"calls": sorted(cs)})
    return r


def r55(F):
    r = RuleResult("R55", "include error table",
                   "unknown include type -> Err; importer Err -> Err; `str` yields the file text unchanged", floor=3)
    fn = F.fn(INCLUDE)
    err_blocks = {b for b, j, pl, rv, meta in fn.assigns() if pl["l"] == 0 and rv["k"] == "agg" and rv.get("variant") == "Err"}
    pushes = set(_stack_pushes(fn))
    gi = [(b, t) for b, t in fn.calls() if callee(t) == "ucglib::convert::ImporterRegistry::get_importer"]
    need(len(gi) == 1, "get_importer call not found")
    for sb, st in util.enum_switches(fn, gi[0][1]["dest"]["l"]):
        ne = cfg.switch_edge(st, variant="None")
        ok = util.must_pass(fn, ne, err_blocks, exits=cfg.exits(fn)) and not (cfg.reachable(fn, ne) & pushes)
        r.inst("include:unknown-type", fn.where(sb), ok, "returns Err, pushes nothing" if ok else "unknown include type does not end in an error")
    for b, t in fn.calls():
        if callee(t) == DYN_IMPORT:
            for sb, st in util.enum_switches(fn, t["dest"]["l"]):
                ee = cfg.switch_edge(st, variant="Err")
                ok = util.must_pass(fn, ee, err_blocks, exits=cfg.exits(fn)) and not (cfg.reachable(fn, ee) & pushes)
                r.inst("include:importer-Err", fn.where(sb), ok, "returns Err, pushes nothing" if ok else "a decoding error does not end in a build error")
    # str path: pushed value derives from get_file_as_string through wrappers only
    str_t, _ = _str_edge(fn)
    o = Origins(fn)
    for pb in pushes:
        if cfg.dominates(fn, str_t, pb):
            cs = calls_in(o.at(fn.term(pb)["args"][1], pb))
            noise = {c for c in cs if c.endswith(("::into", "::from", "Rc::new", "::clone", "::branch", "::as_ref", "::deref", "Vec::pop", "::eq"))}
            rest = sorted(cs - noise)
            ok = rest == ["ucglib::build::opcode::runtime::Builtins::get_file_as_string"]
            r.inst("include:str-unchanged", fn.where(pb), ok,
                   "`include str` pushes the text read by get_file_as_string unchanged" if ok else "`include str` value passes %s" % rest)
    gs = F.fn("ucglib::build::opcode::runtime::Builtins::get_file_as_string")
    cs = {callee(t) for b, t in gs.calls()}
    extra = sorted(c for c in cs if not c.endswith(("File::open", "::branch", "::from_residual", "String::new", "::read_to_string", "::into", "::from")) and "drop" not in c)
    r.inst("get_file_as_string", gs.where(), not extra and any(c.endswith("::read_to_string") for c in cs),
           "open + read_to_string, nothing else" if not extra else "text is post-processed by %s" % extra)
    return r


def r56(F):
    r = RuleResult("R56", "integers stay integers",
                   "json/yaml: the as_i64 test precedes the float fallback and its Some edge builds Val::Int, and no Int payload "
                   "comes out of a cast from a type whose range i64 does not contain (u64 as i64 wraps); toml: Integer -> Int",
                   floor=7)
    for conv, fname in (("json", "ucglib::convert::json::JsonConverter::convert_json_val"),
                        ("yaml", "ucglib::convert::yaml::YamlConverter::convert_yaml_val")):
        fn = F.fn(fname)
        # the function itself and the helpers of the convert module it hands numbers to
        fns = [fn] + [F.fn(callee(t)) for b, t in fn.calls() if callee(t).startswith("ucglib::convert::") and callee(t) in F.fns
                      and callee(t) != fname and "convert_" not in callee(t).split("::")[-1]]
        ints = []
        wraps = []
        for f2 in fns:
            o2 = Origins(f2)
            for b2, j, pl, rv, m in f2.assigns():
                if rv["k"] == "agg" and rv.get("adt") == "ucglib::build::ir::Val" and rv.get("variant") == "Int":
                    labs = o2.at(rv["ops"][0], b2)
                    via_float = any(l[0] == "cast" and "Float" in str(l[1]) for l in labs) or any(c.endswith("as_f64") for c in calls_in(labs)) \
                        or any(l[0] == "cast" and len(l) > 2 and str(l[2]).startswith("f") for l in labs)
                    # a cast from an integer type whose range i64 does not contain wraps (u64 2^63..2^64-1 -> negative)
                    wrap = sorted({"%s as %s" % (l[2], l[3]) for l in labs if l[0] == "cast" and l[1] == "IntToInt" and len(l) > 3
                                   and str(l[2]) in ("u64", "usize", "u128", "i128")})
                    if wrap:
                        guarded = any(rv3["k"] == "bin" and rv3["op"] in ("Gt", "Lt", "Ge", "Le") and str(rv3.get("ty")) in ("u64", "usize", "u128", "i128")
                                      for b3, j3, pl3, rv3, m3 in f2.assigns()) or any("try_from" in callee(t3) or "try_into" in callee(t3) for b3, t3 in f2.calls())
                        need(not guarded, "%s: an unsigned view is cast to i64 under a range test this rule does not evaluate" % f2.name)
                        wraps.append((f2, b2, wrap))
                    ints.append((f2, b2, via_float))
        if not ints:
            # `as_i64().map_or_else(|| Val::Float(..), Val::Int)`: the constructor is handed to a combinator as a function item
            ctor = [1 for f2 in fns + F.closures_of(fname) for b2, t2 in f2.calls() for a2 in t2["args"] if str(a2.get("fn", "")).endswith("Val::Int")]
            need(not ctor, "%s: Val::Int is applied through a combinator (map_or_else / map): which view feeds it is not read by this rule" % fname)
            r.inst("%s:int-before-float" % conv, fn.where(), False, "the %s importer never builds a Val::Int: integers are imported as floats" % conv)
            continue
        bad = [(f2, b2) for f2, b2, vf in ints if vf]
        r.inst("%s:int-payload" % conv, (bad[0][0].where(bad[0][1]) if bad else ints[0][0].where(ints[0][1])), not bad,
               "the Int payload comes from the number's integer view, never through a float" if not bad else
               "an imported integer is produced from the number's f64 view (float -> int cast): integers above 2^53 change value "
               "(9007199254740993 -> 9007199254740992)")
        r.inst("%s:int-lossless" % conv, (wraps[0][0].where(wraps[0][1]) if wraps else ints[0][0].where(ints[0][1])), not wraps,
               "no Int payload passes through a cast from an integer type wider than i64's range" if not wraps else
               "an imported integer is produced by `%s`: a number that only has an unsigned view (2^63..2^64-1) wraps to a negative "
               "integer instead of being imported as a float (18446744073709551615 -> -1)" % wraps[0][2][0])
        ai = [(b, t) for b, t in fn.calls() if callee(t).endswith("Number::as_i64")]
        if not ai:
            if not bad:
                raise AnchorError("as_i64 not found in %s and the Int payload's origin was not recognised" % fname)
            continue
        b, t = ai[0]
        # with the integer view present (as_i64 is Some) no Val::Float may be built: decided on the paths, here or in the helper
        # the two views are handed to
        o = Origins(fn)
        dest = t["dest"]["l"]
        floats_here = {b2 for b2, j, pl, rv, m in fn.assigns() if rv["k"] == "agg" and rv.get("adt") == "ucglib::build::ir::Val" and rv.get("variant") == "Float"}
        ok = True
        seen_float = bool(floats_here)
        if floats_here:
            reach = cfg.reachable_ps(fn, t["t"], init={dest: "Some"}.items())
            # ... and no Val::Float is built before the integer view was asked for at all
            early = cfg.reachable(fn, 0, removed={b3 for b3, t3 in ai})
            ok = not (reach & floats_here) and not (early & floats_here)
        for f2 in fns[1:]:
            fl2 = {b2 for b2, j, pl, rv, m in f2.assigns() if rv["k"] == "agg" and rv.get("adt") == "ucglib::build::ir::Val" and rv.get("variant") == "Float"}
            if not fl2:
                continue
            seen_float = True
            # which parameter of the helper receives the integer view
            params = []
            for cb, ct in fn.calls():
                if callee(ct) == f2.name:
                    for k, a in enumerate(ct["args"]):
                        if ("call", callee(t), b) in o.at(a, cb):
                            params.append(k + 1)
            if not params:
                ok = False       # the helper decides without the integer view
                continue
            reach = cfg.reachable_ps(f2, 0, init={params[0]: "Some"}.items())
            if reach & fl2:
                ok = False
        need(seen_float, "%s: no Val::Float is built for a number" % fname)
        r.inst("%s:int-before-float" % conv, fn.where(b), ok,
               "with as_i64 = Some no path builds a Val::Float" if ok else "a number with an integer view can be imported as a float")
    fn = F.fn("ucglib::convert::toml::TomlConverter::convert_toml_val")
    ok = False
    for b in range(len(fn.blocks)):
        t = fn.term(b)
        if t["k"] == "switch" and (t.get("enum") or "").endswith("toml::value::Value"):
            ie = cfg.switch_edge(t, variant="Integer")
            stop = util.ipdom(fn, b)
            reg = util.region(fn, ie, stop)
            ok = any(b2 in reg and rv["k"] == "agg" and rv.get("variant") == "Int" for b2, j, pl, rv, m in fn.assigns()) and \
                not any(b2 in reg and rv["k"] == "agg" and rv.get("variant") == "Float" for b2, j, pl, rv, m in fn.assigns())
    r.inst("toml:Integer->Int", fn.where(), ok, "toml Integer -> Val::Int" if ok else "toml Integer is not imported as Val::Int")
    return r


def r87(F):
    r = RuleResult("R87", "importer registry table",
                   "b64 -> standard alphabet, b64urlsafe -> URL-safe alphabet, json/yaml/toml -> their own converters; "
                   "both base64 edges encode the unmodified input bytes", floor=7, exhaustive=True)
    fn = F.fn("ucglib::convert::ImporterRegistry::make_registry")
    o = Origins(fn)
    reg = {}
    def entry(labs):
        tys = sorted(l[2] for l in labs if l[0] == "cast" and "Box<" in l[2] and "dyn" not in l[2])
        ty = tys[0].replace("alloc::boxed::Box<", "").rstrip(">") if len(tys) == 1 else "?"
        flags = sorted(l[2] for l in labs if l[0] == "const" and l[1] == "int")
        return (ty, flags)
    dynamic = False
    for b, t in fn.calls():
        if callee(t) == "ucglib::convert::ImporterRegistry::register":
            nm = t["args"][1].get("str")
            if nm is None:
                dynamic = True          # registered from a table of (name, importer) pairs
                continue
            reg[nm] = entry(o.at(t["args"][2], b))
    if dynamic:
        for b, j, pl, rv, m in fn.assigns():
            if rv["k"] == "agg" and rv.get("adt") == "(tuple)" and len(rv["ops"]) == 2:
                strs = [rv["ops"][0]["str"]] if rv["ops"][0].get("str") is not None else \
                    sorted(l[2] for l in o.at(rv["ops"][0], b) if l[0] == "const" and l[1] == "str")
                e = entry(o.at(rv["ops"][1], b))
                if len(strs) == 1 and e[0] != "?":
                    reg[strs[0]] = e
        need(reg, "ImporterRegistry::make_registry registers from a table this rule cannot read")
    expect = {"b64": ("ucglib::convert::b64::Base64Importer", ["0"]), "b64urlsafe": ("ucglib::convert::b64::Base64Importer", ["1"]),
              "json": ("ucglib::convert::json::JsonConverter", []), "yaml": ("ucglib::convert::yaml::YamlConverter", []),
              "toml": ("ucglib::convert::toml::TomlConverter", [])}
    for nm in sorted(set(expect) | set(reg)):
        got = reg.get(nm)
        ok = nm in expect and got is not None and got[0] == expect[nm][0] and list(got[1]) == expect[nm][1]
        r.inst("importers:%s" % nm, fn.where(), ok,
               "%s -> %s%s" % (nm, got[0].split("::")[-1], " url_safe=%s" % got[1][0] if got[1] else "") if ok else
               "include type %s: expected %s, registered %s" % (nm, expect.get(nm), got))
    bf = F.fn("<ucglib::convert::b64::Base64Importer as ucglib::convert::traits::Importer>::import")
    ob = Origins(bf)
    sw = [(b, bf.term(b)) for b in range(len(bf.blocks)) if bf.term(b)["k"] == "switch"]
    need(sw, "no switch on url_safe")
    sb, st = sw[0]
    src = ob.of_operand(st["on"])
    need(("field", "url_safe") in src, "switch in Base64Importer::import is not on url_safe")
    tt = st["otherwise"]
    ft = [x["t"] for x in st["targets"] if x["val"] == "0"][0]
    stop = util.ipdom(bf, sb)
    for edge, name, want in ((tt, "url_safe=true", "URL_SAFE"), (ft, "url_safe=false", "STANDARD")):
        regn = util.region(bf, edge, stop)
        enc = [(b, t) for b, t in bf.calls() if b in regn and callee(t).endswith("Engine::encode")]
        ok = False
        detail = None
        if len(enc) == 1:
            b, t = enc[0]
            l0 = ob.at(t["args"][0], b)
            l1 = ob.at(t["args"][1], b)
            engines = sorted(x[2].split("::")[-1] for x in l0 if x[0] == "const" and "general_purpose" in str(x[2]) and "promoted" not in str(x[2]))
            ok = engines == [want] and ("param", 2) in l1 and not calls_in(l1)
            detail = {"engine": engines, "input": sorted(map(str, l1))}
        elif not enc:
            # the edge only selects the engine (a reference to the constant); one encode after the join uses it
            shared = [(b, t) for b, t in bf.calls() if callee(t).endswith("Engine::encode") and stop is not None and b in cfg.reachable(bf, stop)]
            picked = set()
            for b2 in regn:
                for st2 in bf.blocks[b2]["stmts"]:
                    if st2[0] == "assign":
                        for op2 in st2[2].get("ops", []) or []:
                            c2 = str(op2.get("const", ""))
                            if "general_purpose" in c2 and "promoted" not in c2:
                                picked.add(c2.split("::")[-1])
                        if st2[2]["k"] == "ref":
                            pass
            # constants reach the engine local through a reference to a static: read them from the labels restricted to this edge
            if len(shared) == 1:
                b, t = shared[0]
                l0 = set()
                for b2 in regn:
                    for st2 in bf.blocks[b2]["stmts"]:
                        if st2[0] == "assign":
                            l0 |= {x for x in ob.at(st2[1], b2) if x[0] == "const" and "general_purpose" in str(x[2]) and "promoted" not in str(x[2])}
                engines = sorted({x[2].split("::")[-1] for x in l0} | picked)
                l1 = ob.at(t["args"][1], b)
                allsel = sorted(x[2].split("::")[-1] for x in ob.at(t["args"][0], b) if x[0] == "const" and "general_purpose" in str(x[2]) and "promoted" not in str(x[2]))
                need(engines, "Base64Importer::import: the engine selected on edge %s was not identified" % name)
                ok = engines == [want] and want in allsel and ("param", 2) in l1 and not calls_in(l1)
                detail = {"engine": engines, "input": sorted(map(str, l1))}
        r.inst("b64:%s" % name, bf.where(edge), ok,
               "%s.encode(bytes) on the unmodified input" % want if ok else "edge %s does not encode the raw input with %s" % (name, want), detail)
    return r


def r55w(F):
    r = RuleResult("R55w", "an included document is decoded to its end",
                   "the json, yaml and toml importers hand the whole input to a whole-document entry point of the decoder "
                   "(from_slice / from_str / from_reader), or call end() on a streaming deserializer: a stream that yields its first value "
                   "and is dropped never looks at what follows, so `{\"a\": 1}}` or two concatenated documents are accepted", floor=3)
    WHOLE = ("::from_slice", "::from_str", "::from_reader", "de::from_slice", "de::from_str", "de::from_reader")
    for conv, cname in (("json", "ucglib::convert::json::JsonConverter"), ("yaml", "ucglib::convert::yaml::YamlConverter"), ("toml", "ucglib::convert::toml::TomlConverter")):
        cands = [n for n in F.fns if n.startswith("<" + cname + " as ucglib::convert::traits::Importer>::import")]
        need(cands, "Importer::import of %s not found" % conv)
        fn = F.fn(cands[0])
        cs = [callee(t) for b, t in fn.calls()]
        lib = "serde_" + conv if conv != "toml" else "toml"
        whole = [c for c in cs if c.startswith(lib) and c.endswith(("from_slice", "from_str", "from_reader"))]
        stream = [c for c in cs if c.startswith(lib) and ("Deserializer" in c or "StreamDeserializer" in c)]
        ended = any(c.endswith("::end") for c in cs)
        ok = bool(whole) and not stream or (bool(stream) and ended)
        r.inst("%s:whole-input" % conv, fn.where(), ok,
               "decoded with %s" % (whole[0].split("::")[-1] if whole else "a stream checked with end()") if ok else
               "the %s importer takes values from a streaming deserializer (%s) without calling end(): input after the first value is "
               "never inspected" % (conv, ", ".join(sorted({c.split("::")[-1] for c in stream})) or "no whole-document entry point"))
    return r


RULES = [r53, r54, r55, r56, r87, r55w]
