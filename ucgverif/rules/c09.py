"""C09 — imports resolve against the importing file, run once, cycles are errors.  R25 R26 R27 R68."""
from .. import cfg, util, callgraph, translator as TR
from ..core import RuleResult, need
from ..facts import callee, op_local, op_place
from ..origins import Origins, calls_in

W = "ucglib::ast::walk::Walker::"
AST = "ucglib::ast::"
EXPR = AST + "Expression"
STMT = AST + "Statement"
VALUE = AST + "Value"
FIELDLIST = "alloc::vec::Vec<(ucglib::ast::Token, core::option::Option<ucglib::ast::Expression>, ucglib::ast::Expression)>"

# leaf children never set by the parser to anything that can hold an import (one line each)
EXEMPT = {
    "Expression::Call.funcref": "Value built by tuple_to_call from a selector: always a Symbol/Str/Int",
    "Expression::Copy.selector": "Value built by copy_expression from a selector: always a Symbol/Str/Int",
}


def _reaches_expr(F, ty_reaches, memo):
    def adt_reaches(a, seen):
        if a in memo:
            return memo[a]
        if a in (EXPR, STMT, VALUE):
            return True
        if a in seen:
            return False
        seen = seen | {a}
        d = F.adts.get(a)
        if d is None:
            return False
        r = any(adt_reaches(x, seen) for v in d["variants"] for f in v["fields"] for x in f["reaches"])
        memo[a] = r
        return r
    return any(adt_reaches(x, frozenset()) for x in ty_reaches)


def _leaves(F, adt, variant, path, memo):
    """yields (path list, field name, kind, detail) for every child of `adt::variant` that can hold an Expression.
    kind: expr | value | stmts | fieldlist | argdefs ; descends through local structs/enums"""
    d = F.adts[adt]
    v = [x for x in d["variants"] if x["name"] == variant][0]
    for f in v["fields"]:
        if not _reaches_expr(F, f["reaches"], memo):
            continue
        ty = f["ty"]
        name = f["name"]
        if FIELDLIST in ty:
            yield path, name, "fieldlist", ty
        elif "ucglib::ast::PositionedItem<alloc::rc::Rc<str>>, core::option::Option<ucglib::ast::Expression>" in ty:
            yield path, name, "argdefs", ty
        elif EXPR in ty:
            yield path, name, "expr", ty
        elif STMT in ty:
            yield path, name, "stmts", ty
        elif ty == VALUE:
            yield path, name, "value", ty
        else:
            # a local struct / enum (possibly boxed): descend
            inner = [x for x in f["reaches"] if x.startswith(AST) and x not in (EXPR, STMT, VALUE) and x in F.adts and _reaches_expr(F, [x], memo)]
            # take the outermost: the one whose name appears first in the type string
            inner.sort(key=lambda x: ty.find(x) if ty.find(x) >= 0 else 10 ** 6)
            need(inner, "cannot classify field %s: %s of %s::%s" % (name, ty, adt, variant))
            sub = inner[0]
            sd = F.adts[sub]
            if sd["kind"] == "struct":
                for x in _leaves(F, sub, sd["variants"][0]["name"], path + [("field", name)] if not name.isdigit() else path, memo):
                    yield x
            else:
                for sv in sd["variants"]:
                    for x in _leaves(F, sub, sv["name"], path + ([("field", name)] if not name.isdigit() else []) + [("arm", sub, sv["name"])], memo):
                        yield x


def r25(F):
    r = RuleResult("R25", "walker completeness",
                   "for every variant of Statement / Expression / Value (and of the nested FuncOpDef, FormatArgs, ConstraintArm) every "
                   "child that can hold an Expression is handed to a walk_* call of the generic Walker that drives the import-path "
                   "rewriter; an unvisited child keeps its relative path and is resolved against the process's cwd", floor=45,
                   exhaustive=True)
    memo = {}
    roots = ((W + "walk_statement", STMT), (W + "walk_expression", EXPR), (W + "walk_value", VALUE))
    for fname, enum in roots:
        fn = F.fn(fname)
        o = Origins(fn)
        walk_calls = [(b, t) for b, t in fn.calls() if callee(t).startswith(W + "walk_")]
        for variant in F.variants(enum):
            arm = TR.arm_blocks(fn, enum, variant)
            for path, field, kind, ty in _leaves(F, enum, variant, [], memo):
                blocks = set(arm)
                for p in path:
                    if p[0] == "arm":
                        blocks &= TR.arm_blocks(fn, p[1], p[2])
                label = "%s::%s" % (enum.split("::")[-1], variant) + "".join(
                    "." + (p[1] if p[0] == "field" else p[2]) for p in path) + "." + field
                if label in EXEMPT:
                    r.inst(label, fn.where(), True, "exempt: " + EXEMPT[label], nontrivial=False)
                    continue
                want_callee = {"expr": ("walk_expression",), "value": ("walk_value",), "stmts": ("walk_statement", "walk_statement_list"),
                               "fieldlist": ("walk_fieldset",), "argdefs": ("walk_expression",)}[kind]
                hit = False
                for b, t in walk_calls:
                    if b not in blocks:
                        continue
                    if callee(t)[len(W):] not in want_callee:
                        continue
                    labs = o.at(t["args"][1], b)
                    if ("field", field) in labs and all(("field", p[1]) in labs for p in path if p[0] == "field"):
                        hit = True
                r.inst(label, fn.where(min(blocks) if blocks else None), hit,
                       "walked (%s)" % want_callee[0] if hit else
                       "not walked: an import/include inside %s keeps its relative path (resolved against the cwd, not the file)" % label)
    # FieldList tuples: both the constraint (position 1) and the value (position 2) are walked by walk_fieldset
    fs = F.fn(W + "walk_fieldset")
    o = Origins(fs)
    calls = [(b, t) for b, t in fs.calls() if callee(t) == W + "walk_expression"]
    for pos, what in (("2", "value"), ("1", "constraint")):
        hit = any(("field", pos) in o.at(t["args"][1], b) for b, t in calls)
        r.inst("FieldList.%s" % what, fs.where(), hit, "walked" if hit else
               "not walked: an import in a field %s of a tuple / copy / select / module parameter list keeps its relative path" % what)
    return r


IMPORT = "ucglib::build::opcode::runtime::Builtins::import"


def r26(F):
    r = RuleResult("R26", "import hook protocol",
                   "normalise -> cache lookup -> cycle test -> mark in progress -> run -> cache; the path being imported is on the "
                   "import stack handed to the VM that evaluates it", floor=6)
    fn = F.fn(IMPORT)
    o = Origins(fn)
    def blocks_of(pred):
        return [b for b, t in fn.calls() if pred(callee(t))]
    norm = blocks_of(lambda c: c == "ucglib::path::normalize")
    look = blocks_of(lambda c: c.endswith("Environment::get_cached_path_val"))
    ops = blocks_of(lambda c: c.endswith("Environment::get_ops_for_path"))
    run = blocks_of(lambda c: c == "ucglib::build::opcode::vm::VM::run")
    upd = blocks_of(lambda c: c.endswith("Environment::update_path_val"))
    need(look and ops and run and upd, "import hook anchors missing (lookup/get_ops/run/update)")
    if not norm:
        # normalising somewhere else only helps if it covers every path string that reaches the hook: the cache accessors themselves
        env_norm = all(any(callee(t) == "ucglib::path::normalize" for b, t in F.fn(n).calls())
                       for n in F.fns if n.endswith(("Environment::get_cached_path_val", "Environment::update_path_val")))
        r.inst("import:normalize-first", fn.where(look[0]), env_norm,
               "the cache accessors normalise their key" if env_norm else
               "the import hook uses the path string as it arrives (no path::normalize here or in the cache accessors): an absolute path "
               "with `.` / `..` segments, which no rewriter touches, is a second cache key for the same file and is evaluated again")
    else:
        ok = all(cfg.dominates(fn, norm[0], b) for b in look + ops + run)
        r.inst("import:normalize-first", fn.where(norm[0]), ok, "path normalised before the cache lookup and the load" if ok else "a cache lookup / load happens before normalisation: equivalent spellings miss the cache")
        # the looked-up key derives from normalize
        for b in look:
            labs = o.at(fn.term(b)["args"][1], b)
            okk = "ucglib::path::normalize" in calls_in(labs)
            r.inst("import:lookup-key", fn.where(b), okk, "cache key is the normalised path" if okk else "cache looked up with the raw path")
    first_look = [b for b in look if all(cfg.dominates(fn, b, x) for x in ops)]
    r.inst("import:lookup-before-load", fn.where(look[0]), bool(first_look), "cache consulted before get_ops_for_path" if first_look else "file loaded without consulting the cache")
    # cycle test: an `any`/contains over import_stack whose true edge returns Err, before run
    stack_params = [i for i in range(1, fn.nargs + 1) if "alloc::vec::Vec<alloc::rc::Rc<str>>" in fn.local_ty(i)]
    need(len(stack_params) == 1, "import_stack parameter not identified")
    cyc = [(b, t) for b, t in fn.calls() if callee(t).endswith(("::any", "::contains"))
           and ("param", stack_params[0]) in o.at(t["args"][0], b)]
    need(cyc, "no cycle test over import_stack in the import hook")
    cb, ct = cyc[0]
    sb, ft, tt = util.bool_switches(fn, ct["dest"]["l"])[0]
    err_blocks = {b for b, j, pl, rv, m in fn.assigns() if pl["l"] == 0 and rv["k"] == "agg" and rv.get("variant") == "Err"}
    ok = util.must_pass(fn, tt, err_blocks, exits=cfg.exits(fn)) and not (cfg.reachable(fn, tt) & set(run)) and all(cfg.dominates(fn, cb, x) for x in run)
    r.inst("import:cycle-test", fn.where(sb), ok, "a path already on the import stack is an error, tested before run" if ok else "cycle test missing / not before run / not an error")
    # in-progress marking: the import stack given to the child VM contains the path being imported
    wis = [(b, t) for b, t in fn.calls() if callee(t) == "ucglib::build::opcode::vm::VM::with_import_stack"]
    need(wis, "child VM does not receive an import stack")
    for b, t in wis:
        labs = o.at(t["args"][1], b)
        # the stack handed over must have been extended with the (normalised) path before: a push on import_stack
        # (or on the clone) that dominates this block
        pushes = [pb for pb, pt in fn.calls() if callee(pt) == "alloc::vec::Vec::push" and cfg.dominates(fn, pb, b)
                  and fn.local_ty(op_local(pt["args"][0]) or 0).startswith("&mut alloc::vec::Vec<alloc::rc::Rc<str>>")]
        ok = bool(pushes) and (not norm or any("ucglib::path::normalize" in calls_in(o.at(fn.term(pb)["args"][1], pb)) for pb in pushes))
        r.inst("import:in-progress-before-run", fn.where(b), ok,
               "the path is on the import stack handed to the VM that evaluates the file" if ok else
               "the imported file is evaluated with an import stack that does not contain it: a cycle through nested "
               "expressions (`(import \"b\").y`) is never detected and recurses until the stack overflows")
    # update after a successful run, before the push of the result
    ok = all(any(cfg.dominates(fn, rb, ub) for rb in run) for ub in upd)
    r.inst("import:cache-after-run", fn.where(upd[0]), ok, "value cached after the run" if ok else "value cached before the file was evaluated")
    return r


def r26c(F):
    r = RuleResult("R26c", "checker import protocol",
                   "Checker::resolve_import: normalise -> cache -> cycle test -> push in progress -> recurse (in the imported file's directory) -> cache insert", floor=3)
    fn = F.fn("ucglib::ast::typecheck::Checker::resolve_import")
    o = Origins(fn)
    get = [b for b, t in fn.calls() if callee(t).endswith("BTreeMap::get")]
    cont = [(b, t) for b, t in fn.calls() if callee(t).endswith("::contains") and ("field", "import_stack") in o.at(t["args"][0], b)]
    push = [b for b, t in fn.calls() if callee(t) == "alloc::vec::Vec::push"]
    rec = [b for b, t in fn.calls() if callee(t).endswith("walk_statement_list")]
    wis = [(b, t) for b, t in fn.calls() if callee(t) == "ucglib::ast::typecheck::Checker::with_import_stack"]
    # the directory the child checker resolves the imported file's own imports against: the imported file's directory
    wwd = [(b, t) for b, t in fn.calls() if callee(t) == "ucglib::ast::typecheck::Checker::with_working_dir"]
    dir_ok = any("std::path::Path::parent" in calls_in(o.at(t["args"][1], b)) for b, t in wwd)
    if not dir_ok:
        # assigned directly?
        for b, j, pl, rv, m in fn.assigns():
            if any(isinstance(e, dict) and e.get("f") == "working_dir" for e in pl["p"]) and rv.get("ops") and \
                    "std::path::Path::parent" in calls_in(o.at(rv["ops"][0], b)):
                dir_ok = True
    need(get and cont and rec, "resolve_import anchors missing (cache lookup / cycle test / recursion)")
    r.inst("resolve_import:child-dir", fn.where(rec[0]), dir_ok,
           "the child checker works in the directory of the imported file" if dir_ok else
           "the checker that checks an imported file does not get that file's directory as its working directory (it keeps the "
           "importer's): the imported file's own relative imports are resolved against the wrong directory")
    if not (push and wis):
        # the in-progress mark may be pushed onto the child's stack directly
        direct = [(b, t) for b, t in fn.calls() if callee(t) == "alloc::vec::Vec::push" and
                  any(l == ("field", "import_stack") for l in o.at(t["args"][0], b))]
        ok = bool(direct) and all(cfg.dominates(fn, direct[0][0], x) for x in rec)
        cb, ct = cont[0]
        sb, ft, tt = util.bool_switches(fn, ct["dest"]["l"])[0]
        okc = not (cfg.reachable(fn, tt) & set(rec)) and all(cfg.dominates(fn, cb, x) for x in rec)
        r.inst("resolve_import:cycle-test", fn.where(sb), okc, "cycle edge never recurses; test dominates the recursion" if okc else "checker can recurse into a file that is being resolved")
        r.inst("resolve_import:in-progress", fn.where(rec[0]), ok, "the path is pushed onto the child's import stack before the recursion" if ok else "child checker's import stack lacks the path in progress")
        return r
    cb, ct = cont[0]
    sb, ft, tt = util.bool_switches(fn, ct["dest"]["l"])[0]
    ok = not (cfg.reachable(fn, tt) & set(rec)) and all(cfg.dominates(fn, cb, x) for x in rec)
    r.inst("resolve_import:cycle-test", fn.where(sb), ok, "cycle edge never recurses; test dominates the recursion" if ok else "checker can recurse into a file that is being resolved")
    ok = all(cfg.dominates(fn, get[0], x) for x in rec)
    r.inst("resolve_import:cache-first", fn.where(get[0]), ok, "cache consulted before recursing" if ok else "recursion without cache lookup")
    b, t = wis[0]
    labs = o.at(t["args"][1], b)
    ok = any(cfg.dominates(fn, pb, b) for pb in push) and "alloc::vec::Vec::push" in calls_in(labs) | {callee(fn.term(pb)) for pb in push if cfg.dominates(fn, pb, b)}
    r.inst("resolve_import:in-progress", fn.where(b), ok, "child checker receives the stack extended with the path" if ok else "child checker's import stack lacks the path in progress")
    # the key of the cache, of the cycle test and of the in-progress mark is the normalised path: `a/./sub/../x` and `a/x`
    # are the same file, and a cycle spelled with `..` must repeat a key
    for what, sites in (("cache-key", [(gb, fn.term(gb)["args"][1]) for gb in get[:1]]),
                        ("cycle-key", [(cb, ct["args"][1])]),
                        ("mark-key", [(pb, fn.term(pb)["args"][1]) for pb in push if cfg.dominates(fn, pb, b)][:1])):
        for sbk, arg in sites:
            okk = "ucglib::path::normalize" in calls_in(o.at(arg, sbk))
            r.inst("resolve_import:%s-normalised" % what, fn.where(sbk), okk,
                   "the path is folded by path::normalize first" if okk else
                   "the checker keys its import %s by the joined, unnormalised path: a cycle spelled with `..` never repeats a key and "
                   "the checker recurses until the path exceeds the OS limit" % what.split("-")[0])
    return r


def r27(F):
    r = RuleResult("R27", "no ambient working directory",
                   "std::env::current_dir is not called on any path from the import/include hooks, get_ops_for_path, the checker's "
                   "resolve_import or the rewriter; its result in fcall_impl only fills the VM's unused working_dir", floor=5)
    cg = callgraph.get(F)
    entries = [IMPORT, "ucglib::build::opcode::runtime::Builtins::include",
               "ucglib::build::opcode::environment::Environment::get_ops_for_path",
               "ucglib::ast::typecheck::Checker::resolve_import",
               "<ucglib::ast::rewrite::Rewriter as ucglib::ast::walk::Visitor>::visit_expression",
               "ucglib::build::opcode::translate::AST::translate"]
    for e in entries:
        need(e in F.fns, "anchor %s" % e)
        # stop at VM::run: evaluation of user code is a different obligation (fcall_impl below)
        seen = set()
        work = [e]
        hits = []
        while work:
            x = work.pop()
            if x in seen:
                continue
            seen.add(x)
            for y in cg.edges.get(x, ()):
                if y == "std::env::current_dir":
                    hits.append(x)
                if y.startswith("ucglib::") or y.startswith("<ucglib::"):
                    if y in ("ucglib::build::opcode::vm::VM::run",):
                        continue
                    work.append(y)
        r.inst("no-cwd:%s" % e.split("::")[-1].rstrip(">"), F.fn(e).where(), not hits,
               "current_dir not reachable" if not hits else "current_dir called from %s" % sorted(set(hits)))
    # fcall_impl: result flows only into with_pointer's working_dir argument; VM.working_dir is never read for paths
    fi = F.fn("ucglib::build::opcode::vm::VM::fcall_impl")
    o = Origins(fi)
    users = []
    for b, t in fi.calls():
        for i, a in enumerate(t["args"]):
            if op_place(a) is not None and "std::env::current_dir" in calls_in(o.at(a, b)):
                users.append((callee(t), i))
    allowed = lambda c: c.endswith(("Try>::branch", "VM::with_pointer", "VM::to_scoped", "VM::with_import_stack", "VM::binding_push", "VM::run", "VM::pop", "::from_residual")) or "drop" in c
    # an iterator adaptor that runs a closure of fcall_impl over the bindings: what the closure does with what it captured
    # (the call VM) is held to the same list
    adaptors = {c for c, i in users if "iterator::Iterator" in c or "Iterator::" in c}
    if adaptors:
        for cf in F.closures_of(fi.name):
            oc = Origins(cf)
            for b, t in cf.calls():
                for i, a in enumerate(t["args"]):
                    if op_place(a) is not None and ("param", 1) in oc.at(a, b) and not util.is_std_callee(callee(t)):
                        users.append((callee(t), i))
        users = [(c, i) for c, i in users if c not in adaptors]
    bad = sorted({c for c, i in users if not allowed(c)})
    r.inst("fcall_impl:cwd-flow", fi.where(), not bad, "current_dir() only seeds the call VM's working_dir" if not bad else "current_dir() flows into %s" % bad)
    from ..access import field_accesses
    acc = [a for a in field_accesses(F, "ucglib::build::opcode::vm::VM", "working_dir") if a[0] in ("read", "ref")]
    readers = sorted({a[1] for a in acc} - {"ucglib::build::opcode::vm::VM::clean_copy"})
    r.inst("VM.working_dir:unused", "src/build/opcode/vm.rs", not readers, "VM.working_dir is only copied by clean_copy" if not readers else "VM.working_dir is read in %s" % readers)
    return r


def r68(F):
    """the rule is run on the rewriter as written and, when that view does not let it decide (or shows a violation), on the
    view with the rewriter's private helpers spliced in: both describe the same program, a proof on either stands"""
    from ..core import AnchorError
    try:
        r = _r68(F, False)
        if not r.violations and not r.errors:
            return r
    except AnchorError:
        r = None
    try:
        r2 = _r68(F, True)
    except AnchorError:
        if r is None:
            raise
        return r
    if r is None or (not r2.errors and len(r2.violations) <= len(r.violations)):
        return r2
    return r


def _r68(F, flat):
    r = RuleResult("R68", "rewriter coverage and base directory",
                   "the rewriter handles Import and Include, joins relative paths onto its base, exempts only std/; the base is the "
                   "parent directory of the file being translated / checked; expressions parsed late (format strings) are rewritten too", floor=7)
    fn = F.fn("<ucglib::ast::rewrite::Rewriter as ucglib::ast::walk::Visitor>::visit_expression", flat=flat)
    homes = {}
    for variant in ("Import", "Include"):
        arm = None
        split_arm = None
        for b in range(len(fn.blocks)):
            t = fn.term(b)
            if t["k"] == "switch" and t.get("enum") == EXPR and not fn.is_cleanup(b):
                e = cfg.switch_edge(t, variant=variant)
                if e != t["otherwise"] or variant in [x.get("variant") for x in t["targets"]]:
                    blocks = {x for x in range(len(fn.blocks)) if cfg.dominates(fn, e, x)}
                    # the work may sit in the arm itself or in a helper of the rewriter the arm calls
                    cands = [(fn, blocks)]
                    for x, tt in fn.calls():
                        if x in blocks and callee(tt).startswith("ucglib::ast::rewrite::") and callee(tt) in F.fns:
                            h = F.fn(callee(tt))
                            cands.append((h, set(range(len(h.blocks)))))
                    for hf, hb in cands:
                        joins = [(x, tt) for x, tt in hf.calls() if x in hb and callee(tt) == "std::path::Path::join"]
                        rel = [(x, tt) for x, tt in hf.calls() if x in hb and callee(tt) == "std::path::Path::is_relative"]
                        if joins and rel:
                            arm = (hf, hb, joins, rel)
                    if arm is None:
                        # the test in the arm, the join in a helper that returns the joined path
                        rel = [(x, tt) for x, tt in fn.calls() if x in blocks and callee(tt) == "std::path::Path::is_relative"]
                        for hf, hb in cands[1:]:
                            joins = [(x, tt) for x, tt in hf.calls() if callee(tt) == "std::path::Path::join"]
                            hcalls = [(x, tt) for x, tt in fn.calls() if x in blocks and callee(tt) == hf.name]
                            if joins and rel and hcalls:
                                split_arm = (hf, joins, rel, hcalls)
        if arm is None and split_arm is not None:
            hf, joins, rel, hcalls = split_arm
            oh = Origins(hf)
            of = Origins(fn)
            jb, jt = joins[0]
            ok_base = ("field", "base") in oh.at(jt["args"][0], jb)
            rb, rt = rel[0]
            sb, ft, tt = util.bool_switches(fn, rt["dest"]["l"])[0]
            hb0 = hcalls[0][0]
            ok_rel = cfg.dominates(fn, tt, hb0)
            stored = any(("call", hf.name, hb0) in of.at(rv["ops"][0], b) and "fragment" in [e.get("f") for e in pl["p"] if isinstance(e, dict)]
                         for b, j, pl, rv, m in fn.assigns() if rv["k"] == "use" and op_place(rv["ops"][0]) is not None)
            homes[variant] = (fn, {x for x in range(len(fn.blocks)) if cfg.dominates(fn, cfg.switch_edge([t for b2 in range(len(fn.blocks)) for t in [fn.term(b2)] if t["k"] == "switch" and t.get("enum") == EXPR][0], variant=variant) or 0, x)})
            r.inst("rewriter:%s" % variant, hf.where(jb), ok_base and ok_rel and stored,
                   "relative path := helper(base.join(path)), stored back" if ok_base and ok_rel and stored else
                   "rewriter does not rewrite %s paths correctly (base: %s, only-if-relative: %s, stored: %s)" % (variant, ok_base, ok_rel, stored))
            continue
        if arm is None:
            # one path shared by several variants (`let tok = match expr { Include(d) => &mut d.path, Import(d) => &mut d.path, .. }`):
            # what runs when the expression is this variant, every match on the expression taking this variant's edge
            from .. import variants as _variants
            has_arm = any(t_["k"] == "switch" and t_.get("enum") == EXPR and variant in [x.get("variant") for x in t_["targets"]]
                          for t_ in (fn.term(b_) for b_ in range(len(fn.blocks)) if not fn.is_cleanup(b_)))
            if has_arm:
                blocks = _variants.reach_multi(F, fn, 0, {EXPR: variant}, scrutinee_ok=lambda e, pl, b_: True)
                joins = [(x, tt) for x, tt in fn.calls() if x in blocks and callee(tt) == "std::path::Path::join"]
                rel = [(x, tt) for x, tt in fn.calls() if x in blocks and callee(tt) == "std::path::Path::is_relative"]
                if joins and rel:
                    arm = (fn, blocks, joins, rel)
        need(arm, "rewriter has no join/is_relative for Expression::%s (neither in the arm nor in a helper it calls)" % variant)
        hf, blocks, joins, rel = arm
        homes[variant] = (hf, blocks)
        o = Origins(hf)
        jb, jt = joins[0]
        ok_base = ("field", "base") in o.at(jt["args"][0], jb)
        rb, rt = rel[0]
        sb, ft, tt = util.bool_switches(hf, rt["dest"]["l"])[0]
        ok_rel = cfg.dominates(hf, tt, jb)
        # the joined path is stored back into the token's fragment
        stored = any(("call", "std::path::Path::join", jb) in o.at(rv["ops"][0], b) and "fragment" in [e.get("f") for e in pl["p"] if isinstance(e, dict)]
                     for b, j, pl, rv, m in hf.assigns() if b in blocks and rv["k"] == "use" and op_place(rv["ops"][0]) is not None)
        r.inst("rewriter:%s" % variant, hf.where(jb), ok_base and ok_rel and stored,
               "relative path := base.join(path), stored back" if ok_base and ok_rel and stored else
               "rewriter does not rewrite %s paths correctly (base: %s, only-if-relative: %s, stored: %s)" % (variant, ok_base, ok_rel, stored))
    # exemption: only an import path starting with std/ is left alone
    sws = []
    for hf in {homes["Import"][0], homes["Include"][0], fn}:
        sws += [(hf, b, t) for b, t in hf.calls() if callee(t) == "std::path::Path::starts_with"]
    need(len(sws) == 1, "expected exactly one starts_with exemption in the rewriter, found %d" % len(sws))
    from ..facts import syn_walk
    lits = []
    def visit(n):
        if n.get("k") == "macro" and n.get("name") == "format" and n.get("args"):
            a0 = n["args"][0]
            if a0.get("k") == "lit" and a0.get("t") == "str":
                lits.append(a0["v"])
    syn_walk(F.syn["ast/rewrite.rs"], visit)
    okx = "std{}" in lits
    # the starts_with argument is that formatted string, its true edge returns without rewriting
    xf, xb, xt = sws[0]
    sb_, ft_, tt_ = util.bool_switches(xf, xt["dest"]["l"])[0]
    joins_all = {x for x, tt2 in xf.calls() if callee(tt2) == "std::path::Path::join"}
    okx = okx and not (cfg.reachable(xf, tt_) & joins_all)
    r.inst("rewriter:std-exempt", xf.where(xb), okx, "only paths starting with std<sep> are left alone" if okx else "exemption is not exactly the std/ prefix (format literals: %s)" % lits)
    inc_f, inc_blocks = homes["Include"]
    inc_exempt = xf is inc_f and xb in inc_blocks
    if inc_exempt and xf is not fn:
        # the exemption sits in a shared helper: it may be switched by a flag parameter that the Include arm passes as false
        names = xf.var_names()
        for pi in range(1, xf.nargs + 1):
            if xf.local_ty(pi) != "bool":
                continue
            guarded = any(cfg.dominates(xf, tt, xb) for sb, ft, tt in util.bool_switches(xf, pi))
            if not guarded:
                continue
            # the call from the Include arm
            for b in range(len(fn.blocks)):
                t = fn.term(b)
                if t["k"] == "switch" and t.get("enum") == EXPR and not fn.is_cleanup(b):
                    e = cfg.switch_edge(t, variant="Include")
                    if e is None:
                        continue
                    blocks = {x for x in range(len(fn.blocks)) if cfg.dominates(fn, e, x)}
                    calls = [tt2 for x, tt2 in fn.calls() if x in blocks and callee(tt2) == xf.name]
                    if calls and all(len(c["args"]) >= pi and c["args"][pi - 1].get("int") == "0" for c in calls):
                        inc_exempt = False
    r.inst("rewriter:std-exempt:import-only", xf.where(xb), not inc_exempt,
           "the std/ exemption is applied to imports only (the standard library is embedded; included files are read from disk)" if not inc_exempt else
           "the std/ exemption is also applied to include paths: `include str \"std/x.txt\"` keeps its relative path and is read "
           "relative to the process's working directory")
    # base provenance
    gp = F.closures_of("ucglib::build::opcode::environment::Environment::get_ops_for_path")
    need(gp, "get_ops_for_path closure not found")
    cl = gp[0]
    oc = Origins(cl)
    for b, t in cl.calls():
        c = callee(t)
        if c == "ucglib::build::opcode::translate::AST::translate":
            labs = oc.at(t["args"][1], b)
            ok = util.derives_from_call(F, labs, "std::path::Path::parent")
            r.inst("base:translate", cl.where(b), ok, "root = parent() of the loaded path" if ok else "translate root is not the file's parent directory")
        if c == "ucglib::ast::typecheck::Checker::with_working_dir":
            labs = oc.at(t["args"][1], b)
            ok = "std::path::Path::parent" in calls_in(labs)
            r.inst("base:checker", cl.where(b), ok, "checker working dir = parent() of the loaded path" if ok else "checker working dir is not the file's parent directory")
    # the checker of an imported file works in that file's own directory (its nested relative imports resolve there), not in the
    # directory of whichever file imported it first - the derived shape is cached for the whole invocation
    ri = F.fn("ucglib::ast::typecheck::Checker::resolve_import", flat=True)
    need(ri is not None, "Checker::resolve_import not found")
    wds = [(b, t) for b, t in ri.calls() if callee(t) == "ucglib::ast::typecheck::Checker::with_working_dir"]
    need(wds, "resolve_import does not give the child checker a working directory")
    for k_, (b, t) in enumerate(wds):
        src = util.source_calls(ri, t["args"][1], pass_through=util.PASS_THROUGH + ("::to_path_buf", "::map", "::branch", "::unwrap_or", "::unwrap_or_else"))
        names = {c_[0] for c_ in src if c_[0] != "param"}
        # `parent().map(|p| p.to_path_buf())`: the closure is an argument of map, the receiver is what counts
        ok = any(c_.endswith("Path::parent") for c_ in names)
        own = [c_ for c_ in src if c_[0] == "param"]
        labs = Origins(ri).at(t["args"][1], b)
        from_self = "working_dir" in {l[1] for l in labs if l[0] == "field"} and not ok
        need(ok or from_self, "resolve_import: where the child checker's working directory comes from was not identified (%s)" % sorted(names)[:2])
        r.inst("base:child-checker#%d" % k_, ri.where(b), ok and not from_self,
               "the child checker's working dir = parent() of the imported file" if ok and not from_self else
               "the checker of an imported file inherits the importer's working directory: its nested relative imports resolve against "
               "whichever file reached it first, and the shape cached for it depends on the order of the batch")
    tr = F.fn("ucglib::build::opcode::translate::AST::translate")
    ot = Origins(tr)
    for b, t in tr.calls():
        if callee(t) == "ucglib::ast::rewrite::Rewriter::new":
            labs = ot.at(t["args"][0], b)
            ok = ("param", 2) in labs
            r.inst("base:rewriter", tr.where(b), ok, "Rewriter::new(root)" if ok else "rewriter base is not the root parameter")
    rn = F.fn("ucglib::ast::rewrite::Rewriter::new")
    orn = Origins(rn)
    for b, j, pl, rv, m in rn.assigns():
        if rv["k"] == "agg" and rv.get("adt") == "ucglib::ast::rewrite::Rewriter":
            labs = orn.at(rv["ops"][0], b)
            ok = ("param", 1) in labs and not [c for c in calls_in(labs) if not c.endswith("::into")]
            r.inst("base:stored-unchanged", rn.where(b), ok, "base stored unchanged" if ok else "Rewriter::new transforms its base")
    fb = F.fn("ucglib::build::FileBuilder::build")
    ofb = Origins(fb)
    okb = False
    for b, j, pl, rv, m in fb.assigns():
        if [e.get("f") for e in pl["p"] if isinstance(e, dict)][-1:] == ["working_dir"]:
            labs = ofb.at(rv["ops"][0], b) if rv.get("ops") else set()
            okb = "std::path::Path::parent" in calls_in(labs)
    r.inst("base:FileBuilder::build", fb.where(), okb, "working_dir = parent() of the built file" if okb else "FileBuilder::build does not set working_dir from the file's parent")
    # expressions parsed after the rewriter ran (the `@{...}` parts of a format string) get their own rewriter pass
    tp = F.fn("ucglib::build::opcode::translate::AST::translate_template_part")
    sw = [(b, tp.term(b)) for b in range(len(tp.blocks)) if tp.term(b)["k"] == "switch" and tp.term(b).get("enum") == "ucglib::ast::TemplatePart"]
    need(len(sw) == 1, "translate_template_part does not match on the template part")
    e = cfg.switch_edge(sw[0][1], variant="Expression")
    need(e is not None, "translate_template_part has no Expression arm")
    region = cfg.reachable(tp, e)
    tcalls = [b for b, t in tp.calls() if b in region and callee(t).endswith("AST::translate_expr")]
    walks = [b for b, t in tp.calls() if b in region and callee(t) == "ucglib::ast::walk::Walker::walk_expression"
             and "ucglib::ast::rewrite::Rewriter" in tp.local_ty(op_local(t["args"][0]) or 0)]
    news = [(b, t) for b, t in tp.calls() if b in region and callee(t) == "ucglib::ast::rewrite::Rewriter::new"]
    otp = Origins(tp)
    root_params = [i for i in range(1, tp.nargs + 1) if "std::path::Path" in tp.local_ty(i)]
    base_ok = bool(news) and bool(root_params) and all(("param", root_params[0]) in otp.at(t["args"][0], b) for b, t in news)
    need(tcalls, "the Expression arm of translate_template_part does not translate the expression")
    for tb in tcalls:
        ok = base_ok and any(cfg.dominates(tp, wb, tb) for wb in walks)
        r.inst("late-parsed:template-expression", tp.where(tb), ok,
               "the embedded expression passes a Rewriter(root) before it is translated" if ok else
               "an expression parsed out of a format string is translated without passing the rewriter: an import or include inside "
               "`@{...}` keeps its relative path and resolves against the process's working directory")
    return r


def r27n(F):
    r = RuleResult("R27n", "one spelling per file",
                   "path::normalize rebuilds its result from the components of the argument on every path (no exit hands the argument "
                   "back as it is), dropping `.` and folding `..`: the import cache and the import stack are keyed by the resulting "
                   "string, so a path that skips normalisation is a second key for the same file", floor=3)
    fn = F.fn("ucglib::path::normalize")
    # the parameter must not flow into the return place by plain moves/copies
    cps = util.copies_of(fn, 1, allow_not=False)
    direct = 0 in cps
    r.inst("normalize:no-identity-exit", fn.where(), not direct,
           "the result is always the rebuilt path" if not direct else
           "normalize returns its argument unchanged on some path: `dir/./lib/x.ucg` and `dir/lib/x.ucg` become two cache keys and the file is evaluated twice")
    loops = cfg.natural_loops(fn)
    need(len(loops) == 1, "normalize: component loop not found")
    h, body = next(iter(loops.items()))
    rets = [b for b in range(len(fn.blocks)) if not fn.is_cleanup(b) and fn.term(b)["k"] == "return"]
    ok = all(not (cfg.reachable(fn, 0, removed={h}) & {rb}) for rb in rets)
    r.inst("normalize:loop-on-every-path", fn.where(h), ok, "every return has gone through the component loop" if ok else
           "a return of normalize bypasses the component loop")
    sw = [(b, fn.term(b)) for b in body if fn.term(b)["k"] == "switch" and (fn.term(b).get("enum") or "").endswith("path::Component")]
    need(sw, "normalize does not match on the component kind")
    st = sw[0][1]
    pushes = {b for b, t in fn.calls() if callee(t) == "std::path::PathBuf::push"}
    pops = {b for b, t in fn.calls() if callee(t) == "std::path::PathBuf::pop"}
    cur = cfg.switch_edge(st, variant="CurDir")
    par = cfg.switch_edge(st, variant="ParentDir")
    ok = cur is not None and par is not None and not (cfg.reachable(fn, cur, removed={h}) & (pushes | pops)) and \
        bool(cfg.reachable(fn, par, removed={h}) & pops) and not (cfg.reachable(fn, par, removed={h}) & pushes)
    r.inst("normalize:dot-and-dotdot", fn.where(sw[0][0]), ok, "`.` adds nothing, `..` removes the last component" if ok else
           "normalize does not drop `.` / fold `..`")
    return r


def r25p(F):
    r = RuleResult("R25p", "visit and leave callbacks are paired",
                   "in Walker::walk_statement / walk_expression / walk_value every visit_X call is followed by the matching leave_X "
                   "call on every path to the end of the function: visitors keep nesting state between the two (the checker counts "
                   "module nesting and skips statements while it is non-zero), so a path that skips leave_X leaves that state stuck",
                   floor=6, exhaustive=True)
    for n in ("walk_statement", "walk_expression", "walk_value"):
        fn = F.fn(W + n)
        calls = [(b, callee(t).split("::")[-1]) for b, t in fn.calls() if "walk::Visitor::" in callee(t)]
        visits = [(b, c) for b, c in calls if c.startswith("visit_")]
        need(visits, "%s calls no visit_* callback" % n)
        exits = cfg.exits(fn)
        for b, c in visits:
            want = "leave_" + c[len("visit_"):]
            leaves = {bb for bb, cc in calls if cc == want}
            ok = bool(leaves) and util.must_pass(fn, fn.term(b)["t"], leaves, exits=exits)
            r.inst("%s:%s" % (n, c), fn.where(b), ok, "%s follows on every path" % want if ok else
                   "a path through %s returns after %s without calling %s: a visitor's nesting state is never unwound (the checker then "
                   "skips every later statement of the file)" % (n, c, want))
    return r


def r26v(F):
    r = RuleResult("R26v", "every nested evaluation knows what is being imported",
                   "each VM::run inside the evaluator (function bodies, module bodies and out expressions, format scopes, imported "
                   "files) runs a VM that was given the current import stack (with_import_stack fed from the parent's import_stack): an "
                   "import reached through a VM that starts with an empty stack cannot see that its target is still being evaluated, and "
                   "a cycle through that position recurses until the stack overflows", floor=6, exhaustive=True)
    CG = callgraph.get(F)
    RUN = "ucglib::build::opcode::vm::VM::run"
    WIS = "ucglib::build::opcode::vm::VM::with_import_stack"
    for n, b in sorted(CG.call_sites(RUN)):
        if not n.startswith("ucglib::build::opcode::"):
            continue           # FileBuilder starts a build: its stack is empty by definition
        fn = F.fn(n)
        t = fn.term(b)
        o = Origins(fn)
        # the builder chain of the receiver: `a.clean_copy().to_new_pointer(p).with_import_stack(s)` -- each call takes the previous
        # result by value as its first argument
        l = op_local(t["args"][0])
        for bb, j2, pl, rv, m in fn.assigns():
            if pl["l"] == l and not pl["p"] and rv["k"] == "ref" and not rv["place"]["p"]:
                l = rv["place"]["l"]
        chain = []
        seen_l = set()
        while l is not None and l not in seen_l:
            seen_l.add(l)
            defs = [(bb, tt) for bb, tt in fn.calls() if tt["dest"]["l"] == l and not tt["dest"]["p"]]
            if not defs:
                # moved from another local
                mv = [op_local(rv["ops"][0]) for bb, j2, pl, rv, m in fn.assigns() if pl["l"] == l and not pl["p"] and rv["k"] == "use" and op_local(rv["ops"][0]) is not None]
                l = mv[0] if mv else None
                continue
            # the definition that reaches this run (several arms may define the same local: take those that can reach b)
            defs = [d for d in defs if cfg.reaches(fn, d[0], b)] or defs
            bb, tt = max(defs, key=lambda d: TR.order_key(fn).get(d[0], 0))
            chain.append((bb, tt))
            l = op_local(tt["args"][0]) if tt["args"] else None
        ok = False
        for bb, tt in chain:
            c = callee(tt)
            if c == WIS:
                al = o.at(tt["args"][1], bb)
                if ("field", "import_stack") in al or any(x[0] == "param" and ("alloc::vec::Vec<alloc::rc::Rc<str>>" in fn.local_ty(x[1]) or "[alloc::rc::Rc<str>]" in fn.local_ty(x[1])) for x in al) \
                        or any(x[0] == "call" and x[1] == "alloc::vec::Vec::push" or x[0] == "effect" for x in al):
                    ok = True
            elif c.startswith("ucglib::build::opcode::vm::VM::") and c in F.fns and c != RUN:
                h = F.fn(c)
                oh = None
                for hb, ht in h.calls():
                    if callee(ht) == WIS:
                        oh = oh or Origins(h)
                        if ("field", "import_stack") in oh.at(ht["args"][1], hb):
                            ok = True
        short = n.split("::")[-1]
        ordn = sum(1 for x in r.instances if x["key"].startswith("R26v:%s:run" % short))
        r.inst("%s:run#%d" % (short, ordn), fn.where(b), ok, "runs with the current import stack" if ok else
               "%s runs a VM that was not given the import stack: an import cycle closing inside it is not detected" % short)
    return r


def r26l(F):
    r = RuleResult("R26l", "import links are followed under one spelling per file",
                   "FileBuilder::link_ops, which loads every file a build will import before it runs, folds each link with "
                   "path::normalize before it tests its visited set and before it loads the file: the links of a file are its import "
                   "paths joined onto its directory, so `../b/y.ucg` from a/ and `../a/x.ucg` from b/ grow by two segments per hop and "
                   "never repeat unless they are folded", floor=3)
    fn = F.fn("ucglib::build::FileBuilder::link_ops")
    o = Origins(fn)
    sites = [(b, t, "visited-test") for b, t in fn.calls() if callee(t).endswith("BTreeSet::contains")] + \
            [(b, t, "visited-insert") for b, t in fn.calls() if callee(t).endswith("BTreeSet::insert")] + \
            [(b, t, "load") for b, t in fn.calls() if callee(t).endswith("Environment::get_ops_for_path")]
    # `if !found.insert(x) { continue }` is test and insert in one call
    need(any(w.startswith("visited") for b, t, w in sites) and any(w == "load" for b, t, w in sites), "link_ops: visited set / load not found")
    # every link is followed: the only reason to skip one is link_ops' own visited set.  Skipping what some shared cache already
    # holds (the op cache: "its imports were followed when it was loaded") is wrong when that earlier walk was abandoned on one of
    # the file's imports - the file then builds or fails depending on what was built before it
    loops = cfg.natural_loops(fn)
    loads = [b for b, t, w in sites if w == "load"]
    skippers = []
    in_loop = lambda b_: any(b_ in body for body in loops.values())
    for cb, ct in fn.calls():
        c = callee(ct)
        shared = c.startswith("ucglib::build::opcode::cache::") or \
            (c.startswith("ucglib::build::opcode::environment::Environment::") and not c.endswith("::get_ops_for_path"))
        if not shared or not in_loop(cb) or ct["dest"]["p"]:
            continue
        # a question put to state that all files of the invocation share: does an edge of its answer avoid the load?
        for sb, ft, tt in util.bool_switches(fn, ct["dest"]["l"]):
            for e in (ft, tt):
                if loads and in_loop(sb) and not (cfg.reachable(fn, e, removed=set(loops)) & set(loads)):
                    skippers.append(sb)
        for sb, st in util.enum_switches(fn, ct["dest"]["l"]):
            for e in cfg.term_succs(st):
                if loads and in_loop(sb) and not (cfg.reachable(fn, e, removed=set(loops)) & set(loads)):
                    skippers.append(sb)
    # ... or combined with the visited test (`found.contains(..) || cache.contains(..)`): the cache's answer feeds the same switch
    for cb, ct in fn.calls():
        c = callee(ct)
        if (c.startswith("ucglib::build::opcode::cache::") or (c.startswith("ucglib::build::opcode::environment::Environment::") and
                                                                not c.endswith("::get_ops_for_path"))) and in_loop(cb):
            for b in range(len(fn.blocks)):
                t0 = fn.term(b)
                if t0["k"] == "switch" and t0.get("ty") == "bool" and in_loop(b) and not fn.is_cleanup(b) and cfg.reaches(fn, cb, b, removed=set(loops)) and \
                        ("call", c, cb) in o.at(t0["on"], b):
                    if loads and any(not (cfg.reachable(fn, e, removed=set(loops)) & set(loads)) for e in cfg.term_succs(t0)):
                        skippers.append(b)
    r.inst("link_ops:skips-only-visited", fn.where(skippers[0]) if skippers else fn.where(), not skippers,
           "a link is skipped only when this walk has seen it" if not skippers else
           "link_ops skips a link because a cache shared by all files of the invocation already holds it: whether the file's own imports "
           "are loaded (and their type errors reported) depends on which files were built before")
    for b, t, what in sites:
        labs = o.at(t["args"][1], b)
        ok = "ucglib::path::normalize" in calls_in(labs)
        r.inst("link_ops:%s" % what, fn.where(b), ok, "on the folded path" if ok else
               "link_ops uses the link as it was written for its %s: sibling directories importing each other with `../` end in "
               "\"File name too long\" even without an evaluation cycle" % what)
    return r


RULES = [r25, r25p, r26, r26c, r26l, r26v, r27, r27n, r68]
