"""C01 — compiled evaluation equals the definitional semantics (structural necessary conditions).
R1 operand order, R1h hook argument order, R2 opcode/operation, R3 jump patching and short-circuit polarity,
R4 exhaustive translation, R84 range bounds, R85 type-name table."""
from .. import cfg, util, docs, translator as TR
from ..core import RuleResult, need
from ..facts import callee, op_local, op_place
from ..linear import Linear, LEN, show
from .. import absint as AI
from ..origins import Origins, calls_in, results_in

CHECKED = {"Add": "checked_add", "Sub": "checked_sub", "Mul": "checked_mul", "Div": "checked_div", "Rem": "checked_rem"}


def machine_op(c):
    """(trait name, type) when the callee is the machine operation on i64 / f64: the core::ops impl on (references to)
    the primitive or the checked_* method of the integer (same operand order: receiver <op> argument)"""
    if "core::ops::arith::" in c and c.startswith("<") and ("i64" in c or "f64" in c):
        return c.split("core::ops::arith::")[1].split("<")[0].split(">")[0], ("i64" if "i64" in c else "f64")
    for tr, m in CHECKED.items():
        if c == "core::num::<impl i64>::%s" % m:
            return tr, "i64"
    return None


VM = "ucglib::build::opcode::vm::VM::"
RT = "ucglib::build::opcode::runtime::Builtins::"
BET = "ucglib::ast::BinaryExprType"
POP = VM + "pop"
REPLACE = TR.OPSMAP + "replace"
PUSH = TR.OPSMAP + "push"


def _ordered(fn, blocks):
    key = TR.order_key(fn)
    return sorted(blocks, key=lambda b: key.get(b, 10 ** 6))


def _pops(fn):
    """[(bb, label)] of the operand pops in dominance order: VM::pop in handlers, Vec::pop on the VM stack in hooks"""
    out = []
    for b, t in fn.calls():
        c = callee(t)
        if c == POP:
            out.append(b)
        elif c == "alloc::vec::Vec::pop":
            l = op_local(t["args"][0])
            if l is not None and "alloc::vec::Vec<(alloc::rc::Rc<ucglib::build::opcode::Value>" in fn.local_ty(l):
                out.append(b)
    out = _ordered(fn, out)
    return [(b, ("call", callee(fn.term(b)), b)) for b in out]


def _which_pop(labels, pops):
    return [i + 1 for i, (b, lab) in enumerate(pops) if lab in labels]


class OperandSim(AI.Sim):
    """abstract evaluation with symbolic operands: the k-th VM::pop on a path yields the symbol P<k>; symbols flow through
    moves, references, payload reads, helpers, closures and function items; every machine operation (core::ops on i64 / f64,
    checked_*, comparison) that meets a symbol is recorded with what arrived in its left and right slot"""

    def _call(self, fn, b, t, fr, fd, depth):
        c = callee(t)
        args = [self.operand(fr, a, fn) for a in t["args"]]
        if c == POP:
            k = fr.env.get((-1, ()), ("i", 0))[1] + 1
            f2 = AI.Frame(fr.env)
            f2.env[(-1, ())] = ("i", k)
            val = AI.ok_(("e", "(tuple)", None, (("0", ("sym", k)), ("1", AI.U))))
            return [(fd, val, f2)]
        mo = machine_op(c)
        A = [self._deref(a, fr, fn) for a in args]
        if c in getattr(self, "watch_calls", ()) and len(A) >= 3:
            # (self, left, right, ..): which symbolic operands arrive as the two value parameters
            self.records.append(("call:" + c, None, A[1], A[2], fn.name))
        if mo and len(A) >= 2:
            if A[0][0] == "sym" or A[1][0] == "sym":
                self.records.append((mo[0], mo[1], A[0], A[1], fn.name))
            return [(fd, AI.U, fr)]
        # a machine operation handed over as a function item and called here
        item = None
        if t.get("fnptr") is not None:
            fv = self._deref(self.operand(fr, t["fnptr"], fn), fr, fn)
            if fv[0] == "fnitem":
                item, iargs = fv, A
            elif fv[0] == "c":
                # a non-capturing closure coerced to a function pointer (`|f, ff| f - ff`)
                res = self.apply_closure(fv, A, fr, fd, depth, fn)
                if res is not None:
                    return [(nfd, v, fr) for nfd, v in res]
        elif c.startswith("core::ops::function::Fn") and len(args) == 2 and A[0][0] == "fnitem" and A[1][0] == "e":
            item = A[0]
            iargs = [self._deref(AI.field_of(A[1], str(i)), fr, fn) for i in range(len([k_ for k_, x in A[1][3] if k_.isdigit()]))]
        if item is not None and len(iargs) >= 2:
            name, full = item[1], item[2]
            what = machine_op(name) or machine_op(full)
            last = name.split("::")[-1]
            if what is None and last in ("gt", "lt", "ge", "le") and ("i64" in full or "f64" in full):
                what = ({"gt": "Gt", "lt": "Lt", "ge": "Ge", "le": "Le"}[last], "i64" if "i64" in full else "f64")
            if what is None and last in ("add", "sub", "mul", "div", "rem") and ("f64" in full or "i64" in full) and "ops::arith" in name + full:
                what = ({"add": "Add", "sub": "Sub", "mul": "Mul", "div": "Div", "rem": "Rem"}[last], "i64" if "i64" in full else "f64")
            if what is not None and (iargs[0][0] == "sym" or iargs[1][0] == "sym"):
                self.records.append((what[0], what[1], iargs[0], iargs[1], fn.name))
            if what is not None:
                return [(fd, AI.U, fr)]
        return super()._call(fn, b, t, fr, fd, depth)


def operand_slots(F, handler, traits):
    """{(operation, type): set of (pop ordinal in slot 0, pop ordinal in slot 1)} observed when the handler is evaluated with
    symbolic operands"""
    hf = F.fns[VM + handler]
    sim = OperandSim(F, depth=8)
    try:
        sim.run(hf, [AI.U] * hf.nargs)
    except AI.Lossy as e:
        need(False, "%s: %s" % (handler, e))
    out = {}
    for what, ty, a, b, where in sim.records:
        if what in traits and a[0] == "sym" and b[0] == "sym":
            out.setdefault((what, ty), set()).add((a[1], b[1]))
    return out


def translator_order(F):
    """per BinaryExprType variant: (sides in push order, opcodes pushed)"""
    fn = F.fn(TR.T + "translate_expr")
    o = Origins(fn)
    out = {}
    recs = TR.rec_calls(fn)
    pushes = TR.pushes(fn)
    from .. import variants as _variants
    for v in F.variants(BET):
        arm = TR.arm_blocks(fn, BET, v)
        # arms merged with an or-pattern dispatch on the operator a second time further in: of the merged arm only what is
        # reachable with every switch on the operator taking this operator's edge belongs to it
        a0 = TR.arms(fn, BET).get(v)
        if a0:
            arm = arm & _variants.reach_multi(F, fn, [e for sb, e in a0], {BET: v})
        rc = [c for c in recs if c["bb"] in arm and c["callee"] == "translate_expr"]
        rc = sorted(rc, key=lambda c: TR.order_key(fn).get(c["bb"], 0))
        sides = []
        for c in rc:
            labs = o.at(c["term"]["args"][0], c["bb"])
            l, r_ = ("field", "left") in labs, ("field", "right") in labs
            sides.append("left" if l else "right" if r_ else "?")
        ops = [(p["op"], p["hook"]) for p in sorted([p for p in pushes if p["bb"] in arm], key=lambda p: TR.order_key(fn).get(p["bb"], 0))]
        if ops and all(x[0] is None for x in ops):
            # the opcodes are chosen first (`let (first, second) = match kind {..}`) and pushed afterwards from the variables: the
            # opcodes built on this operator's slice of the arm, in order, are the ones pushed (as many as there are pushes at most)
            def op_variant(operand, bb):
                if operand is None:
                    return None
                d = TR.agg_def(fn, op_local(operand), bb) if op_local(operand) is not None else None
                if d is None:
                    return None
                if d.get("adt") == TR.OP:
                    return [d.get("variant")]
                if d.get("adt") == "core::option::Option":
                    if d.get("variant") == "None":
                        return []
                    return op_variant(d["ops"][0], bb) if d.get("ops") else None
                return None
            chosen = None
            for b, j, pl, rv, m in fn.assigns():
                if b in arm and rv["k"] == "agg" and rv.get("adt") == "(tuple)" and len(rv["ops"]) == 2:
                    a0, a1 = op_variant(rv["ops"][0], b), op_variant(rv["ops"][1], b)
                    if a0 is not None and a1 is not None and a0:
                        chosen = a0 + a1
            if chosen is not None and len(chosen) <= len(ops):
                ops = [(x, None) for x in chosen]
        out[v] = (sides, ops, min(arm) if arm else None)
    return out, fn


def _dedupe_sides(sides):
    """the order in which the two operands are first pushed (DOT / IN have alternative arms for the same side)"""
    seen = []
    for s in sides:
        if s not in seen:
            seen.append(s)
    return seen


def r1(F):
    r = RuleResult("R1", "operand order: translator and VM agree",
                   "for every non-commutative operator the AST's left operand reaches the left slot of the machine operation "
                   "(minuend, dividend, left of the comparison, first part of a concatenation, text of a regex match, item of `in`, "
                   "container of `.`, subject of `is`), composing the push order of the translator with the pop order of the handler",
                   floor=14)
    order, te = translator_order(F)
    # ---- handlers
    def arith(handler, helper, trait):
        """-> pop ordinal feeding slot 0 / slot 1 of the core::ops impl (i64 and f64)"""
        hf = F.fn(VM + handler)
        o = Origins(hf)
        pops = _pops(hf)
        need(len(pops) == 2, "%s does not pop two operands" % handler)
        hc = [(b, t) for b, t in hf.calls() if callee(t) == VM + helper]
        need(len(hc) == 1, "%s does not call VM::%s once" % (handler, helper))
        b, t = hc[0]
        a_pop = _which_pop(o.at(t["args"][1], b), pops)
        b_pop = _which_pop(o.at(t["args"][2], b), pops)
        need(len(a_pop) == 1 and len(b_pop) == 1, "arguments of VM::%s in %s are not single pops (%s, %s)" % (helper, handler, a_pop, b_pop))
        hp = F.fn(VM + helper)
        oh = Origins(hp)
        slots = []
        for bb, tt in hp.calls():
            c = callee(tt)
            mo = machine_op(c)
            if mo and mo[0] == trait:
                p0 = {l[1] for l in oh.at(tt["args"][0], bb) if l[0] == "param"}
                p1 = {l[1] for l in oh.at(tt["args"][1], bb) if l[0] == "param"}
                need(p0 in ({2}, {3}) and p1 in ({2}, {3}), "operands of %s in VM::%s are not the two value parameters" % (c, helper))
                slots.append((mo[1], a_pop[0] if p0 == {2} else b_pop[0], a_pop[0] if p1 == {2} else b_pop[0]))
        need(len(slots) == 2, "i64 and f64 %s not found in VM::%s" % (trait, helper))
        return slots, hp

    def concat(helper="add"):
        hp = F.fn(VM + helper)
        oh = Origins(hp)
        ps = _ordered(hp, [b for b, t in hp.calls() if callee(t) == "alloc::string::String::push_str"])
        need(len(ps) == 2, "string concatenation in VM::add does not use two push_str calls")
        first = {l[1] for l in oh.at(hp.term(ps[0])["args"][1], ps[0]) if l[0] == "param"}
        second = {l[1] for l in oh.at(hp.term(ps[1])["args"][1], ps[1]) if l[0] == "param"}
        # list concatenation: the first loop iterates the left list
        its = _ordered(hp, [b for b, t in hp.calls() if callee(t).endswith("::iter") and "slice" in callee(t)])
        # the element lists only: a walk over the position lists says nothing about the order of the elements
        def _elem_iter(b):
            pl = op_place(hp.term(b)["args"][0])
            ty = hp.local_ty(pl["l"]) if pl is not None else ""
            return "Position" not in ty
        if len(its) != 2:
            its = [b for b in its if _elem_iter(b)]
        # `a.iter().chain(b.iter())`: the order is the order of chain's arguments
        for b, t in hp.calls():
            if callee(t).endswith("::chain") and len(t["args"]) == 2 and len(its) == 2:
                a0 = {l[2] for l in oh.at(t["args"][0], b) if l[0] == "call" and l[2] in its}
                a1 = {l[2] for l in oh.at(t["args"][1], b) if l[0] == "call" and l[2] in its}
                if len(a0) == 1 and len(a1) == 1 and a0 != a1:
                    its = [next(iter(a0)), next(iter(a1))]
        need(len(its) == 2, "list concatenation in VM::add does not walk two element lists (%d)" % len(its))
        lf = [{l[1] for l in oh.at(hp.term(b)["args"][0], b) if l[0] == "param"} for b in its]
        return first, second, lf, hp

    def cmp_slots(handler, want):
        hf = F.fn(VM + handler)
        o = Origins(hf)
        pops = _pops(hf)
        need(len(pops) == 2, "%s does not pop two operands" % handler)
        out = []
        for b, j, pl, rv, m in hf.assigns():
            if rv["k"] == "bin" and rv["op"] in ("Gt", "Lt", "Ge", "Le") and rv["ty"] in ("i64", "f64"):
                a = _which_pop(o.at(rv["ops"][0], b), pops)
                c = _which_pop(o.at(rv["ops"][1], b), pops)
                out.append((rv["ty"], rv["op"], a, c, b))
        need(len(out) == 2, "%s does not compare i64 and f64" % handler)
        return out, hf

    def left_pop(v):
        sides = _dedupe_sides(order[v][0])
        need(sorted(sides) == ["left", "right"], "arm %s of the translator does not translate left and right (%s)" % (v, order[v][0]))
        # last pushed operand is popped first
        return 1 if sides[-1] == "left" else 2

    A = {"Sub": ("op_sub", "sub", "Sub"), "Div": ("op_div", "div", "Div"), "Mod": ("op_mod", "modulus", "Rem"),
         "Mul": ("op_mul", "mul", "Mul"), "Add": ("op_add", "add", "Add")}
    from ..core import AnchorError
    for v, (handler, helper, trait) in A.items():
        lp = left_pop(v)
        try:
            slots, hp = arith(handler, helper, trait)
        except AnchorError as first:
            # the handler is written some other way (a shared helper taking a closure or function items, ..): evaluate it with
            # symbolic operands and read off which pop arrives in which slot of the machine operation
            obs = operand_slots(F, handler, {trait})
            hp = F.fn(VM + handler)
            need({ty for (w, ty) in obs} >= {"i64", "f64"}, "%s (%s); by evaluation only %s was observed" % (first, handler, sorted(obs)))
            slots = []
            for (w, ty), pairs in sorted(obs.items()):
                need(len(pairs) == 1, "%s: the operands of %s on %s arrive in several orders %s" % (handler, w, ty, sorted(pairs)))
                s0, s1 = next(iter(pairs))
                slots.append((ty, s0, s1))
        for ty, s0, s1 in slots:
            ok = s0 == lp and s1 != lp
            commutative = v in ("Mul",) or (v == "Add")
            r.inst("%s:%s" % (v, ty), hp.where(), ok or (commutative and {s0, s1} == {1, 2}),
                   "AST left -> pop %d -> slot 0 of %s" % (lp, trait) + (" (commutative)" if commutative and not ok else "") if ok or commutative else
                   "operands of `%s` are crossed for %s: the AST's left operand arrives as the right operand of %s" % ({"Sub": "-", "Div": "/", "Mod": "%%"}.get(v, v), ty, trait))
    # concatenation
    lp = left_pop("Add")
    first, second, lf, hp = concat()
    hf = F.fn(VM + "op_add")
    o = Origins(hf)
    pops = _pops(hf)
    hcs = [(b, t) for b, t in hf.calls() if callee(t) == VM + "add"]
    if hcs and len(pops) == 2:
        hc = hcs[0]
        a_pop = _which_pop(o.at(hc[1]["args"][1], hc[0]), pops)[0]
    else:
        # VM::add is reached through a shared helper / a closure: which pop arrives as its first value parameter, by evaluation
        sim = OperandSim(F, depth=8)
        sim.watch_calls = {VM + "add"}
        try:
            sim.run(F.fns[VM + "op_add"], [AI.U] * F.fns[VM + "op_add"].nargs)
        except AI.Lossy as e:
            need(False, "op_add: %s" % e)
        seen = {(a[1], b[1]) for what, ty, a, b, where in sim.records if what == "call:" + VM + "add" and a[0] == "sym" and b[0] == "sym"}
        need(len(seen) == 1, "op_add: the operands handed to VM::add were not identified (%s)" % sorted(seen))
        a_pop = next(iter(seen))[0]
    left_param = 2 if a_pop == lp else 3
    ok = first == {left_param} and second == ({2, 3} - {left_param})
    r.inst("Add:str", hp.where(), ok, "string concatenation appends the left operand first" if ok else "string `+` concatenates right before left")
    ok = len(lf) == 2 and lf[0] == {left_param} and lf[1] == ({2, 3} - {left_param})
    r.inst("Add:list", hp.where(), ok, "list concatenation copies the left list first" if ok else "list `+` concatenates right before left")
    # comparisons
    C = {"GT": ("op_gt", "Gt"), "LT": ("op_lt", "Lt"), "GTEqual": ("op_gteq", "Ge"), "LTEqual": ("op_lteq", "Le")}
    for v, (handler, want) in C.items():
        lp = left_pop(v)
        try:
            res, hf = cmp_slots(handler, want)
        except AnchorError as first:
            obs = operand_slots(F, handler, {"Gt", "Lt", "Ge", "Le"})
            hf = F.fn(VM + handler)
            need({ty for (w, ty) in obs} >= {"i64", "f64"}, "%s (%s); by evaluation only %s was observed" % (first, handler, sorted(obs)))
            res = []
            for (w, ty), pairs in sorted(obs.items()):
                need(len(pairs) == 1, "%s: the operands of %s on %s arrive in several orders %s" % (handler, w, ty, sorted(pairs)))
                s0, s1 = next(iter(pairs))
                res.append((ty, w, [s0], [s1], None))
        for ty, op, a, c, b in res:
            ok = a == [lp] and c == [3 - lp]
            r.inst("%s:%s" % (v, ty), hf.where(b) if b is not None else hf.where(), ok, "AST left is the left operand of the comparison" if ok else
                   "operands of the %s comparison are crossed for %s" % (v, ty))
    # regex
    for v in ("REMatch", "NotREMatch"):
        lp = left_pop(v)
        rx = F.fn(RT + "regex")
        o = Origins(rx)
        pops = _pops(rx)
        need(len(pops) == 2, "regex hook does not pop two operands")
        new = [(b, t) for b, t in rx.calls() if callee(t).endswith("Regex::new")]
        find = [(b, t) for b, t in rx.calls() if callee(t).endswith("Regex::find")]
        need(len(new) == 1 and len(find) == 1, "Regex::new / find not found in the regex hook")
        pat = _which_pop(o.at(new[0][1]["args"][0], new[0][0]), pops)
        txt = [x for x in _which_pop(o.at(find[0][1]["args"][1], find[0][0]), pops)]
        ok = txt == [lp] and pat == [3 - lp]
        r.inst("%s:regex" % v, rx.where(find[0][0]), ok, "left is the text, right the pattern" if ok else "regex match uses the left operand as the pattern")
    # in: container is the AST right
    lp = left_pop("IN")
    ex = F.fn(VM + "op_exist")
    o = Origins(ex)
    pops = _pops(ex)
    need(len(pops) == 2, "op_exist does not pop two operands")
    cont = None
    for b in range(len(ex.blocks)):
        t = ex.term(b)
        if t["k"] == "switch" and t.get("enum") == "ucglib::build::opcode::Composite" and not ex.is_cleanup(b):
            w = _which_pop(o.at(t["src"], b), pops)
            if len(w) == 1:
                cont = w[0]
    need(cont is not None, "container operand of op_exist not identified")
    ok = cont == 3 - lp
    r.inst("IN:container", ex.where(), ok, "`x in c`: c (AST right) is the container" if ok else "`in` searches the left operand inside... the wrong side is the container")
    # dot: container is the AST left: before every Index push the last thing emitted is the selector (right side)
    # and the left side was translated before it
    oi = F.fn(VM + "op_index")
    o = Origins(oi)
    pops = _pops(oi)
    need(len(pops) == 2, "op_index does not pop two operands")
    cont = None
    for b in range(len(oi.blocks)):
        t = oi.term(b)
        if t["k"] == "switch" and t.get("enum") == "ucglib::build::opcode::Composite" and not oi.is_cleanup(b):
            w = _which_pop(o.at(t["src"], b), pops)
            if len(w) == 1:
                cont = w[0]
    need(cont is not None, "container operand of op_index not identified")
    ot = Origins(te)
    dot = TR.arm_blocks(te, BET, "DOT")
    events = [("push", p["bb"], p) for p in TR.pushes(te) if p["bb"] in dot] + [("rec", c["bb"], c) for c in TR.rec_calls(te) if c["bb"] in dot]
    idxs = [p for p in TR.pushes(te) if p["bb"] in dot and p["op"] == "Index"]
    need(len(idxs) >= 3, "Index pushes not found in the DOT arm")
    ev_blocks = {e[1] for e in events}
    def side(e):
        kind, bb, ev = e
        arg = ev["agg"]["ops"][0] if kind == "push" and ev["agg"] and ev["agg"]["ops"] else ev["term"]["args"][0] if kind == "rec" else None
        labs = ot.at(arg, bb) if arg is not None else set()
        l_, r__ = ("field", "left") in labs, ("field", "right") in labs
        return "left" if l_ and not r__ else "right" if r__ and not l_ else "both" if l_ and r__ else "none"
    for p in idxs:
        # the events from which the Index push is reached without passing another emission
        lasts = [e for e in events if e[1] != p["bb"] and p["bb"] in cfg.reachable(te, e[1], removed=ev_blocks - {e[1], p["bb"]})]
        need(lasts, "nothing is emitted before Index")
        verdicts = []
        for e in lasts:
            s_last = side(e)
            # ... and what precedes that selector emission is the translation of the left side
            prevs = [x for x in events if x[1] != e[1] and e[1] in cfg.reachable(te, x[1], removed=ev_blocks - {x[1], e[1]})]
            s_prev = {side(x) for x in prevs}
            verdicts.append(s_last == "right" and s_prev == {"left"})
        ok = all(verdicts) and cont == 2
        r.inst("DOT:container", te.where(p["bb"]), ok, "`c.k`: left is translated, then the selector, then Index; the container is the second pop" if ok else
               "selector container and index are crossed (emission order before Index / container pop %s)" % cont)
    # is: Typ is applied to the AST left (pushed last)
    sides, ops, _ = order["IS"]
    ok = sides == ["right", "left"] and [x[0] for x in ops] == ["Typ", "Equal"]
    r.inst("IS:subject", te.where(), ok, "`e is t`: e is on top when Typ runs" if ok else "`is` computes the type name of the wrong operand (%s, %s)" % (sides, ops))
    # && ||: left evaluated first, placeholder between
    for v in ("AND", "OR"):
        sides, ops, _ = order[v]
        ok = sides == ["left", "right"] and [x[0] for x in ops] == ["Noop"]
        r.inst("%s:left-first" % v, te.where(), ok, "left operand is evaluated (and tested) before the right one" if ok else "short-circuit operator evaluates %s" % sides)
    return r


def r1h(F):
    r = RuleResult("R1h", "hook argument order",
                   "map/filter push (name,) value and reduce pushes accumulator, (name,) value in this order before every callback "
                   "call; ordinary calls push arguments in list order, op_func reverses the parameter names exactly once and "
                   "fcall_impl binds while popping; format reverses placeholders and arguments together", floor=12)
    want = {"map": {"List": ["elem"], "Tuple": ["name", "value"], "Str": ["char"]},
            "filter": {"List": ["elem"], "Tuple": ["name", "value"], "Str": ["char"]},
            "reduce": {"List": ["acc", "elem"], "Tuple": ["acc", "name", "value"], "Str": ["acc", "char"]}}
    for hook in ("map", "filter", "reduce"):
        fn = F.fn(RT + hook)
        o = Origins(fn)
        fw = set(util.forwarders(F, VM + "fcall_impl"))
        calls = [(b, t) for b, t in fn.calls() if callee(t) == VM + "fcall_impl" or callee(t) in fw]
        need(len(calls) == 3, "%s does not have three callback call sites" % hook)
        stack_pushes = [(b, t) for b, t in fn.calls() if callee(t) == "alloc::vec::Vec::push" and
                        "alloc::vec::Vec<(alloc::rc::Rc<ucglib::build::opcode::Value>" in fn.local_ty(op_local(t["args"][0]) or 0)]
        loops = cfg.natural_loops(fn)
        for cb, ct in calls:
            kind = [k for k, enum in (("List", "ucglib::build::opcode::Composite"), ("Tuple", "ucglib::build::opcode::Composite"), ("Str", "ucglib::build::opcode::Primitive"))
                    if cb in TR.arm_blocks(fn, enum, k)]
            need(len(kind) == 1, "callback call in %s not inside one target arm (%s)" % (hook, kind))
            kind = kind[0]
            body = [bd for h, bd in loops.items() if cb in bd]
            need(body, "callback call in %s is not inside a loop" % hook)
            body = min(body, key=len)
            ps = _ordered(fn, [b for b, t in stack_pushes if b in body and cfg.dominates(fn, b, cb)])
            seq = []
            pops = _pops(fn)
            for b in ps:
                arg = fn.term(b)["args"][1]
                agg = TR.agg_def(fn, op_local(arg), b)
                need(agg is not None and agg.get("adt") == "(tuple)", "pushed stack entry is not a (value, position) tuple")
                labs = o.at(agg["ops"][0], b)
                res = results_in(labs)
                # is the value built right here as Rc::new(P(Str(..)))?  (structural walk, not labels: the accumulator's
                # labels contain everything the previous callback saw)
                built_str = False
                vl = op_local(agg["ops"][0])
                cdefs = [(bb2, t2) for bb2, t2 in fn.calls() if t2["dest"]["l"] == vl and not t2["dest"]["p"] and callee(t2) == "alloc::rc::Rc::new"]
                if len(cdefs) == 1:
                    inner = TR.agg_def(fn, op_local(cdefs[0][1]["args"][0]), cdefs[0][0])
                    if inner is not None and inner.get("variant") == "P" and inner["ops"]:
                        prim = TR.agg_def(fn, op_local(inner["ops"][0]), cdefs[0][0])
                        if prim is not None and prim.get("variant") == "Str":
                            built_str = True
                            res = results_in(o.at(prim["ops"][0], cdefs[0][0]))
                from_pops = _which_pop(labs, pops)
                from_call = VM + "fcall_impl" in res or bool(set(res) & fw)
                if built_str:
                    seq.append("char" if any(c.endswith("::to_string") for c in res) else "name")
                elif hook == "reduce" and (2 in from_pops or from_call):
                    # the accumulator: second pop, later the previous callback result (which in turn depends on everything)
                    seq.append("acc")
                elif 1 in from_pops:
                    seq.append("value" if kind == "Tuple" else "elem")
                else:
                    seq.append("?")
            ok = seq == want[hook][kind]
            r.inst("%s:%s" % (hook, kind), fn.where(cb), ok, "pushes %s" % ", ".join(seq) if ok else
                   "callback arguments for %s over a %s are pushed as %s, the reference says %s" % (hook, kind.lower(), seq, want[hook][kind]))
    # ordinary calls: forward loop over arglist, one reverse in op_func, forward binding in fcall_impl
    of = F.fn(VM + "op_func")
    revs = [b for b, t in of.calls() if callee(t).endswith("::reverse")]
    o = Origins(of)
    okr = len(revs) == 1
    if revs:
        labs = o.at(of.term(revs[0])["args"][0], revs[0])
        okr = okr and any("bindings" in of.var_names().get(l, ()) for l in o.alias[op_local(of.term(revs[0])["args"][0])] | {op_local(of.term(revs[0])["args"][0])})
    r.inst("op_func:one-reverse", of.where(), okr, "parameter names reversed exactly once (arguments are popped last-first)" if okr else "op_func reverses the parameter list %d times" % len(revs))
    fi = F.fn(VM + "fcall_impl")
    cs = {callee(t) for b, t in fi.calls()}
    rev = sorted(c for c in cs if c.endswith(("::rev", "::reverse")))
    r.inst("fcall_impl:forward-binding", fi.where(), not rev, "bindings are consumed in stored order" if not rev else "fcall_impl re-reverses the bindings (%s)" % rev)
    te = F.fn(TR.T + "translate_expr")
    for arm_enum, arm in (("ucglib::ast::Expression", "Call"),):
        blocks = TR.arm_blocks(te, arm_enum, arm)
        cs = {callee(te.term(b)) for b in blocks if te.term(b)["k"] == "call"}
        rev = sorted(c for c in cs if c.endswith(("::rev", "::reverse")))
        r.inst("translate:Call:forward-args", te.where(min(blocks)), not rev, "arguments are pushed in list order" if not rev else "call arguments are pushed reversed")
    fmt = TR.arm_blocks(te, "ucglib::ast::FormatArgs", "List")
    # `v.reverse()` in place or `.rev()` on the iterator that is consumed: each turns one of the two sequences round
    revs = [b for b in fmt if te.term(b)["k"] == "call" and callee(te.term(b)).endswith(("::reverse", "::rev"))]
    need(1 <= len(revs) <= 2, "the Format arm pairs placeholders and arguments in a way this rule does not read (%d reversals)" % len(revs))
    r.inst("translate:Format:List:reverses", te.where(min(fmt)), len(revs) == 2, "placeholders and arguments are reversed together" if len(revs) == 2 else "format reverses %d of {parts, arguments}: placeholders pair with the wrong arguments" % len(revs))
    return r


def r2(F):
    r = RuleResult("R2", "opcode applies its own operation",
                   "the handler reached from the dispatch arm of Op::X performs the machine operation X; the dispatch has an arm for "
                   "every opcode", floor=12, exhaustive=True)
    run = F.fn(VM + "run")
    arms = TR.arms(run, TR.OP)
    allv = F.variants(TR.OP)
    missing = [v for v in allv if v not in arms]
    sw = [run.term(b) for b in range(len(run.blocks)) if run.term(b)["k"] == "switch" and run.term(b).get("enum") == TR.OP]
    explicit = {x.get("variant") for t in sw for x in t["targets"]}
    other_ok = all(run.term(t["otherwise"])["k"] == "unreachable" for t in sw) or set(allv) <= explicit
    r.inst("run:dispatch-exhaustive", run.where(), not missing and other_ok, "%d opcodes, each with its own arm" % len(allv) if not missing and other_ok else "opcodes without an explicit dispatch arm: %s" % (missing or "wildcard arm"))
    A = {"Add": ("op_add", "add", "Add"), "Sub": ("op_sub", "sub", "Sub"), "Mul": ("op_mul", "mul", "Mul"), "Div": ("op_div", "div", "Div"), "Mod": ("op_mod", "modulus", "Rem")}
    C = {"Gt": "Gt", "Lt": "Lt", "GtEq": "Ge", "LtEq": "Le"}
    def handler_of(op):
        ent = arms.get(op)
        need(ent, "no dispatch arm for Op::%s" % op)
        blocks = {b for sb, e in ent for b in range(len(run.blocks)) if cfg.dominates(run, e, b)}
        hs = [callee(t) for b, t in run.calls() if b in blocks and callee(t).startswith(VM + "op_")]
        need(len(hs) == 1, "Op::%s does not dispatch to exactly one handler (%s)" % (op, hs))
        return F.fn(hs[0])
    def performed(name, seen, depth=4):
        """machine operations the handler can perform: in its own body, in the VM helpers it calls, in the closures it
        creates and in the function items it passes on (`i64::checked_mul` handed to a shared arithmetic helper)"""
        if name in seen or name not in F.fns or depth < 0:
            return set(), []
        seen.add(name)
        fn = F.fns[name]
        ops, via = set(), []
        for b, t in fn.calls():
            c = callee(t)
            mo = machine_op(c)
            if mo:
                ops.add(mo[0])
            for a in t["args"]:
                if "fn" in a and machine_op(a["fn"]):
                    ops.add(machine_op(a["fn"])[0])
            if c.startswith(VM) and c not in (POP, VM + "push", VM + "checked_int"):
                o2, v2 = performed(c, seen, depth - 1)
                ops |= o2
                via += [c.split("::")[-1]] + v2
        for b, j, pl, rv, m in fn.assigns():
            if rv["k"] == "bin" and rv.get("ty") in ("i64", "f64") and rv["op"] in ("Add", "Sub", "Mul", "Div", "Rem"):
                ops.add(rv["op"])
            if rv["k"] == "agg" and rv.get("adt") == "{closure}":
                o2, v2 = performed(rv["closure"], seen, depth - 1)
                ops |= o2
        return ops, via
    for op, (h, helper, trait) in A.items():
        hf = handler_of(op)
        traits, via = performed(hf.name, set())
        need(traits, "the machine operation behind %s was not found (not in its helpers, closures or function items)" % hf.name)
        traits = sorted(traits)
        ok = traits == [trait]
        r.inst("Op::%s" % op, hf.where(), ok, "%s -> %s -> core::ops::%s" % (op, "/".join(dict.fromkeys(via)) or "itself", trait) if ok else "Op::%s performs %s" % (op, traits))
    CMP_FN = {"gt": "Gt", "lt": "Lt", "ge": "Ge", "le": "Le"}
    for op, want in C.items():
        hf = handler_of(op)
        bins = {rv["op"] for b, j, pl, rv, m in hf.assigns() if rv["k"] == "bin" and rv["op"] in ("Gt", "Lt", "Ge", "Le", "Eq", "Ne") and rv["ty"] in ("i64", "f64")}
        # the comparison handed to a shared helper as a function item (`i64::gt`, `f64::gt` = PartialOrd::gt)
        items = [a for b, t in hf.calls() for a in t["args"]] + [a for b, j, pl, rv, m in hf.assigns() for a in (rv.get("ops") or [])]
        for a in items:
            fnm = str(a.get("fn", ""))
            last = fnm.split("::")[-1]
            full = str(a.get("full", fnm))
            if last in CMP_FN and ("PartialOrd" in fnm or "cmp" in fnm) and ("i64" in full or "f64" in full):
                bins.add(CMP_FN[last])
        need(bins, "the comparison behind %s was not found (not in its body, not handed on as a function item)" % hf.name)
        bins = sorted(bins)
        ok = bins == [want]
        r.inst("Op::%s" % op, hf.where(), ok, "%s compares with %s" % (op, want) if ok else "Op::%s compares with %s" % (op, bins))
    hf = handler_of("Not")
    nots = [1 for b, j, pl, rv, m in hf.assigns() if rv["k"] == "un" and rv["op"] == "Not" and rv["ty"] in ("bool", "&bool")] + \
        [1 for b, t in hf.calls() if "core::ops::bit::Not" in callee(t) and "bool" in callee(t)]
    r.inst("Op::Not", hf.where(), bool(nots), "boolean negation" if nots else "Op::Not does not negate")
    hf = handler_of("Equal")
    eqs = [callee(t) for b, t in hf.calls() if callee(t).endswith("PartialEq>::eq") or callee(t).endswith("::eq")]
    nes = [callee(t) for b, t in hf.calls() if callee(t).endswith("::ne")]
    valeq = [c for c in eqs if "Value" in c or "Rc<" in c]
    r.inst("Op::Equal", hf.where(), bool(valeq) and not [c for c in nes if "Value" in c or "Rc<" in c], "structural equality of the two values" if valeq else "Op::Equal does not compare the values with ==")
    return r


def r3(F):
    r = RuleResult("R3", "jump patching and short-circuit polarity",
                   "at every OpsMap::replace of a jump-carrying opcode the patched index is the placeholder (len_a - 1, taken right "
                   "after the Noop push) and the offset is len_b - len_a (exactly the ops emitted after the placeholder); op_jump adds "
                   "the offset to the current pointer and OpPointer::next pre-increments; && jumps on false, || on true, SelectJump on "
                   "no match", floor=13)
    te = F.fn(TR.T + "translate_expr")
    lin = Linear(te)
    reps = TR.replaces(te)
    pushes = TR.pushes(te)
    noops = [p for p in pushes if p["op"] == "Noop"]
    all_push_blocks = {p["bb"] for p in pushes} | {c["bb"] for c in TR.rec_calls(te)}
    need(len(reps) == 8, "expected 8 patch sites in translate_expr, found %d" % len(reps))
    for rp in reps:
        k = rp["op"]
        b = rp["bb"]
        idx = lin.of_operand(rp["idx"])
        off = lin.of_operand(rp["agg"]["ops"][0]) if rp["agg"] and rp["agg"]["ops"] else None
        if k == "Jump":
            # deferred jumps of Select: idx is an element of `jumps`; offset = end - i
            okj, why = _select_jumps(te, lin, rp, pushes)
            r.inst("patch:Jump", te.where(b), okj, why)
            continue
        verdict = None
        if idx is None or off is None:
            verdict = "index / offset of the %s patch is not a linear form of ops.len() (%s, %s)" % (k, show(idx), show(off))
        else:
            syms = [s for s in idx if s != 1]
            if len(syms) != 1 or idx.get(syms[0]) != 1 or idx.get(1, 0) != -1:
                verdict = "patched index is %s, expected len_a - 1" % show(idx)
            else:
                la = syms[0]
                # len_a is taken right after a Noop push: dominated by it with no push in between
                cand = [p for p in noops if cfg.dominates(te, p["bb"], la[1])]
                near = [p for p in cand if not (cfg.reachable(te, p["bb"], removed={la[1]}) & (all_push_blocks - {p["bb"]}) and
                                                la[1] not in cfg.reachable(te, p["bb"], removed=all_push_blocks - {p["bb"]}))]
                direct = [p for p in cand if la[1] in cfg.reachable(te, p["bb"], removed=all_push_blocks - {p["bb"]})]
                if not direct:
                    verdict = "the index snapshot of the %s patch is not taken right after the placeholder push" % k
                else:
                    want = {sym: c for sym, c in off.items()}
                    lbs = [s for s in off if s != 1 and s != la]
                    if len(lbs) != 1 or off.get(lbs[0]) != 1 or off.get(la) != -1 or off.get(1, 0) != 0:
                        verdict = "offset of the %s patch is %s, expected len_b - len_a: the jump lands %s" % (k, show(off), "one op off" if off.get(1, 0) else "elsewhere")
                    else:
                        lb = lbs[0]
                        # no push between len_b and the replace
                        if b not in cfg.reachable(te, lb[1], removed=all_push_blocks):
                            verdict = "ops are emitted between the length snapshot and the %s patch" % k
        r.inst("patch:%s" % k, te.where(b), verdict is None, "idx = len_a - 1, offset = len_b - len_a" if verdict is None else verdict)
    # VM side
    oj = F.fn(VM + "op_jump")
    o = Origins(oj)
    adds = [(b, rv) for b, j, pl, rv, m in oj.assigns() if rv["k"] == "bin" and rv["op"] in ("Add", "AddWithOverflow")]
    cl = F.closures_of(VM + "op_jump")
    for c in cl:
        adds += [(b, rv) for b, j, pl, rv, m in c.assigns() if rv["k"] == "bin" and rv["op"] in ("Add", "AddWithOverflow")]
    subs = [1 for f in [oj] + cl for b, j, pl, rv, m in f.assigns() if rv["k"] == "bin" and rv["op"] in ("Sub", "SubWithOverflow", "Mul", "MulWithOverflow")]
    r.inst("op_jump:adds", oj.where(), len(adds) == 1 and not subs, "target = current pointer + offset" if len(adds) == 1 and not subs else "op_jump does not simply add the offset")
    nx = F.fn("ucglib::build::opcode::pointer::OpPointer::next")
    incs = [(b, rv) for b, j, pl, rv, m in nx.assigns() if rv["k"] == "bin" and rv["op"] in ("Add", "AddWithOverflow") and any(x.get("int") == "1" for x in rv["ops"])]
    r.inst("OpPointer::next:pre-increment", nx.where(), len(incs) == 1, "next() advances by one before fetching" if len(incs) == 1 else "OpPointer::next does not advance by exactly one")
    # polarity
    for h, want, text in (("op_and", "false", "&& jumps over the right operand when the left is false"),
                          ("op_or", "true", "|| jumps over the right operand when the left is true"),
                          ("op_jump_if_true", "true", "JumpIfTrue"), ("op_jump_if_false", "false", "JumpIfFalse")):
        fn = F.fn(VM + h)
        jumps = [b for b, t in fn.calls() if callee(t) == VM + "op_jump"]
        need(len(jumps) == 1, "%s does not call op_jump once" % h)
        o = Origins(fn)
        ok = False
        for sb in range(len(fn.blocks)):
            t = fn.term(sb)
            if t["k"] == "switch" and t.get("ty") == "bool" and not fn.is_cleanup(sb):
                labs = o.at(t["on"], sb)
                if ("variant", "Bool") in labs:
                    pol = -1 if ("un", "Not") in labs else 1
                    zero = [x["t"] for x in t["targets"] if x["val"] == "0"][0]
                    true_t, false_t = (t["otherwise"], zero) if pol == 1 else (zero, t["otherwise"])
                    edge = true_t if want == "true" else false_t
                    other = false_t if want == "true" else true_t
                    ok = cfg.dominates(fn, edge, jumps[0]) and jumps[0] not in cfg.reachable(fn, other)
        r.inst("%s:polarity" % h, fn.where(jumps[0]), ok, text if ok else "%s jumps on the wrong edge" % h)
    sj = F.fn(VM + "op_select_jump")
    jumps = [b for b, t in sj.calls() if callee(t) == VM + "op_jump"]
    need(len(jumps) == 1, "op_select_jump does not call op_jump once")
    names = sj.var_names()
    ml = [l for l, ns in names.items() if "matched" in ns]
    need(ml, "`matched` not found in op_select_jump")
    ok = False
    for sb, ft, tt in util.bool_switches(sj, ml[0]):
        ok = cfg.dominates(sj, ft, jumps[0]) and jumps[0] not in cfg.reachable(sj, tt)
    r.inst("op_select_jump:polarity", sj.where(jumps[0]), ok, "jumps to the next case when the key does not match" if ok else "SelectJump jumps on a match")
    return r


def _select_jumps(te, lin, rp, pushes):
    """Select: jumps.push(len - 1) right after the Noop placeholder; later Jump(end - i) with end = len_e - 1"""
    b = rp["bb"]
    off_op = rp["agg"]["ops"][0]
    # offset = cast(end - i)
    l = op_local(off_op)
    ds = lin.defs.get(l, [])
    # walk to the Sub
    def find_sub(l, depth=0):
        if depth > 8:
            return None
        for bb, rv in lin.defs.get(l, []):
            if rv["k"] == "bin" and rv["op"].startswith("Sub"):
                return rv
            if rv["k"] in ("use", "cast"):
                pl = op_place(rv["ops"][0])
                if pl is not None:
                    return find_sub(pl["l"], depth + 1)
        return None
    sub = find_sub(l)
    if sub is None:
        return False, "Jump offset is not `end - i`"
    end = lin.of_operand(sub["ops"][0])
    i_l = op_local(sub["ops"][1])
    idx_l = op_local(rp["idx"])
    if end is None or len([s for s in end if s != 1]) != 1 or end.get(1, 0) != -1:
        return False, "`end` of the deferred select jumps is %s, expected len_e - 1" % show(end)
    # i (offset operand) and the patched index are the same element of `jumps`
    o = Origins(te)
    li, lx = o.at(sub["ops"][1], b), o.at(rp["idx"], b)
    nexts_i = {l_ for l_ in li if l_[0] == "call" and l_[1].endswith("::next")}
    nexts_x = {l_ for l_ in lx if l_[0] == "call" and l_[1].endswith("::next")}
    if not nexts_i or nexts_i != nexts_x:
        return False, "patched index and subtracted index of the deferred jumps are not the same element"
    # what is pushed into jumps: len - 1 right after a Noop push
    jp = [(bb, t) for bb, t in te.calls() if callee(t) == "alloc::vec::Vec::push" and "alloc::vec::Vec<usize>" in te.local_ty(op_local(t["args"][0]) or 0)]
    if len(jp) != 1:
        return False, "jumps.push not found"
    v = lin.of_operand(jp[0][1]["args"][1])
    syms = [s for s in (v or {}) if s != 1]
    if v is None or len(syms) != 1 or v.get(1, 0) != -1:
        return False, "value recorded for a deferred jump is %s, expected len - 1" % show(v)
    noops = [p for p in pushes if p["op"] == "Noop"]
    allp = {p["bb"] for p in pushes} | {c["bb"] for c in TR.rec_calls(te)}
    direct = [p for p in noops if cfg.dominates(te, p["bb"], syms[0][1]) and syms[0][1] in cfg.reachable(te, p["bb"], removed=allp - {p["bb"]})]
    if not direct:
        return False, "the recorded index of a deferred jump is not the placeholder just pushed"
    return True, "deferred jumps: idx = placeholder, offset = (len_e - 1) - idx"


def r4(F):
    r = RuleResult("R4", "exhaustive translation",
                   "translate_stmt / translate_expr / translate_value have an explicit arm for every Statement / Expression / Value "
                   "variant and every arm emits code", floor=32, exhaustive=True)
    for fname, enum in ((TR.T + "translate_stmt", "ucglib::ast::Statement"), (TR.T + "translate_expr", "ucglib::ast::Expression"), (TR.T + "translate_value", "ucglib::ast::Value")):
        fn = F.fn(fname)
        arms = TR.arms(fn, enum)
        pushes = {p["bb"] for p in TR.pushes(fn)} | {c["bb"] for c in TR.rec_calls(fn)}
        top = [fn.term(b) for b in range(len(fn.blocks)) if fn.term(b)["k"] == "switch" and fn.term(b).get("enum") == enum and not fn.is_cleanup(b)]
        explicit = {x.get("variant") for t in top[:1] for x in t["targets"]}
        for v in F.variants(enum):
            blocks = TR.arm_blocks(fn, enum, v) if v in arms else set()
            emits = bool(blocks & pushes)
            ok = v in arms and emits and (v in explicit or len(F.variants(enum)) - len(explicit) <= 1)
            r.inst("%s::%s" % (enum.split("::")[-1], v), fn.where(min(blocks)) if blocks else fn.where(), ok, "translated" if ok else "no code is emitted for %s::%s" % (enum.split("::")[-1], v))
    return r


def r84(F):
    r = RuleResult("R84", "range bounds",
                   "Builtins::range starts at start, adds step, stops when num > end (end included), treats a missing step as 1 and "
                   "rejects step <= 0", floor=4)
    fn = F.fn(RT + "range")
    o = Origins(fn)
    names = fn.var_names()
    cmps = [(b, pl["l"], rv) for b, j, pl, rv, m in fn.assigns() if rv["k"] == "bin" and rv["op"] in ("Gt", "Ge", "Lt", "Le") and rv["ty"] == "i64"]
    need(len(cmps) == 2, "expected two i64 comparisons in range (step guard, loop exit), found %d" % len(cmps))
    loop = cfg.natural_loops(fn)
    need(len(loop) == 1, "expected one loop in Builtins::range")
    h, body = next(iter(loop.items()))
    pops = _pops(fn)
    need(len(pops) == 3, "range does not pop start, step, end")
    for b, dest, rv in cmps:
        if b in body:
            la, lb = o.at(rv["ops"][0], b), o.at(rv["ops"][1], b)
            # num > end : the exit comparison; `end` is the third pop
            a_end = 3 in _which_pop(la, pops) and 1 not in _which_pop(la, pops)
            b_end = 3 in _which_pop(lb, pops) and 1 not in _which_pop(lb, pops)
            op = rv["op"]
            if a_end and not b_end:
                op = {"Gt": "Lt", "Lt": "Gt", "Ge": "Le", "Le": "Ge"}[op]
            exits = [s for s in util.bool_switches(fn, dest)]
            need(exits, "loop comparison is not tested")
            sb, ft, tt = exits[0]
            leaves_on_true = not (cfg.reachable(fn, tt, removed={h}) & {x for x in body if fn.term(x)["k"] == "call" and callee(fn.term(x)) == "alloc::vec::Vec::push"})
            ok = op == "Gt" and leaves_on_true
            r.inst("range:exit", fn.where(b), ok, "leaves when num > end: `1:10` ends with 10" if ok else "range exit test is `num %s end` (%s): the end value is %s" % (op, "leaves" if leaves_on_true else "stays", "excluded" if op == "Ge" else "mishandled"))
        else:
            # step guard: step <= 0 -> Err
            consts = [x.get("int") for x in rv["ops"] if "int" in x]
            step_ok = 2 in _which_pop(o.at(rv["ops"][0], b), pops) or 2 in _which_pop(o.at(rv["ops"][1], b), pops)
            errs = {bb for bb, j, pl, rv2, m in fn.assigns() if pl["l"] == 0 and not pl["p"] and rv2["k"] == "agg" and rv2.get("variant") == "Err"}
            sb, ft, tt = util.bool_switches(fn, dest)[0]
            ok = rv["op"] == "Le" and consts == ["0"] and util.must_pass(fn, tt, errs, exits=cfg.exits(fn))
            r.inst("range:step-guard", fn.where(b), ok, "step <= 0 is an error" if ok else "non-positive steps are not rejected (the loop would never end)")
    # missing step -> Int(1)
    ones = [(b, rv) for b, j, pl, rv, m in fn.assigns() if rv["k"] == "agg" and rv.get("variant") == "Int" and rv["ops"] and rv["ops"][0].get("int") == "1"]
    emp = TR.arm_blocks(fn, "ucglib::build::opcode::Primitive", "Empty")
    ok = any(b in emp for b, rv in ones)
    r.inst("range:default-step", fn.where(), ok, "a missing step is 1" if ok else "a missing step does not default to 1")
    # num starts at start (first pop) and is advanced by step
    adds = [(b, rv["ops"]) for b, j, pl, rv, m in fn.assigns() if b in body and rv["k"] == "bin" and rv["op"] in ("Add", "AddWithOverflow") and rv["ty"] == "i64"]
    adds += [(b, t["args"]) for b, t in fn.calls() if b in body and callee(t) == "core::num::<impl i64>::checked_add"]
    ok = len(adds) == 1 and 2 in _which_pop(o.at(adds[0][1][1], adds[0][0]), pops) + _which_pop(o.at(adds[0][1][0], adds[0][0]), pops)
    r.inst("range:advance", fn.where(adds[0][0]) if adds else fn.where(), ok, "num advances by step" if ok else "the loop does not advance by step")
    return r


def r85(F):
    r = RuleResult("R85", "type-name table of `is`",
                   "VM::op_typ maps NULL, str, int, float, tuple, list, func and module values to exactly the strings the reference "
                   "lists for `is`", floor=8, exhaustive=True)
    fn = F.fn(VM + "op_typ")
    doc = docs.is_type_names(F.repo)
    table = {}
    def name_in(blocks):
        out = set()
        for b in blocks:
            for s in fn.stmts(b):
                if s[0] == "assign":
                    for op in s[2].get("ops", ()):
                        if "str" in op:
                            out.add(op["str"])
        return out
    V, Pm, Cm = "ucglib::build::opcode::Value", "ucglib::build::opcode::Primitive", "ucglib::build::opcode::Composite"
    from .. import variants as VA
    first = [b for b in range(len(fn.blocks)) if fn.term(b)["k"] == "switch" and fn.term(b).get("enum") == V and not fn.is_cleanup(b)]
    need(first, "op_typ does not match on the value")
    joins = util.ipdom(fn, first[0])
    kinds = [("null", {V: "P", Pm: "Empty"}), ("str", {V: "P", Pm: "Str"}), ("int", {V: "P", Pm: "Int"}), ("float", {V: "P", Pm: "Float"}),
             ("bool", {V: "P", Pm: "Bool"}), ("tuple", {V: "C", Cm: "Tuple"}), ("list", {V: "C", Cm: "List"}), ("func", {V: "F"}), ("module", {V: "M"})]
    for want, fixed in kinds:
        reach = VA.reach_multi(F, fn, first[0], fixed, removed={joins} if joins is not None else ())
        got = name_in(reach)
        table[want] = got
        if want in doc:
            ok = got == {want}
            r.inst("is:%s" % want, fn.where(), ok, "type name \"%s\"" % want if ok else "a %s value reports the type name %s, the reference says \"%s\"" % (want, sorted(got), want))
    for d in doc:
        if d not in table:
            r.inst("is:%s" % d, fn.where(), False, "documented type name \"%s\" is not produced" % d)
    return r


def r3s(F):
    from .. import access
    r = RuleResult("R3s", "the self stack is pushed and popped in pairs",
                   "the translator brackets every copy body with PushSelf .. PopSelf on all paths; op_push_self pushes the copy target on "
                   "every successful path whatever its kind and op_pop_self pops exactly once; nothing else writes self_stack -- so `self` "
                   "inside a copy body is the innermost enclosing copy target, also around module instantiations", floor=4)
    tc = F.fn("ucglib::build::opcode::translate::AST::translate_copy")
    ps = TR.pushes(tc)
    psh = [x["bb"] for x in ps if x["op"] == "PushSelf"]
    pop = [x["bb"] for x in ps if x["op"] == "PopSelf"]
    ok = len(psh) == 1 and len(pop) == 1 and cfg.dominates(tc, psh[0], pop[0]) and util.must_pass(tc, psh[0], set(pop))
    r.inst("translate_copy:bracket", tc.where(psh[0]) if psh else tc.where(), ok,
           "PushSelf is followed by PopSelf on every path" if ok else "translate_copy does not emit PushSelf/PopSelf as a bracket on every path")
    adt = "ucglib::build::opcode::vm::VM"
    for name, meth, other in (("op_push_self", "alloc::vec::Vec::push", "alloc::vec::Vec::pop"), ("op_pop_self", "alloc::vec::Vec::pop", "alloc::vec::Vec::push")):
        fn = F.fn(VM + name)
        refs = set()
        for b, j, pl, rv, m in fn.assigns():
            if rv["k"] == "ref" and any(isinstance(e, dict) and e.get("f") == "self_stack" for e in rv["place"]["p"]):
                refs.add(pl["l"])
        sites = {b for b, t in fn.calls() if callee(t) == meth and t["args"] and op_local(t["args"][0]) in refs}
        wrong = {b for b, t in fn.calls() if callee(t) == other and t["args"] and op_local(t["args"][0]) in refs}
        oks = [b for b, j, pl, rv, m in fn.assigns() if pl["l"] == 0 and not pl["p"] and rv["k"] == "agg" and rv.get("variant") == "Ok"]
        need(oks, "%s has no Ok return" % name)
        every = bool(sites) and all(ob not in cfg.reachable(fn, 0, removed=sites) for ob in oks)
        loops = cfg.natural_loops(fn)
        once = not any(b in body for h, body in loops.items() for b in sites) and len(sites) == 1
        ok = every and once and not wrong
        r.inst("%s:unconditional" % name, fn.where(sorted(sites)[0]) if sites else fn.where(), ok,
               "exactly one %s on self_stack on every successful path" % meth.split("::")[-1] if ok else
               ("%s reaches Ok without touching self_stack on some path (conditional on the value's kind?): its partner is unconditional, so "
                "the entry of the enclosing copy is %s" % (name, "popped instead" if name == "op_push_self" else "left behind") if not every else
                "%s touches self_stack more than once / also calls %s" % (name, other.split("::")[-1])))
    writers = set()
    for a in access.field_accesses(F, adt, "self_stack"):
        if a[0] in ("assign", "mutref"):
            writers.add(a[1].split("::")[-1])
    extra = sorted(writers - {"op_push_self", "op_pop_self"})
    r.inst("self_stack:writers", "src/build/opcode/vm.rs", not extra,
           "only op_push_self and op_pop_self modify self_stack" if not extra else "self_stack is also modified by %s" % extra)
    # the VM that evaluates the `@{..}` parts of a format string is a child of the current one (op_new_scope): the expression is part
    # of the enclosing copy body, so `self` must still be the enclosing tuple there - the child is built with the parent's self stack
    ns = F.fn(VM + "op_new_scope")
    need(ns is not None, "op_new_scope not found")
    makers = []
    for b, t in ns.calls():
        c = callee(t)
        if c.startswith(VM) and c in F.fns and c != ns.name:
            g = F.fns[c]
            for gb, j, pl, rv, m in g.assigns():
                if rv["k"] == "agg" and rv.get("adt") == adt and "self_stack" in (rv.get("fields") or []):
                    makers.append((g, gb, rv))
    for b, j, pl, rv, m in ns.assigns():
        if rv["k"] == "agg" and rv.get("adt") == adt and "self_stack" in (rv.get("fields") or []):
            makers.append((ns, b, rv))
    need(makers, "op_new_scope: the construction of the child VM was not found")
    for g, gb, rv in makers:
        op = rv["ops"][rv["fields"].index("self_stack")]
        labs = Origins(g).at(op, gb)
        ok = ("field", "self_stack") in labs
        handed_in = [l for l in labs if l[0] == "param" and l[1] != 1]
        need(ok or not handed_in, "%s: the child's self stack is handed in as a parameter; what the callers pass is not followed" % g.name.split("::")[-1])
        r.inst("format-scope:%s:self_stack-inherited" % g.name.split("::")[-1], g.where(gb), ok,
               "the child VM starts with the parent's self stack" if ok else
               "the VM that evaluates `@{..}` inside a copy body starts with an empty self stack: `base{ url = \"@{self.host}\" % {} }` fails "
               "with \"No such binding self\" (the reference semantics evaluates the expression in the enclosing scope)")
    return r


R3T_EXEMPT = {
    "Expression::Module.out_constraint": "the constraint on a module's out expression is enforced by the static checker (ModuleDef::derive_shape); "
                                          "the translator emits no runtime check for it",
}


def r3t(F):
    from . import c09
    r = RuleResult("R3t", "the translator compiles every child of every node",
                   "for every variant of Statement / Expression / Value (and the nested FuncOpDef, FormatArgs, ConstraintArm): every child "
                   "that can hold an expression is handed to a translate_* call, and for a plain (non-optional, non-collection) child on "
                   "every path through the arm except those that emit the build-error opcode: an arm that returns early with a constant "
                   "never evaluates the child, so a failing child no longer fails the build", floor=40, exhaustive=True)
    memo = {}
    T = TR.T
    roots = ((T + "translate_stmt", c09.STMT), (T + "translate_expr", c09.EXPR), (T + "translate_value", c09.VALUE))
    for fname, enum in roots:
        fn = F.fn(fname)
        o = Origins(fn)
        rec = TR.rec_calls(fn)
        bang = {x["bb"] for x in TR.pushes(fn) if x["op"] == "Bang"}
        exits = set(cfg.exits(fn))
        all_arms = TR.arms(fn, enum)
        for variant in F.variants(enum):
            need(variant in all_arms, "%s has no arm for %s" % (fname.split("::")[-1], variant))
            arm = TR.arm_blocks(fn, enum, variant)
            for path, field, kind, ty in c09._leaves(F, enum, variant, [], memo):
                blocks = set(arm)
                ent = all_arms[variant][0][1]
                for p in path:
                    if p[0] == "arm":
                        blocks &= TR.arm_blocks(fn, p[1], p[2])
                        ent = TR.arms(fn, p[1])[p[2]][0][1]
                label = "%s::%s" % (enum.split("::")[-1], variant) + "".join(
                    "." + (p[1] if p[0] == "field" else p[2]) for p in path) + "." + field
                if label in R3T_EXEMPT:
                    r.inst(label, fn.where(), True, "exempt: " + R3T_EXEMPT[label], nontrivial=False)
                    continue
                hits = set()
                for x in rec:
                    b = x["bb"]
                    if b not in blocks:
                        continue
                    labs = set()
                    for a in x["term"]["args"]:
                        labs |= o.at(a, b)
                    if ("field", field) in labs and all(("field", p[1]) in labs for p in path if p[0] == "field"):
                        hits.add(b)
                plain = "Option" not in ty and "Vec<" not in ty and kind in ("expr", "value")
                if not hits:
                    r.inst(label, fn.where(ent), False, "%s is never translated: it is not evaluated at all" % label)
                    continue
                if not plain:
                    r.inst(label, fn.where(min(hits)), True, "translated (optional / repeated child)")
                    continue
                ok = not (cfg.reachable(fn, ent, removed=hits | bang) & exits)
                r.inst(label, fn.where(min(hits)), ok, "translated on every path" if ok else
                       "a path through the arm of %s leaves without translating %s (and without emitting a build error): the child is "
                       "not evaluated on that path, so a failure inside it is lost" % (label.rsplit(".", 1)[0], field))
    return r


from . import c10 as _c10


def r2e(F):
    r = RuleResult("R2e", "`==` on tuples compares the number of fields",
                   "the equality the VM's Equal / NotEqual opcodes use (PartialEq for opcode::Value): the Tuple arm compares the two "
                   "lengths before (or instead of) looking each field of one side up in the other - a one-directional lookup alone makes "
                   "a tuple equal to every tuple that has its fields and more, and `{}` equal to every tuple", floor=1)
    name = "<ucglib::build::opcode::Value as core::cmp::PartialEq>::eq"
    need(name in F.fns, "PartialEq for opcode::Value not found")
    fn = F.fn(name, flat=False)
    o = Origins(fn)
    COMP = "ucglib::build::opcode::Composite"
    arms_ = TR.arms(fn, COMP).get("Tuple")
    need(arms_, "Value::eq has no Tuple arm")
    # the arm for (Tuple, Tuple): dominated by the later of the two nested tests
    # (self is Tuple) -> test of `other` -> (other is Tuple): the entry whose switch is itself the target of a Tuple edge
    firsts = {e for sb, e in arms_}
    inner = [e for sb, e in arms_ if sb in firsts and e != sb]
    need(inner, "Value::eq: the (Tuple, Tuple) arm was not identified")
    arm = {b for b in range(len(fn.blocks)) if not fn.is_cleanup(b) and cfg.dominates(fn, inner[0], b)}
    cmps = []
    for b, j, pl, rv, m in fn.assigns():
        if b in arm and rv["k"] == "bin" and rv["op"] in ("Eq", "Ne") and rv.get("ty") == "usize":
            if all(any(c.endswith("::len") for c in results_in(o.at(x, b))) for x in rv["ops"]):
                cmps.append(b)
    whole = [b for b, t in fn.calls() if b in arm and callee(t).split("::")[-1] in ("eq", "ne") and
             "alloc::vec::Vec" in fn.local_ty(op_local(t["args"][0]) or 0)]
    # both directions looked up is as good as a length test when names are unique - not assumed here: refuse rather than guess
    walks = [b for b, t in fn.calls() if b in arm and callee(t).split("::")[-1] in ("iter", "into_iter", "all", "any")]
    ok = bool(whole) or (bool(cmps) and all(any(cfg.dominates(fn, c, w) for c in cmps) for w in walks))
    r.inst("Value::eq:Tuple:lengths", fn.where(min(arm)), ok,
           "the lengths are compared before the fields are looked up" if ok else
           "the Tuple arm of Value::eq looks the fields of the left side up in the right side without comparing the lengths: "
           "`{a = 1} == {a = 1, b = 2}` is true (and `!=` false)")
    return r

RULES = [r1, r1h, r2, r2e, r3, r3s, r3t, r4, r84, r85, _c10.r31]
