"""C08 — shell-facing output delivers every value as one unaltered word.  R22 R23 R24."""
import re

from .. import cfg, util, variants
from ..core import RuleResult, need
from ..facts import callee, op_local, op_place, syn_walk, syn_items
from ..origins import Origins, calls_in

FILES = ("convert/env.rs", "convert/flags.rs", "convert/exec.rs")
SINGLE = "ucglib::convert::shell_escape_single_quoted"
DOUBLE = "ucglib::convert::shell_escape_double_quoted"
VAL = "ucglib::build::ir::Val"


def _conv_fns(F):
    return {n: f for n, f in F.fns.items() if not f.derived and f.file in ("src/" + x for x in FILES)}


def _placeholders(lit):
    """[(start, end)] of `{..}` placeholders in a Rust format literal (escaped braces skipped)"""
    out = []
    i = 0
    while i < len(lit):
        if lit.startswith("{{", i) or lit.startswith("}}", i):
            i += 2
            continue
        if lit[i] == "{":
            j = lit.index("}", i)
            out.append((i, j + 1))
            i = j + 1
            continue
        i += 1
    return out


def _unescape_char(src):
    src = src.strip()
    if len(src) < 3 or src[0] != "'" or src[-1] != "'":
        return None
    body = src[1:-1]
    if len(body) == 1:
        return body
    return {"\\\\": "\\", "\\'": "'", '\\"': '"', "\\n": "\n", "\\t": "\t", "\\r": "\r", "\\0": "\0"}.get(body)


def _char_loop_table(body):
    """{char: text appended for it} for a helper of the shape
         let mut acc = String::..; for c in s.chars() { <if c == 'x' / match c> ... acc.push(..) / acc.push_str(..) } acc
    where every other character is appended as it is; None when the function is not of that shape"""
    stmts = body.get("stmts") or []
    loops = [st["e"] for st in stmts if st.get("k") == "expr" and st["e"].get("k") == "for"]
    if len(loops) != 1:
        return None
    lp = loops[0]
    it = lp["iter"]
    if not (it.get("k") == "mcall" and it.get("m") == "chars" and not it["args"]):
        return None
    cvar = lp["pat"].replace("mut ", "").strip()
    last = stmts[-1]
    if not (last.get("k") == "expr" and not last.get("semi") and last["e"].get("k") == "path"):
        return None
    acc = last["e"]["v"]

    def out_of(node):
        """text appended by a block / expression: list of pieces, `None` for the character itself"""
        if node.get("k") == "block":
            pieces = []
            for st in node["stmts"]:
                if st.get("k") != "expr":
                    raise ValueError
                pieces += out_of(st["e"])
            return pieces
        if node.get("k") == "mcall" and node.get("recv", {}).get("k") == "path" and node["recv"]["v"] == acc and len(node["args"]) == 1:
            a = node["args"][0]
            if node["m"] == "push" and a.get("k") == "path" and a["v"] == cvar:
                return [None]
            if node["m"] == "push" and a.get("k") == "lit" and a.get("t") == "char":
                return [a["v"]]
            if node["m"] == "push_str" and a.get("k") == "lit" and a.get("t") == "str":
                return [a["v"]]
        raise ValueError

    def render(pieces, ch):
        return "".join(ch if x is None else x for x in pieces)

    table = {}
    try:
        bs = lp["body"]["stmts"]
        if len(bs) != 1 or bs[0].get("k") != "expr":
            return None
        e = bs[0]["e"]
        if e.get("k") == "match" and e["on"].get("k") == "path" and e["on"]["v"] == cvar:
            default = None
            for arm in e["arms"]:
                if arm.get("guard"):
                    return None
                if arm["pat"].strip() == "_" or arm["pat"].strip() == cvar:
                    default = out_of(arm["body"])
                    continue
                for alt in _split_alts(arm["pat"]):
                    ch = _unescape_char(alt)
                    if ch is None:
                        return None
                    table[ch] = render(out_of(arm["body"]), ch)
            if default != [None]:
                return None
            return table
        # if c == 'x' { .. } else if c == 'y' { .. } else { acc.push(c) }
        node = e
        while node.get("k") == "if":
            c = node["cond"]
            if not (c.get("k") == "binary" and c["op"] == "==" and c["l"].get("k") == "path" and c["l"]["v"] == cvar and
                    c["r"].get("k") == "lit" and c["r"].get("t") == "char"):
                return None
            table[c["r"]["v"]] = render(out_of(node["then"]), c["r"]["v"])
            node = node.get("else")
            if node is None:
                return None
            if node.get("k") == "block" and len(node["stmts"]) == 1 and node["stmts"][0].get("k") == "expr" and node["stmts"][0]["e"].get("k") == "if":
                node = node["stmts"][0]["e"]
        if out_of(node) != [None]:
            return None
        return table
    except (ValueError, KeyError, TypeError):
        return None


def _split_alts(pat):
    """alternatives of a pattern of character literals: `'a' | '\\'' | '|'`"""
    out, cur, i, inq = [], "", 0, False
    while i < len(pat):
        ch = pat[i]
        if inq and ch == "\\":
            cur += pat[i:i + 2]
            i += 2
            continue
        if ch == "'":
            inq = not inq
        if ch == "|" and not inq:
            out.append(cur)
            cur = ""
        else:
            cur += ch
        i += 1
    out.append(cur)
    return [x for x in (y.strip() for y in out) if x]


def r22(F):
    r = RuleResult("R22", "every string value is quoted through a helper",
                   "in the env, flags and exec converters a Val::Str payload reaches a formatting argument only through "
                   "shell_escape_single_quoted / shell_escape_double_quoted, and the placeholder receiving the helper's result is "
                   "enclosed by the matching quote characters in the format literal; the helpers' replacement tables are exact",
                   floor=9)
    # --- MIR: provenance of every formatting argument
    n_sinks = 0
    for n, fn in sorted(_conv_fns(F).items()):
        o = Origins(fn)
        oq = Origins(fn, opaque=(SINGLE, DOUBLE))
        for b, t in fn.calls():
            c = callee(t)
            if not c.startswith("core::fmt::rt::Argument::new_"):
                continue
            # diagnostics to stderr are not shell-facing output
            if "eprintln" in (t.get("macros") or []) or "eprint" in (t.get("macros") or []):
                continue
            labs = o.at(t["args"][0], b)
            if ("variant", "Str") not in labs:
                continue
            n_sinks += 1
            through = calls_in(labs) & {SINGLE, DOUBLE}
            raw = ("variant", "Str") in oq.at(t["args"][0], b)
            ok = bool(through) and not raw
            # nothing else rewrites the text on its way (before or after the helper): the helpers' tables are exact for POSIX
            # quoting, any further replacement (e.g. newline -> '$'\\n'', a bash extension) changes what /bin/sh reads
            REWRITERS = ("replace", "replacen", "trim", "trim_start", "trim_end", "to_lowercase", "to_uppercase", "split", "lines",
                         "escape_default", "escape_debug", "repeat", "chars", "bytes", "truncate", "retain", "strip_prefix", "strip_suffix")
            rew = sorted(x.split("::")[-1] for x in calls_in(labs) if x.split("::")[-1] in REWRITERS)
            if ok and rew:
                r.inst("sink:%s" % n.split("::")[-1].rstrip(">"), fn.where(b), False,
                       "the string is also passed through %s outside the quoting helper: what the shell reads is no longer the helper's "
                       "POSIX quoting (a `'$'\\n''` rewrite is understood by bash but not by /bin/sh)" % ", ".join(rew))
                continue
            r.inst("sink:%s" % n.split("::")[-1].rstrip(">"), fn.where(b), ok,
                   "string value formatted only through %s" % sorted(x.split("::")[-1] for x in through) if ok else
                   "a Val::Str payload reaches the output without a shell-escape helper: quotes, $, ` or spaces in the value are "
                   "interpreted by the shell")
    if n_sinks < 4:
        r.error("string sinks not found (%d)" % n_sinks)
    # --- syntax: the placeholder that receives a helper call sits inside the matching quotes
    n_ctx = 0
    for file in FILES:
        def visit(node, file=file):
            nonlocal n_ctx
            if node.get("k") != "macro" or node.get("name") not in ("write", "writeln", "format", "print", "println") or not node.get("args"):
                return
            args = node["args"]
            li = 0 if node["name"] in ("format", "print", "println") else 1
            if len(args) <= li or args[li].get("k") != "lit":
                return
            lit = args[li]["v"]
            ph = _placeholders(lit)
            for k, a in enumerate(args[li + 1:]):
                fname = None
                if a.get("k") == "call" and a["f"].get("k") == "path":
                    fname = a["f"]["v"].replace(" ", "").split("::")[-1]
                if fname not in ("shell_escape_single_quoted", "shell_escape_double_quoted"):
                    continue
                n_ctx += 1
                q = "'" if fname.endswith("single_quoted") else '"'
                okq = k < len(ph) and ph[k][0] > 0 and lit[ph[k][0] - 1] == q and lit[ph[k][1]:ph[k][1] + 1] == q
                # and the quoted word is followed by a separator (space / newline / end of line for writeln)
                after = lit[ph[k][1] + 1:ph[k][1] + 2] if k < len(ph) else ""
                oksep = after in (" ", "\n") or (after == "" and node["name"] == "writeln")
                r.inst("context:%s:%s" % (file, fname), "src/%s:%s" % (file, node["ln"]), okq and oksep,
                       "placeholder enclosed in %s..%s and followed by a separator" % (q, q) if okq and oksep else
                       "result of %s is not enclosed in %s quotes (literal %r)" % (fname, q, lit), {"literal": lit})
        syn_walk(F.syn[file]["items"], visit)
    if n_ctx < 4:
        r.error("helper call sites not found in the syntax tree (%d)" % n_ctx)
    # --- helper tables: a chain of str::replace calls, or one pass over the characters
    tables = {}
    for p, it in syn_items(F.syn["convert/mod.rs"]["items"]):
        if p[-1] in ("shell_escape_single_quoted", "shell_escape_double_quoted"):
            chain = []
            def visit(node):
                if node.get("k") == "mcall" and node.get("m") == "replace":
                    a = node["args"]
                    chain.append((a[0].get("v"), a[1].get("v"), node["ln"]))
            syn_walk(it["body"], visit)
            if not chain:
                tab = _char_loop_table(it["body"])
                need(tab is not None, "%s: neither a chain of replace calls nor a loop over the characters this rule can read" % p[-1])
                chain = [(a, b, it["body"]["ln"]) for a, b in sorted(tab.items())]
            tables[p[-1]] = chain
    need(len(tables) == 2, "shell escape helpers not found in convert/mod.rs")
    s = [(a, b) for a, b, _ in tables["shell_escape_single_quoted"]]
    ok = s == [("'", "'\\''")]
    r.inst("helper:single", "src/convert/mod.rs", ok, "replaces exactly ' with '\\''" if ok else "single-quote helper table is %s" % s)
    d = tables["shell_escape_double_quoted"]
    pairs = {a: b for a, b, _ in d}
    want = {"\\": "\\\\", '"': '\\"', "$": "\\$", "`": "\\`"}
    ok = pairs == want
    r.inst("helper:double:table", "src/convert/mod.rs", ok, "replaces exactly \\ \" $ ` with their backslash forms" if ok else "double-quote helper table is %s" % pairs)
    return r, tables


def r22h(F):
    """order of replacements in the double-quote helper: backslash first (MIR: dominance of the replace calls)"""
    r = RuleResult("R22h", "backslash is escaped first", "in shell_escape_double_quoted the replacement of `\\` precedes the others "
                   "(otherwise the backslashes it inserts would be doubled)", floor=1)
    fn = F.fn(DOUBLE)
    reps = [(b, t) for b, t in fn.calls() if callee(t).endswith("::replace")]
    if not reps:
        for p, it in syn_items(F.syn["convert/mod.rs"]["items"]):
            if p[-1] == "shell_escape_double_quoted" and _char_loop_table(it["body"]) is not None:
                r.inst("helper:double:order", fn.where(), True, "one pass over the characters: nothing the helper inserts is looked at again")
                return r
    need(len(reps) == 4, "expected four replace calls in shell_escape_double_quoted")
    first = [b for b, t in reps if all(cfg.dominates(fn, b, x) for x, _ in reps)]
    need(len(first) == 1, "replace calls are not ordered by dominance")
    b = first[0]
    t = fn.term(b)
    arg = t["args"][1]
    ok = arg.get("int") == str(ord("\\"))
    # and it is applied to the parameter itself
    o = Origins(fn)
    ok = ok and ("param", 1) in o.at(t["args"][0], b) and not calls_in(o.at(t["args"][0], b)) & {callee(t)}
    r.inst("helper:double:order", fn.where(b), ok, "`\\` replaced first, on the raw input" if ok else "the first replacement is not the backslash (char %s)" % arg.get("int"))
    return r


def r23(F):
    r = RuleResult("R23", "field-loop totality",
                   "no per-field / per-item loop of the three converters contains a success return: a skipped element continues, "
                   "it does not swallow the elements after it", floor=6)
    for n, fn in sorted(_conv_fns(F).items()):
        loops = cfg.natural_loops(fn)
        for h, body in sorted(loops.items()):
            # only loops driven by an iterator over fields/items
            nexts = [b for b in body if fn.term(b)["k"] == "call" and callee(fn.term(b)).endswith("::next")]
            if not nexts:
                continue
            # one iteration: blocks reachable from the Some edge of the iterator without coming back to the header
            some = None
            for nb in nexts:
                for sb, st in util.enum_switches(fn, fn.term(nb)["dest"]["l"]):
                    if sb in body:
                        some = cfg.switch_edge(st, variant="Some")
            if some is None:
                r.error("loop at %s: Some edge of the iterator not found" % fn.where(h))
                continue
            iteration = cfg.reachable(fn, some, removed={h})
            bad = [b for b, j, pl, rv, m in fn.assigns() if b in iteration and pl["l"] == 0 and not pl["p"]
                   and rv["k"] == "agg" and rv.get("variant") == "Ok"]
            r.inst("loop:%s" % n.split("::")[-1].rstrip(">"), fn.where(h), not bad,
                   "no success return inside the loop" if not bad else
                   "`return Ok(())` inside the field loop: every field after a skipped one is silently dropped")
    return r


def r24(F):
    r = RuleResult("R24", "a name is never written without its value and terminator",
                   "env converter, per Val variant: whenever convert_tuple writes `NAME=` for a field, EnvConverter::write writes the "
                   "value and the newline for that variant; all value writes in env.rs end the line, all writes in flags.rs end with a "
                   "space", floor=11, exhaustive=True)
    preds = variants.predicates(F, VAL)
    ct = F.fn("ucglib::convert::env::EnvConverter::convert_tuple")
    wr = F.fn("ucglib::convert::env::EnvConverter::write")
    loops = cfg.natural_loops(ct)
    need(len(loops) == 1, "expected one loop in EnvConverter::convert_tuple")
    h, body = next(iter(loops.items()))
    # entry of the loop body: the Some edge of the iterator
    nb = [b for b in body if ct.term(b)["k"] == "call" and callee(ct.term(b)).endswith("::next")]
    need(nb, "iterator next not found")
    name_writes = [b for b, t in ct.calls() if callee(t).endswith("::write_fmt") and b in body]
    value_calls = [b for b, t in ct.calls() if callee(t) == wr.name and b in body]
    need(name_writes and value_calls, "name/value writes not found in convert_tuple")
    wsw = [(b, wr.term(b)) for b in range(len(wr.blocks)) if wr.term(b)["k"] == "switch" and wr.term(b).get("enum") == VAL and not wr.is_cleanup(b)]
    need(wsw, "EnvConverter::write does not match on Val")
    for v in F.variants(VAL):
        reach = variants.reach_variant(F, ct, ct.term(nb[0])["t"], VAL, v, preds, removed={h})
        writes_name = bool(reach & set(name_writes))
        wreach = variants.reach_variant(F, wr, 0, VAL, v, preds)
        writes_value = any(callee(wr.term(b)).endswith("::write_fmt") for b in wreach if wr.term(b)["k"] == "call" and "eprintln" not in (wr.term(b).get("macros") or []))
        recurses = any(callee(wr.term(b)) == ct.name for b in wreach if wr.term(b)["k"] == "call")
        # ... on EVERY successful path for that variant, not just on one (a guard that returns Ok early - `if s.contains('\n') {
        # return Ok(()) }` - leaves the name that convert_tuple has already written without value and newline)
        if writes_name and writes_value:
            vw = {b for b in wreach if wr.term(b)["k"] == "call" and callee(wr.term(b)).endswith("::write_fmt") and
                  "eprintln" not in (wr.term(b).get("macros") or []) and "eprint" not in (wr.term(b).get("macros") or [])}
            vw |= {b for b in wreach if wr.term(b)["k"] == "call" and callee(wr.term(b)) in (ct.name, "ucglib::convert::env::EnvConverter::convert_list")}
            oks_ = util.result_blocks(wr, "Ok")
            silent = variants.reach_variant(F, wr, 0, VAL, v, preds, removed=vw) & oks_
            if silent:
                writes_value = False
        ok = (not writes_name) or writes_value
        r.inst("env:%s" % v, ct.where(h), ok,
               ("NAME= and value written" if writes_name else "field skipped before the name is written") if ok else
               "`NAME=` is written for a %s field but no value or newline follows: the next line merges into it (L=C='3')" % v,
               {"writes_name": writes_name, "writes_value": writes_value, "recurses": recurses})
    # terminators in the literals
    def lits(file):
        out = []
        def visit(node):
            if node.get("k") == "macro" and node.get("name") in ("write", "writeln") and node.get("args") and len(node["args"]) > 1 and node["args"][1].get("k") == "lit":
                out.append((node["name"], node["args"][1]["v"], node["ln"]))
        syn_walk(F.syn[file]["items"], visit)
        return out
    for name, lit, ln in lits("convert/env.rs"):
        ok = name == "writeln" or lit.endswith("=")
        r.inst("env:terminator", "src/convert/env.rs:%s" % ln, ok, "value write ends the line" if ok else "value written without a newline: %r" % lit)
    for name, lit, ln in lits("convert/flags.rs"):
        ok = lit.endswith(" ")
        r.inst("flags:separator", "src/convert/flags.rs:%s" % ln, ok, "write ends with a separating space" if ok else "flag fragment written without a trailing separator: %r" % lit)
    return r


def _r22(F):
    return r22(F)[0]


_r22.__name__ = "r22"
from . import c11 as _c11

RULES = [_r22, r22h, r23, r24, _c11.r72]
