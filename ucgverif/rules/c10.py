"""C10 — bindings are immutable and lexically scoped.  R28 R29 R30 R31 R32 R34(=R47) R35."""
from .. import cfg, util, translator as TR, callgraph
from ..access import field_accesses
from ..core import RuleResult, need
from ..facts import callee, op_local, op_place, syn_macros
from ..origins import Origins, calls_in
from .c18 import r47

VM = "ucglib::build::opcode::vm::VM::"
VMADT = "ucglib::build::opcode::vm::VM"
STACK = "ucglib::build::opcode::scope::Stack::"


def r28(F):
    r = RuleResult("R28", "single writer of the symbol table",
                   "Stack::add is called only by VM::binding_push, Stack::remove_symbol only by VM::remove_symbol (repl only); "
                   "VM.symbols is assigned only in to_scoped and initialised fresh in the constructors", floor=6)
    cg = callgraph.get(F)
    for fn_name, allowed in ((STACK + "add", [VM + "binding_push"]),
                             (STACK + "remove_symbol", [VM + "remove_symbol"]),
                             (VM + "remove_symbol", ["ucglib::build::FileBuilder::repl"])):
        cs = cg.callers(fn_name)
        ok = cs == allowed
        r.inst("callers:%s" % fn_name.split("::")[-2] + "::" + fn_name.split("::")[-1], "src", ok,
               "called only by %s" % allowed if ok else "%s is called by %s (allowed: %s)" % (fn_name, cs, allowed))
    # Stack.curr: mutated through insert (add) and remove (remove_symbol) only
    acc = field_accesses(F, "ucglib::build::opcode::scope::Stack", "curr")
    muts = sorted({(a[1], c) for a in acc if a[0] == "mutref" for c, _ in a[3]})
    assigns = sorted({a[1] for a in acc if a[0] == "assign"})
    ok = muts == [(STACK + "add", "alloc::collections::btree::map::BTreeMap::insert"),
                  (STACK + "remove_symbol", "alloc::collections::btree::map::BTreeMap::remove")] and not assigns
    r.inst("Stack.curr:writers", "src/build/opcode/scope.rs", ok, "insert in add, remove in remove_symbol, nothing else" if ok else "Stack.curr written by %s / assigned in %s" % (muts, assigns))
    # VM.symbols
    acc = field_accesses(F, VMADT, "symbols")
    assigns = sorted({a[1] for a in acc if a[0] == "assign"})
    ok = assigns == [VM + "to_scoped"]
    r.inst("VM.symbols:assigned", "src/build/opcode/vm.rs", ok, "assigned only in to_scoped" if ok else "VM.symbols assigned in %s" % assigns)
    mutc = sorted({c for a in acc if a[0] == "mutref" for c, _ in a[3]})
    ok = set(mutc) <= {STACK + "add", STACK + "remove_symbol"}
    r.inst("VM.symbols:mutators", "src/build/opcode/vm.rs", ok, "mutated only through Stack::add / remove_symbol" if ok else "VM.symbols handed mutably to %s" % mutc)
    # constructors start from Stack::new()
    for name in (VM + "with_pointer", VM + "clean_copy"):
        fn = F.fn(name)
        o = Origins(fn)
        found = False
        for b, j, pl, rv, m in fn.assigns():
            if rv["k"] == "agg" and rv.get("adt") == VMADT:
                idx = rv["fields"].index("symbols")
                labs = o.at(rv["ops"][idx], b)
                cs = calls_in(labs)
                ok = cs == {STACK + "new"} and not [l for l in labs if l[0] == "param"]
                if not ok and VM + "with_pointer" in cs and name != VM + "with_pointer":
                    # struct update from the other constructor (`VM { .., ..Self::with_pointer(..) }`): the table is the one
                    # with_pointer built (checked above), provided nothing of *this* VM's own table flows in
                    pl_ = op_place(rv["ops"][idx])
                    if pl_ is not None and pl_["p"] and isinstance(pl_["p"][0], dict) and pl_["p"][0].get("f") == "symbols":
                        src_calls = [callee(t) for bb, t in fn.calls() if t["dest"]["l"] == pl_["l"] and not t["dest"]["p"]]
                        src_assigns = [1 for bb, j2, pl2, rv2, m2 in fn.assigns() if pl2["l"] == pl_["l"] and not pl2["p"]]
                        ok = src_calls == [VM + "with_pointer"] and not src_assigns
                found = True
                r.inst("%s:symbols" % name.split("::")[-1], fn.where(b), ok, "symbols = Stack::new()" if ok else "constructor does not start from an empty symbol table (%s)" % sorted(cs))
        need(found, "no VM aggregate in %s" % name)
    return r


def AI_visited_helpers(F, fn, contains):
    """the crate functions called from fn that hold one of the `contains` calls"""
    out = []
    for b, t in fn.calls():
        c = callee(t)
        if c in F.fns and any(callee(t2) in contains for b2, t2 in F.fns[c].calls()):
            out.append((c, b))
    return out


def r29(F):
    r = RuleResult("R29", "binding guards",
                   "in VM::binding_push the reserved-word test and the already-bound test (strict) lie before symbols.add on every path",
                   floor=3)
    fn = F.fn(VM + "binding_push")
    add = [b for b, t in fn.calls() if callee(t) == STACK + "add"]
    need(len(add) == 1, "expected one Stack::add in binding_push")
    def reserved_guard(f, target_block):
        """(switch block, ok) of a reserved_words lookup in f whose `is reserved` edge cannot reach target_block and without which
        target_block is unreachable; None when f has no such lookup"""
        cs = [(b, t) for b, t in f.calls() if callee(t).endswith("BTreeSet::contains")]
        o = Origins(f) if cs else None
        for cb, ct in cs:
            labs0 = o.at(ct["args"][0], cb)
            # the set: the VM's field, or the function behind it called directly
            if ("field", "reserved_words") not in labs0 and not any(l[0] == "call" and l[1].endswith("::reserved_words") for l in labs0):
                continue
            sws = util.bool_switches(f, ct["dest"]["l"])
            if not sws:
                continue
            sb, ft, tt = sws[0]
            return sb, (target_block not in cfg.reachable(f, tt) and target_block not in cfg.reachable(f, 0, removed={cb}))
        return None
    g = reserved_guard(fn, add[0])
    if g is None:
        # the test may sit in a private helper binding_push delegates to: decide by evaluation (absint) - with the set lookup
        # answering "reserved", symbols.add is not entered; with "not reserved" it is
        from .. import absint as AI
        contains = sorted({callee(t) for n_, f_ in F.fns.items() if n_.startswith(VM) and not f_.derived for b_, t in f_.calls()
                           if callee(t).endswith("BTreeSet::contains") or callee(t).endswith("BTreeSet<T, A>::contains")})
        def entered(reserved):
            sim = AI.Sim(F, force_all=dict({c: ("b", reserved) for c in contains}, **{STACK + "is_bound": ("b", False)}), opaque={STACK + "add"})
            try:
                sim.run(fn, [AI.U] * fn.nargs)
            except AI.Lossy as e:
                need(False, "binding_push: %s" % e)
            return any(callee(F.fns[n].term(b)) == STACK + "add" for n, b in sim.visited if n in F.fns and F.fns[n].term(b)["k"] == "call")
        if contains and entered(False) and not entered(True):
            helpers = sorted({n for n, b in AI_visited_helpers(F, fn, contains)})
            r.inst("binding_push:reserved-source", fn.where(), True, "looked up in the reserved-word set (in %s)" % (", ".join(h.split("::")[-1] for h in helpers) or "a helper"))
            r.inst("binding_push:reserved", fn.where(), True, "a reserved word never reaches symbols.add")
            g = "done"
    if g == "done":
        pass
    elif g is not None:
        r.inst("binding_push:reserved-source", fn.where(g[0]), True, "looked up in the reserved-word set")
        r.inst("binding_push:reserved", fn.where(g[0]), g[1], "a reserved word never reaches symbols.add" if g[1] else
               "symbols.add reachable for a reserved word / without the test")
    else:
        # the test was moved to the callers: then every caller of binding_push has to make it
        from .. import callgraph
        sites = callgraph.get(F).call_sites(VM + "binding_push")
        need(sites, "binding_push has no reserved-word test and no callers")
        for n, b in sorted(sites):
            cf = F.fn(n)
            gg = reserved_guard(cf, b)
            ok = gg is not None and gg[1]
            r.inst("binding_push:reserved@%s" % n.split("::")[-1], cf.where(b), ok,
                   "the caller refuses reserved words before binding" if ok else
                   "%s binds names through binding_push without the reserved-word test (which binding_push no longer makes): a keyword is "
                   "accepted as a %s" % (n.split("::")[-1], "function parameter" if "fcall" in n else "binding name"))
    # the already-bound test, by evaluation (absint): with is_bound() forced and the strict flag given, is symbols.add entered?
    # Independent of the order of the two tests and of helpers binding_push delegates to
    from .. import absint as AI
    need(fn.nargs >= 4 and fn.local_ty(4) == "bool", "binding_push(&mut self, name, val, strict: bool) expected")
    def add_entered(bound, strict):
        sim = AI.Sim(F, force_all={STACK + "is_bound": ("b", bound)}, opaque={STACK + "add"})
        try:
            sim.run(fn, [AI.U, AI.U, AI.U, ("b", strict)] + [AI.U] * (fn.nargs - 4))
        except AI.Lossy as e:
            need(False, "binding_push: %s" % e)
        return any(callee(F.fns[n].term(b)) == STACK + "add" for n, b in sim.visited if n in F.fns and F.fns[n].term(b)["k"] == "call")
    table = {(bnd, st): add_entered(bnd, st) for bnd in (True, False) for st in (True, False)}
    need(table[(False, True)] and table[(False, False)], "binding_push: symbols.add is not reached even for an unbound name (the evaluation lost the path)")
    ok = not table[(True, True)]
    r.inst("binding_push:rebinding", fn.where(add[0]), ok, "bound && strict never reaches symbols.add" if ok else "a strict rebinding can reach symbols.add")
    ok2 = table[(True, False)]
    r.inst("binding_push:non-strict-rebinding", fn.where(add[0]), ok2, "a non-strict bind (function parameters, format item) may shadow" if ok2 else
           "a non-strict bind of a bound name no longer reaches symbols.add: parameters cannot shadow")
    return r


def r30(F):
    r = RuleResult("R30", "rebinding opcode only at the two whitelisted sites",
                   "Op::BindOver is built only for the format expression's `item` and as the second bind of a constraint statement; "
                   "Bind -> op_bind(true), BindOver -> op_bind(false); non-strict binding_push elsewhere only in fcall_impl", floor=6)
    from .. import flatten
    sites = []
    for n, fn in F.fns.items():
        if fn.derived:
            continue
        for b, j, pl, rv, m in fn.assigns():
            if rv["k"] == "agg" and rv.get("adt") == TR.OP and rv.get("variant") == "BindOver":
                sites.append((n, b))
    te = F.fn(TR.T + "translate_expr")
    ts = F.fn(TR.T + "translate_stmt")
    fmt_arm = TR.arm_blocks(te, "ucglib::ast::Expression", "Format")
    con_arm = TR.arm_blocks(ts, "ucglib::ast::Statement", "Constraint")
    for n, b in sites:
        if n == te.name and b in fmt_arm:
            # preceded (dominated) by a push of Sym("item")
            o = Origins(te)
            syms = [p for p in TR.pushes(te) if p["op"] == "Sym" and p["bb"] in fmt_arm and cfg.dominates(te, p["bb"], b)]
            item = any(("const", "str", "item") in o.at(p["agg"]["ops"][0], p["bb"]) for p in syms)
            r.inst("BindOver@format-item", te.where(b), item, "rebinds `item` inside the format expression's own scope" if item else "BindOver in the Format arm does not bind `item`")
        elif n == ts.name and b in con_arm:
            binds = [p for p in TR.pushes(ts) if p["op"] == "Bind" and p["bb"] in con_arm and cfg.dominates(ts, p["bb"], b)]
            r.inst("BindOver@constraint-stmt", ts.where(b), bool(binds), "second bind of a constraint statement (after the strict pre-bind)" if binds else "BindOver in the Constraint arm is not preceded by the strict Bind")
        elif flatten.sole_caller(F, n) == te.name and all(cb in fmt_arm for cb, ct in te.calls() if callee(ct) == n):
            # the Format arm (or its `item` branch) moved into a private helper that only that arm calls
            hf = F.fn(n)
            oh = Origins(hf)
            syms = [p for p in TR.pushes(hf) if p["op"] == "Sym" and cfg.dominates(hf, p["bb"], b)]
            item = any(("const", "str", "item") in oh.at(p["agg"]["ops"][0], p["bb"]) for p in syms)
            r.inst("BindOver@format-item", hf.where(b), item, "rebinds `item` inside the format expression's own scope (in %s, called from the Format arm only)" % n.split("::")[-1]
                   if item else "BindOver in the helper of the Format arm does not bind `item`")
        else:
            r.inst("BindOver@%s" % n, F.fn(n).where(b), False, "Op::BindOver built outside the two whitelisted sites: an existing binding can be overwritten")
    # scope of the format item: BindOver lies between the NewScope placeholder and the Return
    run = F.fn(VM + "run")
    a = TR.arms(run, TR.OP)
    for variant, want in (("Bind", "1"), ("BindOver", "0")):
        ent = a.get(variant)
        need(ent, "no dispatch arm for Op::%s" % variant)
        blocks = {b for sb, e in ent for b in range(len(run.blocks)) if cfg.dominates(run, e, b)}
        calls = [(b, t) for b, t in run.calls() if b in blocks and callee(t) == VM + "op_bind"]
        need(len(calls) == 1, "Op::%s does not call op_bind once" % variant)
        b, t = calls[0]
        ok = t["args"][1].get("int") == want
        r.inst("run:%s" % variant, run.where(b), ok, "op_bind(%s)" % ("true" if want == "1" else "false") if ok else "Op::%s calls op_bind with the wrong strictness" % variant)
    # op_bind hands its parameter through
    ob = F.fn(VM + "op_bind")
    o = Origins(ob)
    for b, t in ob.calls():
        if callee(t) == VM + "binding_push":
            labs = o.at(t["args"][3], b)
            ok = ("param", 2) in labs and ("un", "Not") not in labs and not [l for l in labs if l[0] == "const"]
            r.inst("op_bind:strict-through", ob.where(b), ok, "binding_push(strict = parameter)" if ok else "op_bind does not pass its strict flag unchanged")
    cg = callgraph.get(F)
    for n, b in cg.call_sites(VM + "binding_push"):
        if n == VM + "op_bind":
            continue
        fn = F.fn(n)
        t = fn.term(b)
        from .. import flatten as _fl
        hn = _fl.home(F, n, {VM + "fcall_impl"})       # a closure of fcall_impl (try_for_each over the bindings) is fcall_impl
        ok = hn == VM + "fcall_impl" and t["args"][3].get("int") == "0"
        r.inst("binding_push@%s" % hn.split("::")[-1], fn.where(b), ok,
               "parameters are bound non-strictly into the call's fresh VM" if ok else "unexpected binding_push site (only op_bind and fcall_impl may bind)")
    return r


def r31(F):
    r = RuleResult("R31", "closure scope",
                   "op_func stores a snapshot of the symbols taken in the same call; fcall_impl scopes its VM with that snapshot and "
                   "has no access to the caller's symbols; op_new_scope gives the child a snapshot and copies nothing back", floor=5)
    of = F.fn(VM + "op_func")
    o = Origins(of)
    found = False
    for b, j, pl, rv, m in of.assigns():
        if rv["k"] == "agg" and rv.get("adt") == "ucglib::build::opcode::Func":
            idx = rv["fields"].index("snapshot")
            labs = o.at(rv["ops"][idx], b)
            ok = STACK + "snapshot" in calls_in(labs) and ("field", "symbols") in labs
            found = True
            r.inst("op_func:snapshot", of.where(b), ok, "Func.snapshot = self.symbols.snapshot()" if ok else "Func.snapshot is not a snapshot of the defining scope")
    need(found, "no Func aggregate in op_func")
    fi = F.fn(VM + "fcall_impl")
    tys = [fi.local_ty(i) for i in range(1, fi.nargs + 1)]
    ok = not any("vm::VM" in t or "scope::Stack" in t for t in tys)
    r.inst("fcall_impl:signature", fi.where(), ok, "no parameter can carry the caller's symbol table" if ok else "fcall_impl receives the caller's VM/Stack: %s" % tys)
    o = Origins(fi)
    ts = [(b, t) for b, t in fi.calls() if callee(t) == VM + "to_scoped"]
    need(len(ts) == 1, "fcall_impl does not call to_scoped once")
    b, t = ts[0]
    labs = o.at(t["args"][1], b)
    ok = ("field", "snapshot") in labs and ("param", 1) in labs and {l[1] for l in labs if l[0] == "param"} == {1}
    r.inst("fcall_impl:scope", fi.where(b), ok, "VM scoped with f.snapshot.clone() only" if ok else "the call's scope does not come from the function's snapshot alone")
    ns = F.fn(VM + "op_new_scope")
    o = Origins(ns)
    ts = [(b, t) for b, t in ns.calls() if callee(t) == VM + "to_scoped"]
    need(len(ts) == 1, "op_new_scope does not call to_scoped once")
    b, t = ts[0]
    labs = o.at(t["args"][1], b)
    ok = STACK + "snapshot" in calls_in(labs)
    r.inst("op_new_scope:snapshot", ns.where(b), ok, "child scope is a snapshot" if ok else "child scope shares the parent's table")
    acc = [a for a in field_accesses(F, VMADT, "symbols", {ns.name: ns}) if a[0] in ("assign", "mutref")]
    r.inst("op_new_scope:no-copy-back", ns.where(), not acc, "nothing is written back into the parent's symbols" if not acc else "op_new_scope writes the parent's symbols")
    return r


def r32(F):
    r = RuleResult("R32", "module isolation",
                   "the module body VM in op_copy is a clean_copy (fresh symbol table), never re-scoped, with `mod` pushed before run", floor=3)
    oc = F.fn(VM + "op_copy")
    o = Origins(oc)
    runs = [(b, t) for b, t in oc.calls() if callee(t) == VM + "run"]
    need(runs, "no VM::run in op_copy")
    for b, t in runs:
        labs = o.at(t["args"][0], b)
        cs = calls_in(labs)
        ok = VM + "clean_copy" in cs and VM + "to_scoped" not in cs
        r.inst("op_copy:run", oc.where(b), ok, "body/pkg VM derives from clean_copy, not re-scoped" if ok else "module VM is not an isolated clean copy (%s)" % sorted(c for c in cs if c.startswith(VM)))
    ts = [b for b, t in oc.calls() if callee(t) == VM + "to_scoped"]
    r.inst("op_copy:no-to_scoped", oc.where(), not ts, "op_copy never re-scopes a VM" if not ts else "op_copy calls to_scoped: the module body can see outer bindings")
    strs = util.str_consts(oc)
    r.inst("op_copy:mod-binding", oc.where(), "mod" in strs, "`mod` symbol pushed for the body" if "mod" in strs else "`mod` is not bound for the module body")
    return r


def r35(F):
    r = RuleResult("R35", "reserved-word table agreement",
                   "every word the tokenizer recognises as a keyword (do_text_token_tok!(BAREWORD, w, WS)) is refused as a binding "
                   "name: member of reserved_words(), or aborted by the parser's binding-name guard", floor=19, exhaustive=True)
    items = F.syn["tokenizer/mod.rs"]["items"]
    words = []
    for m in syn_macros(items, "make_fn"):
        toks = m["tokens"]
        # make_fn!(name<..>, do_text_token_tok!(TokenType::BAREWORD, "word", WS))
        for i, tk in enumerate(toks):
            if tk.get("i") == "do_text_token_tok" and i + 2 < len(toks) and "g" in toks[i + 2]:
                inner = toks[i + 2]["t"]
                idents = [x.get("i") for x in inner if "i" in x]
                lits = [x.get("s") for x in inner if "s" in x]
                if "BAREWORD" in idents and "WS" in idents and lits:
                    words.append((lits[0], tk["ln"]))
    need(len(words) >= 15, "keyword recognisers not found in tokenizer/mod.rs (%d)" % len(words))
    closures = F.closures_of("ucglib::build::opcode::vm::reserved_words") + [F.fn("ucglib::build::opcode::vm::reserved_words")]
    # the LazyLock initialiser closure lives under the static WORDS
    cands = [f for n, f in F.fns.items() if n.startswith("ucglib::build::opcode::vm::reserved_words")]
    reserved = set()
    for f in cands:
        reserved |= set(util.str_consts(f))
        for b, j, pl, rv, m in f.assigns():
            for op in rv.get("ops", ()):
                for c in op.get("promoted", ()) or ():
                    if "str" in c:
                        reserved.add(c["str"])
    need(len(reserved) >= 10, "reserved word literals not found (%d)" % len(reserved))
    parser_guarded = {"env"}
    for w, ln in sorted(words):
        ok = w in reserved or w in parser_guarded
        r.inst("keyword:%s" % w, "src/tokenizer/mod.rs:%d" % ln, ok,
               "refused (reserved_words)" if ok else "`let %s = ..;` builds although `%s` is a keyword and can never be referenced" % (w, w))
    r.note("reserved_words() = %s" % sorted(reserved))
    return r


RULES = [r28, r29, r30, r31, r32, r47, r35]
