"""C18 — `env` exposes the process environment, nothing else, and cannot be shadowed.  R43 R44 R45 R46 R47."""
from .. import cfg, util, translator as TR
from ..access import field_accesses
from ..core import RuleResult, need
from ..facts import callee, op_local, op_place
from ..origins import Origins, calls_in

VM = "ucglib::build::opcode::vm::VM::"
TYPE_NAME = "ucglib::build::opcode::Value::type_name"


def r43(F):
    r = RuleResult("R43", "field access is not a variable lookup",
                   "after `.` a bare word is lowered to a string index (Val(Str)+Index), never to a DeRef of a binding; "
                   "op_index looks the key up in the container only", floor=4)
    fn = F.fn(TR.T + "translate_expr")
    dot = TR.arm_blocks(fn, "ucglib::ast::BinaryExprType", "DOT")
    pushes = [p for p in TR.pushes(fn) if p["bb"] in dot]
    recs = [c for c in TR.rec_calls(fn) if c["bb"] in dot]
    need(pushes and recs, "DOT arm is empty")
    # no DeRef is pushed directly in the DOT arm, and translate_value is never called on the right-hand symbol
    bad = [p for p in pushes if p["op"] == "DeRef"]
    r.inst("DOT:no-DeRef-push", fn.where(pushes[0]["bb"]), not bad, "no DeRef emitted in the DOT arm" if not bad else "DOT arm emits DeRef")
    o = Origins(fn)
    # the Symbol arm of the switch on *def.right
    vsw = [(b, fn.term(b)) for b in dot if fn.term(b)["k"] == "switch" and fn.term(b).get("enum") == "ucglib::ast::Value"]
    need(vsw, "no switch on the Value of the right operand in the DOT arm")
    sym_edges = [cfg.switch_edge(t, variant="Symbol") for b, t in vsw]
    found = False
    for e in sym_edges:
        reg = {b for b in dot if cfg.dominates(fn, e, b)}
        for c in recs:
            if c["bb"] in reg and c["callee"] == "translate_expr":
                labs = o.at(c["term"]["args"][0], c["bb"])
                aggs = {(l[1], l[2]) for l in labs if l[0] == "agg"}
                if ("ucglib::ast::Value", "Str") in aggs:
                    found = True
                    ok = ("ucglib::ast::Value", "Symbol") not in aggs
                    r.inst("DOT:Symbol->Str", fn.where(c["bb"]), ok,
                           "right-hand symbol re-wrapped as Value::Str before translation" if ok else "right-hand symbol stays a Symbol (DeRef)")
    if not found:
        # the symbol arm may push Val(Str(sym.val)) directly (Copy / Call selector form)
        r.inst("DOT:Symbol->Str", fn.where(), False, "the Symbol arm after `.` does not re-wrap the name as a string")
    # Copy / Call selectors: Val(Primitive::Str(sym.val)) pushed, then Index
    sel = 0
    for p in pushes:
        if p["op"] == "Val" and p["agg"] is not None:
            labs = o.at(p["agg"]["ops"][0], p["bb"]) if p["agg"]["ops"] else set()
            if ("field", "selector") in labs or ("field", "funcref") in labs:
                sel += 1
    r.inst("DOT:selector-as-Val", fn.where(), sel >= 4, "%d selector pushes are Val(Str|Int)" % sel if sel >= 4 else "selector of copy/call after `.` is not pushed as a literal (found %d)" % sel)
    idx = [p for p in pushes if p["op"] == "Index"]
    r.inst("DOT:Index", fn.where(), len(idx) >= 3, "%d Index pushes in the DOT arm" % len(idx))
    # op_index: no binding lookup
    oi = F.fn(VM + "op_index")
    cs = {callee(t) for b, t in oi.calls()}
    bad = sorted(c for c in cs if c.endswith(("::get_binding", "scope::Stack::get", "::get_env_vars_tuple")))
    r.inst("op_index:no-lookup", oi.where(), not bad, "op_index never consults bindings or the environment" if not bad else "op_index calls %s" % bad)
    return r


def r44(F):
    r = RuleResult("R44", "the missing-selector diagnostic does not disclose the container",
                   "in VM::op_index no formatting argument of the failure message derives from the container operand, "
                   "except through Value::type_name (a &'static kind name)", floor=2)
    fn = F.fn(VM + "op_index")
    o = Origins(fn, opaque=(TYPE_NAME,))
    pops = [(b, t) for b, t in fn.calls() if callee(t) == VM + "pop"]
    need(len(pops) == 2, "expected two pops in op_index, found %d" % len(pops))
    # the container is the operand that is matched as a Composite
    container = None
    for b, t in pops:
        lab = ("call", VM + "pop", b)
        for sb in range(len(fn.blocks)):
            tt = fn.term(sb)
            if tt["k"] == "switch" and tt.get("enum") == "ucglib::build::opcode::Composite" and not fn.is_cleanup(sb):
                if lab in o.at(tt["src"], sb):
                    container = b
    need(container is not None, "no pop result is matched as a Composite in op_index")
    idx = [b for b, t in pops if b != container]
    lab = ("call", VM + "pop", container)
    args = [(b, t) for b, t in fn.calls() if callee(t).startswith("core::fmt::rt::Argument::new_")]
    need(args, "no formatting arguments in op_index")
    for b, t in args:
        labs = o.at(t["args"][0], b)
        leak = lab in labs
        how = callee(t).split("::")[-1] + "::<%s>" % (t.get("targs") or ["?"])[0]
        r.inst("op_index:message-arg", fn.where(b), not leak,
               "%s does not derive from the container" % how if not leak else
               "%s prints the container: `env.UNSET` discloses every environment variable" % how)
    return r


def _consts_of(fn, b):
    out = []
    blk = fn.blocks[b]
    ops = []
    for st in blk["stmts"]:
        if st[0] == "assign":
            ops += st[2].get("ops", []) or []
    if blk["term"]["k"] == "call":
        ops += blk["term"]["args"]
    for op in ops:
        if "str" in op:
            out.append(op["str"])
        for c in op.get("promoted", []) or []:
            if "str" in c:
                out.append(c["str"])
        if isinstance(op.get("const"), str):
            out.append(op["const"])
    return out


def r45(F):
    r = RuleResult("R45", "strictness wiring",
                   "Op::Index calls op_index(!strict), Op::SafeIndex op_index(true); in op_index the safe edge pushes NULL, the other returns Err",
                   floor=4)
    # decided end to end by evaluation (absint): what the dispatcher passes for each opcode, as a function of the strict flag, is
    # read off the call; op_index is then evaluated with that argument and that flag, and the question is whether the
    # "Invalid selector index" error is built and whether NULL is pushed.  Where the `!strict` is computed does not matter
    from .. import absint as AI
    run = F.fn(VM + "run")
    o = Origins(run)
    a = TR.arms(run, TR.OP)
    passed = {}
    for variant in ("Index", "SafeIndex"):
        ent = a.get(variant)
        need(ent, "no dispatch arm for Op::%s" % variant)
        blocks = {b for sb, e in ent for b in range(len(run.blocks)) if cfg.dominates(run, e, b)}
        calls = [(b, t) for b, t in run.calls() if b in blocks and callee(t) == VM + "op_index"]
        need(len(calls) == 1, "Op::%s does not call op_index exactly once" % variant)
        b, t = calls[0]
        arg = t["args"][1]
        if arg.get("int") in ("0", "1"):
            passed[variant] = (b, lambda strict, v=(arg["int"] == "1"): v)
        else:
            # the argument is computed in the arm itself: follow its definition there (`!self.runtime.strict`, `self.runtime.strict`)
            neg = False
            cur = op_local(arg)
            found = False
            for _ in range(4):
                defs = [(bb, rv) for bb, j, pl, rv, m in run.assigns() if bb in blocks and pl["l"] == cur and not pl["p"]]
                if len(defs) != 1:
                    break
                rv = defs[0][1]
                src = op_place(rv["ops"][0]) if rv.get("ops") else None
                if rv["k"] == "un" and rv.get("op") == "Not" and src is not None and not src["p"]:
                    neg = not neg
                    cur = src["l"]
                    continue
                if rv["k"] == "use" and src is not None:
                    fields = [e.get("f") for e in src["p"] if isinstance(e, dict)]
                    if fields[-2:] == ["runtime", "strict"] and src["l"] == 1:
                        found = True
                        break
                    if not src["p"]:
                        cur = src["l"]
                        continue
                break
            need(found, "Op::%s: the flag passed to op_index is not read by this rule" % variant)
            passed[variant] = (b, (lambda strict: not strict) if neg else (lambda strict: strict))
    oi = F.fn(VM + "op_index")
    need(oi.nargs >= 2 and oi.local_ty(2) == "bool", "op_index(&mut self, flag: bool, ..) expected")
    msgs = [b for b in range(len(oi.blocks)) if not oi.is_cleanup(b) and any("Invalid selector index" in str(x) for x in _consts_of(oi, b))]
    need(msgs, "op_index: the `Invalid selector index` error was not found")
    empties = [b for b, j, pl, rv, m in oi.assigns() if rv["k"] == "agg" and rv.get("variant") == "Empty"]
    need(empties, "op_index never builds NULL")
    skey = (1, ("*", ("f", "runtime"), ("f", "strict")))
    table = {}
    for variant in ("Index", "SafeIndex"):
        for strict in (True, False):
            sim = AI.Sim(F)
            try:
                sim.run(oi, [AI.U, ("b", passed[variant][1](strict))] + [AI.U] * (oi.nargs - 2), init={skey: ("b", strict)})
            except AI.Lossy as e:
                need(False, "op_index: %s" % e)
            vb = {b for n, b in sim.visited if n == oi.name}
            table[(variant, strict)] = (bool(vb & set(msgs)), bool(vb & set(empties)))
    need(any(x[0] for x in table.values()) and any(x[1] for x in table.values()), "op_index: the evaluation reaches neither the error nor NULL (the flag is read some other way)")
    okI = table[("Index", True)] == (True, False) and table[("Index", False)] == (False, True)
    r.inst("run:Index", run.where(passed["Index"][0]), okI, "a missing selector is an error under strict checking and NULL without it" if okI else
           "Index: missing selector gives (error, NULL) = %s when strict and %s when not" % (table[("Index", True)], table[("Index", False)]))
    okS = table[("SafeIndex", True)] == (False, True) and table[("SafeIndex", False)] == (False, True)
    r.inst("run:SafeIndex", run.where(passed["SafeIndex"][0]), okS, "`?.` never fails for a missing selector" if okS else
           "SafeIndex: missing selector gives (error, NULL) = %s when strict and %s when not" % (table[("SafeIndex", True)], table[("SafeIndex", False)]))
    r.inst("op_index:safe", oi.where(empties[0]), okS and table[("Index", False)][1], "NULL pushed, no error, whenever the flag asks for it"
           if okS and table[("Index", False)][1] else "the null-coalescing case does not yield NULL")
    r.inst("op_index:strict", oi.where(msgs[0]), table[("Index", True)][0], "strict Index: the error is built" if table[("Index", True)][0] else "strict Index can return Ok for a missing selector")
    # Builtins.strict comes from the --no-strict flag
    return r


def _closure_fed_by_vars(F, main, cf):
    """is the closure handed to an adaptor of the std::env::vars iterator (or applied to what comes out of it)?"""
    o = Origins(main)
    for b, j, pl, rv, m in main.assigns():
        if rv["k"] == "agg" and rv.get("adt") == "{closure}" and rv.get("closure") == cf.name and not pl["p"]:
            cl = pl["l"]
            for b2, t2 in main.calls():
                locs = [op_local(a) for a in t2["args"]]
                if any(l is not None and (l == cl or cl in util.feeders_of(main, l)) for l in locs):
                    labs = set()
                    for a in t2["args"]:
                        labs |= set(o.at(a, b2))
                    if "std::env::vars" in calls_in(labs):
                        return True
    return False


def r46(F):
    r = RuleResult("R46", "single source of the environment",
                   "std::env::vars is read once, in main, and flows only into Environment::new_with_vars; the env tuple is built "
                   "from env_vars only; `env` resolves to a local symbol first, else to that tuple", floor=5)
    readers = []
    for n, fn in F.fns.items():
        if fn.derived:
            continue
        for b, t in fn.calls():
            if callee(t) in ("std::env::vars", "std::env::vars_os", "std::env::var", "std::env::var_os"):
                readers.append((n, callee(t), b))
    vars_readers = [x for x in readers if x[1].startswith("std::env::vars")]
    ok = [x[0] for x in vars_readers] == ["ucg::main"]
    r.inst("std::env::vars:callers", "src", ok, "called only in ucg::main" if ok else "std::env::vars called in %s" % [x[0] for x in vars_readers])
    single = sorted({(x[0], x[1]) for x in readers if not x[1].startswith("std::env::vars")})
    allowed_single = {("ucg::main", "std::env::var"), ("ucg::env_help", "std::env::var"), ("ucg::do_repl", "std::env::var")}
    bad = [x for x in single if x not in allowed_single and x[0].startswith("ucglib::build")]
    r.inst("std::env::var:callers", "src", not bad, "no single-variable read inside the evaluator (%s)" % single if not bad else "evaluator reads the process environment directly: %s" % bad)
    main = F.fn("ucg::main")
    o = Origins(main)
    nv = [(b, t) for b, t in main.calls() if callee(t) == "ucglib::build::opcode::environment::Environment::new_with_vars"]
    need(len(nv) == 1, "Environment::new_with_vars not called once in main")
    labs = o.at(nv[0][1]["args"][2], nv[0][0])
    ok = "std::env::vars" in calls_in(labs)
    r.inst("main:vars->Environment", main.where(nv[0][0]), ok, "env_vars map is filled from std::env::vars" if ok else "the map given to the Environment does not come from std::env::vars")
    # ... all of it: no variable is dropped on the way by a test of its name or value (a filter for "identifier-like" names loses
    # HTTP2_PORT; the property quantifies over every set of variables)
    EXAMINERS = ("all", "any", "starts_with", "ends_with", "contains", "is_empty", "find", "matches", "is_char_boundary", "eq", "ne",
                 "filter", "filter_map", "take_while", "skip_while", "retain", "strip_prefix", "strip_suffix")
    exam = []
    for fn_ in [main] + F.closures_of(main.name):
        o_ = Origins(fn_)
        for b, t in fn_.calls():
            last = callee(t).split("::")[-1]
            if (last in EXAMINERS or last.startswith("is_ascii") or last.startswith("is_alpha")) and t["args"]:
                labs_ = set()
                for a in t["args"]:
                    labs_ |= set(o_.at(a, b))
                if "std::env::vars" in calls_in(labs_) or (fn_ is not main and ("param", 2) in labs_ and
                                                           any(callee(t2).startswith("std::env::vars") for b2, t2 in main.calls())
                                                           and _closure_fed_by_vars(F, main, fn_)):
                    exam.append((fn_.where(b), last))
    r.inst("main:vars-unfiltered", exam[0][0] if exam else main.where(nv[0][0]), not exam,
           "every variable of the process environment reaches the map (no test of a name or value on the way)" if not exam else
           "the environment is examined (%s) on its way into the map: variables can be dropped by name or value" % ", ".join(sorted({x[1] for x in exam})))
    # env_vars: no writer outside the constructor
    acc = field_accesses(F, "ucglib::build::opcode::environment::Environment", "env_vars")
    muts = [a for a in acc if a[0] in ("assign", "mutref") and a[1] != "ucglib::build::opcode::environment::Environment::new_with_vars"]
    r.inst("Environment.env_vars:immutable", "src/build/opcode/environment.rs", not muts, "never written after construction" if not muts else "env_vars written in %s" % sorted({a[1] for a in muts}))
    # get_env_vars_tuple derives from env_vars only
    gt = F.fn("ucglib::build::opcode::environment::Environment::get_env_vars_tuple")
    og = Origins(gt)
    aggs = [(b, rv) for b, j, pl, rv, m in gt.assigns() if rv["k"] == "agg" and rv.get("variant") == "Str" and rv.get("adt") == "ucglib::build::opcode::Primitive"]
    need(aggs, "no Primitive::Str built in get_env_vars_tuple")
    okv = True
    for b, rv in aggs:
        labs = og.at(rv["ops"][0], b)
        if ("field", "env_vars") not in labs:
            okv = False
        extra = [c for c in calls_in(labs) if not c.endswith(("::iter", "::next", "::clone", "::into_iter", "::deref", "::as_ref"))]
        if extra:
            okv = False
    other_calls = sorted(c for c in {callee(t) for b, t in gt.calls()} if not util.is_std_callee(c) and c != "ucglib::ast::Position::new")
    r.inst("get_env_vars_tuple", gt.where(), okv and not other_calls, "values are the env_vars entries, unchanged" if okv and not other_calls else "env tuple values do not come straight from env_vars (%s)" % other_calls)
    # get_binding: name == "env": symbols.get first, else the tuple
    gb = F.fn(VM + "get_binding")
    ogb = Origins(gb)
    eqs = [(b, t) for b, t in gb.calls() if callee(t).endswith("::eq") and any(("const", "str", "env") in ogb.at(a, b) for a in t["args"])]
    need(len(eqs) == 1, "`name == \"env\"` not found in get_binding")
    sb, ft, tt = util.bool_switches(gb, eqs[0][1]["dest"]["l"])[0]
    stop = util.ipdom(gb, sb)
    reg = util.region(gb, tt, stop)
    gets = [b for b, t in gb.calls() if b in reg and callee(t) == "ucglib::build::opcode::scope::Stack::get"]
    tup = [b for b, t in gb.calls() if b in reg and callee(t).endswith("::get_env_vars_tuple")]
    ok = bool(gets) and bool(tup) and all(cfg.dominates(gb, gets[0], x) for x in tup)
    if not ok:
        # another spelling (`symbols.get(name).or_else(|| .. get_env_vars_tuple ..)`, a match on the name): decide by evaluation -
        # with the local lookup answering Some the environment tuple is not asked for, with None it is
        from .. import absint as AI
        GET = "ucglib::build::opcode::scope::Stack::get"
        def asked(found):
            sim = AI.Sim(F, force_all={GET: AI.enum(AI.OPTION, "Some", AI.U) if found else AI.enum(AI.OPTION, "None")})
            try:
                sim.run(gb, [AI.U] * gb.nargs)
            except AI.Lossy as e:
                need(False, "get_binding: %s" % e)
            return any(F.fns[n].term(b)["k"] == "call" and callee(F.fns[n].term(b)).endswith("::get_env_vars_tuple") for n, b in sim.visited if n in F.fns)
        any_get = [1 for n in F.fns if n == gb.name or n.startswith(gb.name + "::{closure") for b, t in F.fns[n].calls() if callee(t) == GET]
        need(any_get, "get_binding does not look the name up in the local symbols at all")
        ok = asked(False) and not asked(True)
    # the tuple is used only on the is_none edge of the local lookup
    r.inst("get_binding:env", gb.where(sb), ok, "local symbol named env wins; otherwise the environment tuple" if ok else "`env` does not consult local symbols before the environment tuple")
    return r


def _binding_guard(F, fname, agg_adt):
    util.need_parser_crate(F)
    fn = F.fn(fname)
    o = Origins(fn)
    eqs = [(b, t) for b, t in fn.calls() if callee(t).endswith("::eq") and any(("const", "str", "env") in o.at(a, b) for a in t["args"])]
    if not eqs:
        return fn, None, "no comparison with \"env\" on the binding name"
    b, t = eqs[0]
    sw = util.bool_switches(fn, t["dest"]["l"])
    if not sw:
        return fn, None, "comparison with \"env\" is not tested"
    sb, ft, tt = sw[0]
    aborts = {bb for bb, j, pl, rv, m in fn.assigns() if pl["l"] == 0 and rv["k"] == "agg" and rv.get("variant") == "Abort"}
    builds = {bb for bb, j, pl, rv, m in fn.assigns() if rv["k"] == "agg" and rv.get("adt") == agg_adt}
    if not builds:
        return fn, None, "no %s aggregate" % agg_adt
    ok = not (cfg.reachable_ps(fn, tt, removed=aborts) & set(cfg.exits(fn))) and not (cfg.reachable_ps(fn, tt) & builds)
    guarded = not (cfg.reachable_ps(fn, 0, removed={b}) & builds)
    if not ok:
        return fn, False, "the \"env\" edge does not abort the parse"
    if not guarded:
        return fn, False, "a path builds the binding without passing the \"env\" test"
    return fn, True, "name == \"env\" aborts; every path to the binding passes the test"


def r47(F):
    r = RuleResult("R47", "`env` is refused as a binding name by both statement forms",
                   "let_stmt_body and constraint_statement take the name through the guard whose \"env\" comparison leads to Abort", floor=2)
    for fname, adt in (("ucglib::parse::let_stmt_body", "ucglib::ast::LetDef"),
                       ("ucglib::parse::constraint_statement", "ucglib::ast::ConstraintBindingDef")):
        fn, ok, msg = _binding_guard(F, fname, adt)
        r.inst(fname.split("::")[-1], fn.where(), bool(ok), msg)
    return r


def r45s(F):
    from .. import callgraph
    r = RuleResult("R45s", "strictness is handed down unchanged",
                   "every function of the evaluator that takes a `strict` flag (VM::new / with_pointer / fcall_impl ...) receives, at every "
                   "call site, the caller's own strict flag (a `strict` field or parameter): function bodies, callbacks of map / filter / "
                   "reduce, modules and imports see an unset variable the way the top level does", floor=10, exhaustive=True)
    CG = callgraph.get(F)
    takers = {}
    for n, fn in F.fns.items():
        if not n.startswith("ucglib::build::") or fn.derived:
            continue
        names = fn.var_names()
        for i in range(1, fn.nargs + 1):
            if "strict" in names.get(i, ()) and fn.local_ty(i) == "bool":
                takers[n] = i
    # only the flag that ends up in a `strict` field (VM / Builtins / FileBuilder) is the strictness of the evaluation; other
    # parameters that happen to be called strict (Bind vs BindOver) are something else
    def stores(n, i):
        fn = F.fns[n]
        o = Origins(fn)
        for b, j, pl, rv, m in fn.assigns():
            if any(isinstance(e, dict) and e.get("f") == "strict" for e in pl["p"]) and rv.get("ops") and ("param", i) in o.at(rv["ops"][0], b):
                return True
            if rv["k"] == "agg" and "strict" in (rv.get("fields") or []):
                k = rv["fields"].index("strict")
                if k < len(rv["ops"]) and ("param", i) in o.at(rv["ops"][k], b):
                    return True
        return False
    real = {n for n, i in takers.items() if stores(n, i)}
    changed = True
    while changed:
        changed = False
        for n, i in takers.items():
            if n in real:
                continue
            fn = F.fns[n]
            o = None
            for b, t in fn.calls():
                tg = [x for x in CG.targets(t) if x in real]
                if tg and len(t["args"]) >= takers[tg[0]]:
                    o = o or Origins(fn)
                    if ("param", i) in o.at(t["args"][takers[tg[0]] - 1], b):
                        real.add(n)
                        changed = True
                        break
    takers = {n: i for n, i in takers.items() if n in real}
    need(len(takers) >= 3, "functions taking a `strict` flag not found (%d)" % len(takers))
    for n, i in sorted(takers.items()):
        for caller, b in sorted(CG.call_sites(n)):
            cf = F.fn(caller)
            if "::test" in caller or "::compile_test" in caller:
                continue
            t = cf.term(b)
            if len(t["args"]) < i:
                continue
            a = t["args"][i - 1]
            if "int" in a:
                # a literal: only the entry points of the front end decide strictness themselves
                ok = not caller.startswith("ucglib::build::opcode::")
                why = "literal %s" % a["int"]
            else:
                labs = Origins(cf).at(a, b)
                fields = {l[1] for l in labs if l[0] == "field"}
                cnames = cf.var_names()
                params = {l[1] for l in labs if l[0] == "param"}
                from_strict = "strict" in fields or any("strict" in cnames.get(p, ()) for p in params)
                other = sorted(f for f in fields if f in ("validate_mode", "validate", "is_module", "success", "reserved"))
                ok = from_strict and not other
                why = "from %s" % (sorted(fields & {"strict"}) or sorted(params))
            short = caller.split("::")[-1]
            ordn = sum(1 for x in r.instances if x["key"].startswith("R45s:%s->%s" % (short, n.split("::")[-1])))
            r.inst("%s->%s:#%d" % (short, n.split("::")[-1], ordn), cf.where(b), ok,
                   "strict := the caller's strict flag" if ok else
                   "%s passes %s as the strict flag of %s: inside that evaluation an unset variable is handled by another mode than the "
                   "one the user chose (a strict build silently yields NULL, or a lenient one fails)" % (short, why, n.split("::")[-1]))
    # a struct with a `strict` field that is built from another value (clone / copy constructors, `Self { strict: .., }`): the
    # field is filled from a `strict` field or parameter, not from a neighbouring flag
    for n, fn in sorted(F.fns.items()):
        if not n.startswith("ucglib::build::") or fn.derived or "::test" in n:
            continue
        o = None
        k_ = 0
        for b, j, pl, rv, m in fn.assigns():
            if rv["k"] != "agg" or "strict" not in (rv.get("fields") or []):
                continue
            idx = rv["fields"].index("strict")
            if idx >= len(rv["ops"]):
                continue
            a = rv["ops"][idx]
            short = n.split("::")[-2] + "::" + n.split("::")[-1]
            if "int" in a:
                # a literal default (constructors: `strict: true`)
                continue
            o = o or Origins(fn)
            labs = o.at(a, b)
            fields = {l[1] for l in labs if l[0] == "field"}
            cnames = fn.var_names()
            params = {l[1] for l in labs if l[0] == "param"}
            from_strict = "strict" in fields or any("strict" in cnames.get(p_, ()) for p_ in params)
            other = sorted(f for f in fields if f in ("validate_mode", "validate", "is_module", "success", "reserved"))
            # a bool parameter under another name is the constructor's business (what is passed for it is a matter of its call
            # sites); what is reported is a neighbouring flag or no source at all
            from_param = bool(params) and not fields and all(fn.local_ty(p_) == "bool" for p_ in params)
            ok = (from_strict or from_param) and not other
            r.inst("%s:field-strict#%d" % (short, k_), fn.where(b), ok,
                   "strict := a strict field / parameter" if ok else
                   "%s fills the `strict` field from %s: the copy evaluates in another mode than the original (module bodies and "
                   "format scopes run in a clean_copy)" % (short, other or sorted(fields) or "an unidentified source"))
            k_ += 1
    return r


RULES = [r43, r44, r45, r46, r47, r45s]
