"""C12 — XML output is well-formed and mirrors the document.  R61 R62 R63 R69 R90."""
from .. import cfg, util, variants
from ..core import RuleResult, need
from ..facts import callee, op_local, op_place
from ..origins import Origins, calls_in

X = "ucglib::convert::xml::XmlConverter::"
VAL = "ucglib::build::ir::Val"


def _errs(fn):
    e = {b for b, j, pl, rv, m in fn.assigns() if pl["l"] == 0 and not pl["p"] and rv["k"] == "agg" and rv.get("variant") == "Err"}
    # an Err built into a local that is handed to `?` (the result of a spliced helper): `?` returns it
    tried = set()
    for b, t in fn.calls():
        if callee(t).endswith("Try>::branch") and t["args"]:
            l = op_local(t["args"][0])
            if l is not None:
                tried |= util.feeders_of(fn, l)
    e |= {b for b, j, pl, rv, m in fn.assigns() if pl["l"] in tried and not pl["p"] and rv["k"] == "agg" and rv.get("variant") == "Err"
          and rv.get("adt") == "core::result::Result"}
    return e | {b for b, t in fn.calls() if callee(t).endswith("::from_residual")}


def r61(F):
    r = RuleResult("R61", "content only through xml-rs events",
                   "the underlying writer is handed only to EmitterConfig::create_writer; all content goes through EventWriter::write; "
                   "text through XmlEvent::characters (never cdata / raw writes)", floor=4)
    w = F.fn(X + "write")
    users = []

    def follow(fn, param, depth):
        o = Origins(fn)
        for b, t in fn.calls():
            for i, a in enumerate(t["args"]):
                if op_place(a) is not None and ("param", param) in o.at(a, b) and fn_takes_writer(fn, a):
                    c = callee(t)
                    if c.startswith(X) and c in F.fns and depth > 0 and c != fn.name:
                        follow(F.fn(c), i + 1, depth - 1)      # a private helper of the converter: look where it hands the writer
                    else:
                        users.append(c)
    follow(w, 3, 2)
    ok = set(users) <= {"xml::writer::config::EmitterConfig::create_writer"} and users
    r.inst("write:raw-writer-users", w.where(), bool(ok), "raw writer only given to create_writer" if ok else "raw writer handed to %s" % sorted(set(users)))
    for name in (X + "write", X + "write_node"):
        fn = F.fn(name)
        cs = {callee(t) for b, t in fn.calls()}
        raw = sorted(c for c in cs if c.endswith(("::write_fmt", "::write_all", "::write_str", "XmlEvent::cdata", "XmlEvent::comment", "::inner_mut", "::into_inner")))
        r.inst("%s:no-raw-writes" % name.split("::")[-1], fn.where(), not raw, "no raw write / cdata" if not raw else "content bypasses the event writer: %s" % raw)
    wn = F.fn(X + "write_node")
    chars = [b for b, t in wn.calls() if callee(t).endswith("XmlEvent::characters")]
    # a bare string child is always written: on the Str arm of the match on the node value every path to a successful return
    # passes a characters() event (no test of the string's content decides whether it is written)
    own = Origins(wn)
    ev_writes = {b for b, t in wn.calls() if callee(t).endswith("EventWriter::write") and
                 any(c.endswith("XmlEvent::characters") for c in calls_in(own.at(t["args"][1], b)))}
    str_arms = []
    for b in range(len(wn.blocks)):
        t0 = wn.term(b)
        if t0["k"] == "switch" and t0.get("enum") == VAL and not wn.is_cleanup(b) and "src" in t0 and \
                (t0["src"]["l"] == 2 or 2 in own.alias[t0["src"]["l"]]):
            e = cfg.switch_edge(t0, variant="Str")
            if e is not None and e != t0.get("otherwise"):
                str_arms.append((b, e))
    oks_ = util.result_blocks(wn, "Ok")
    if str_arms and ev_writes:
        okb = all(not (cfg.reachable(wn, e, removed=ev_writes) & oks_) for b, e in str_arms)
        r.inst("write_node:bare-string-written", wn.where(str_arms[0][0]), okb,
               "a string child always produces a characters() event" if okb else
               "a string child can be skipped (a path of the Str arm returns Ok without writing it): white space a document asks for "
               "between two elements is dropped")
    r.inst("write_node:text-events", wn.where(), len(chars) >= 2, "%d characters() events (text field, bare string)" % len(chars) if len(chars) >= 2 else "text is not written through XmlEvent::characters")
    return r


def fn_takes_writer(fn, a):
    l = op_local(a)
    return l is not None and fn.local_ty(l).replace("&mut ", "").startswith("dyn std::io::Write")


def r69(F):
    r = RuleResult("R69", "element pairing",
                   "in write_node every path from the write of a start_element event to a success return passes the write of "
                   "end_element", floor=1)
    fn = F.fn(X + "write_node")
    o = Origins(fn)
    ew = [(b, t) for b, t in fn.calls() if callee(t).endswith("EventWriter::write")]
    need(len(ew) >= 3, "EventWriter::write calls not found")
    starts, ends = [], []
    for b, t in ew:
        cs = calls_in(o.at(t["args"][1], b))
        if any(c.endswith("XmlEvent::start_element") for c in cs):
            starts.append(b)
        if any(c.endswith("XmlEvent::end_element") for c in cs):
            ends.append(b)
    need(starts and ends, "start/end element writes not identified")
    oks = {b for b, j, pl, rv, m in fn.assigns() if pl["l"] == 0 and not pl["p"] and rv["k"] == "agg" and rv.get("variant") == "Ok"}
    for sb in starts:
        # success exits reachable from the start write without passing an end write
        reach = cfg.reachable(fn, sb, removed=set(ends))
        bad = reach & oks
        r.inst("write_node:start-end", fn.where(sb), not bad, "every successful path closes the element" if not bad else
               "an element can be opened and the function return Ok without writing end_element")
    return r


def r62(F):
    r = RuleResult("R62", "error table",
                   "write: non-tuple -> Err, no root -> Err, version outside {1.0, 1.1} -> Err; write_node: neither tuple nor string "
                   "-> Err, name and text together -> Err; get_*_val mismatches -> Err", floor=9)
    preds = variants.predicates(F, VAL)
    w = F.fn(X + "write")
    wn = F.fn(X + "write_node")
    for fn, allowed in ((w, {"Tuple"}), (wn, {"Tuple", "Str"})):
        oks = {b for b, j, pl, rv, m in fn.assigns() if pl["l"] == 0 and not pl["p"] and rv["k"] == "agg" and rv.get("variant") == "Ok"}
        # `self.write_node(..)` as tail expression forwards the callee's result
        oks |= {b for b, t in fn.calls() if t["dest"]["l"] == 0 and not t["dest"]["p"]}
        errs = _errs(fn)
        def scrut(place, b, fn=fn):
            return place["l"] == 2 or (2 in Origins(fn).alias[place["l"]] if place["p"] else False)
        for v in F.variants(VAL):
            reach = variants.reach_variant(F, fn, 0, VAL, v, preds, scrutinee_ok=lambda pl, b: pl["l"] == 2)
            can_ok = bool(reach & oks)
            if v in allowed:
                r.inst("%s:%s" % (fn.name.split("::")[-1], v), fn.where(), can_ok, "accepted" if can_ok else "%s values are rejected" % v, nontrivial=False)
            else:
                ok = not can_ok and bool(reach & errs)
                r.inst("%s:%s" % (fn.name.split("::")[-1], v), fn.where(), ok, "error" if ok else "a %s is accepted as an XML %s" % (v, "document" if fn is w else "node"))
    # root None -> Err
    o = Origins(w)
    errs = _errs(w)
    sw = [(b, w.term(b)) for b in range(len(w.blocks)) if w.term(b)["k"] == "switch" and (w.term(b).get("enum") or "") == "core::option::Option" and not w.is_cleanup(b)]
    cw = [b for b, t in w.calls() if callee(t).endswith("EmitterConfig::create_writer")]
    need(cw, "create_writer not called")
    root_sw = [(b, t) for b, t in sw if "root" in {n for l in [t["src"]["l"]] for n in w.var_names().get(l, ())}
               and cfg.dominates(w, cfg.switch_edge(t, variant="Some"), cw[0])]
    need(root_sw, "match on `root` not found in XmlConverter::write")
    for b, t in root_sw:
        ne = cfg.switch_edge(t, variant="None")
        ok = util.must_pass(w, ne, errs, exits=cfg.exits(w))
        r.inst("write:no-root", w.where(b), ok, "missing root -> Err" if ok else "a document without root is accepted")
    # version table
    eqs = [(b, t) for b, t in w.calls() if callee(t).endswith("::eq") and any(a.get("str") in ("1.0", "1.1") or ("const", "str", "1.0") in o.at(a, b) or ("const", "str", "1.1") in o.at(a, b) for a in t["args"])]
    need(len(eqs) == 2, "version comparisons not found (%d)" % len(eqs))
    # the edge where both comparisons are false
    last = [e for e in eqs if all(cfg.dominates(w, x[0], e[0]) for x in eqs)][0]
    sb, ft, tt = util.bool_switches(w, last[1]["dest"]["l"])[0]
    ok = util.must_pass(w, ft, errs, exits=cfg.exits(w))
    r.inst("write:bad-version", w.where(sb), ok, "version outside {1.0, 1.1} -> Err" if ok else "an unknown XML version is accepted")
    # name && text: decided on the values, not on the spelling of the test.  After the field loop `name` and `text` hold
    # what the fields said; with both set no path may reach a successful return (whatever the order of the fields was)
    nl, tl = wn.locals_named("name"), wn.locals_named("text")
    need(nl and tl, "write_node: locals `name` / `text` not found")
    def opt_local(cands):
        c = [l for l in cands if wn.local_ty(l).startswith("core::option::Option")]
        need(len(c) == 1, "write_node: the Option local for name/text is ambiguous")
        return c[0]
    nl, tl = opt_local(nl), opt_local(tl)
    loops = cfg.natural_loops(wn)
    # the field loop: the one in which `name` is assigned
    floop = [(h, body) for h, body in loops.items() if any(b in body and pl["l"] == nl and not pl["p"] for b, j, pl, rv, m in wn.assigns())]
    need(len(floop) == 1, "write_node: the loop over the node's fields was not found")
    h, body = floop[0]
    exits_ = sorted({x for b in body for x in cfg.succs(wn)[b] if x not in body and wn.term(x)["k"] != "unreachable"})
    errs_n = _errs(wn)
    oks_n = {b for b, j, pl, rv, m in wn.assigns() if pl["l"] == 0 and not pl["p"] and rv["k"] == "agg" and rv.get("variant") == "Ok"}
    # exits that are error propagation (`?`) are not the normal end of the loop
    normal_exits = [x for x in exits_ if not (cfg.reachable(wn, x) <= (cfg.reachable(wn, x) - oks_n)) or (cfg.reachable(wn, x) & oks_n)]
    need(normal_exits, "write_node: no normal exit of the field loop")
    def ok_reachable(nv, tv):
        out = set()
        for x in normal_exits:
            out |= cfg.reachable_ps(wn, x, init={nl: nv, tl: tv}.items())
        return bool(out & oks_n)
    sane = ok_reachable("Some", "None") and ok_reachable("None", "Some")
    need(sane, "write_node: the path analysis finds no successful return even for a node with only a name / only a text")
    both = ok_reachable("Some", "Some")
    r.inst("write_node:name-and-text", wn.where(h), not both,
           "with both name and text set after the field loop every path ends in Err" if not both else
           "a node whose fields set both name and text can still be written (the test, if any, runs while the fields are being read and "
           "depends on their order): `{text=\"x\", name=\"y\"}` becomes <y></y>x")
    for g, want in (("get_str_val", "Str"), ("get_tuple_val", "Tuple"), ("get_list_val", "List")):
        fn = F.fn(X + g)
        oks = {b for b, j, pl, rv, m in fn.assigns() if pl["l"] == 0 and not pl["p"] and rv["k"] == "agg" and rv.get("variant") == "Ok"}
        bad = [v for v in F.variants(VAL) if v != want and variants.reach_variant(F, fn, 0, VAL, v, preds) & oks]
        good = bool(variants.reach_variant(F, fn, 0, VAL, want, preds) & oks)
        r.inst(g, fn.where(), good and not bad, "%s only" % want if good and not bad else "%s accepts %s" % (g, bad))
    return r


def r90(F):
    r = RuleResult("R90", "namespace and version tables",
                   "empty prefix -> default_ns(uri), otherwise ns(prefix, uri); \"1.0\" -> Version10, \"1.1\" -> Version11; "
                   "encoding / standalone reach StartDocument unchanged; children and attributes iterate forward", floor=5)
    wn = F.fn(X + "write_node")
    ie = [(b, t) for b, t in wn.calls() if (callee(t).endswith("::is_empty") and "str" in callee(t))]
    dn = [b for b, t in wn.calls() if callee(t).endswith("StartElementBuilder::default_ns")]
    ns = [b for b, t in wn.calls() if callee(t).endswith("StartElementBuilder::ns")]
    need(dn and ns, "default_ns / ns calls not found")
    found = False
    for b, t in ie:
        for sb, ft, tt in util.bool_switches(wn, t["dest"]["l"]):
            if cfg.dominates(wn, tt, dn[0]) or cfg.dominates(wn, ft, dn[0]) or cfg.dominates(wn, tt, ns[0]):
                ok = cfg.dominates(wn, tt, dn[0]) and cfg.dominates(wn, ft, ns[0])
                found = True
                r.inst("write_node:prefix-edge", wn.where(sb), ok, "empty prefix -> default_ns, else ns(prefix, uri)" if ok else "namespace edges crossed: empty prefix does not declare the default namespace")
    need(found, "prefix.is_empty() switch not found")
    # the declaration depends on the `ns` field alone: it may not sit under the test of another optional part of the node
    # (an element without attributes keeps its namespace)
    others = set()
    for nm in ("attrs", "children", "text"):
        others |= set(wn.locals_named(nm))
    bad_dep = []
    for b in range(len(wn.blocks)):
        t0 = wn.term(b)
        if t0["k"] == "switch" and t0.get("enum") == "core::option::Option" and "src" in t0 and not wn.is_cleanup(b) and \
                (t0["src"]["l"] in others or set(util.copies_of(wn, t0["src"]["l"], allow_not=False)) & others or
                 any(t0["src"]["l"] in util.copies_of(wn, x, allow_not=False) for x in others)):
            se = cfg.switch_edge(t0, variant="Some")
            for nb_ in dn + ns:
                if se is not None and cfg.dominates(wn, se, nb_):
                    bad_dep.append((b, nb_))
    r.inst("write_node:ns-independent", wn.where(bad_dep[0][0]) if bad_dep else wn.where(ns[0]), not bad_dep,
           "the namespace declaration depends on the ns field only" if not bad_dep else
           "the namespace is declared only when another optional field (attrs / children / text) is present: an element with `ns` and "
           "no attributes loses its xmlns declaration and its prefixed children become unbound")
    o = Origins(wn)
    t = wn.term(ns[0])
    l1, l2 = o.at(t["args"][1], ns[0]), o.at(t["args"][2], ns[0])
    # prefix and uri come from the fields named so
    strs = util.str_consts(wn)
    need("prefix" in strs and "uri" in strs, "write_node: the field names `prefix` / `uri` are not compared in the function itself")
    r.inst("write_node:ns-field-names", wn.where(ns[0]), True, "fields prefix / uri")
    w = F.fn(X + "write")
    ow = Origins(w)
    for lit, variant in (("1.0", "Version10"), ("1.1", "Version11")):
        eq = [(b, t) for b, t in w.calls() if callee(t).endswith("::eq") and any(("const", "str", lit) in ow.at(a, b) or a.get("str") == lit for a in t["args"])]
        need(len(eq) == 1, "comparison with %s not found" % lit)
        sb, ft, tt = util.bool_switches(w, eq[0][1]["dest"]["l"])[0]
        stop = util.ipdom(w, sb)
        # first aggregate of XmlVersion on the true edge before any other comparison
        reg = cfg.reachable(w, tt, removed={ft})
        aggs = [rv.get("variant") for b, j, pl, rv, m in w.assigns() if rv["k"] == "agg" and rv.get("adt", "").endswith("XmlVersion") and cfg.dominates(w, tt, b)]
        ok = aggs[:1] == [variant] and set(aggs) == {variant}
        r.inst("write:version:%s" % lit, w.where(sb), ok, "%s -> %s" % (lit, variant) if ok else "version %s maps to %s" % (lit, aggs))
    sd = [(b, rv) for b, j, pl, rv, m in w.assigns() if rv["k"] == "agg" and rv.get("variant") == "StartDocument"]
    need(sd, "StartDocument event not built")
    b, rv = sd[0]
    names = rv["fields"]
    for fld in ("encoding", "standalone"):
        labs = ow.at(rv["ops"][names.index(fld)], b)
        vn = {n for l in {op_local(rv["ops"][names.index(fld)])} if l is not None for n in w.var_names().get(l, ())}
        okf = not [c for c in calls_in(labs) if not util.is_std_callee(c) and not _verbatim_getter(F, c)]
        r.inst("write:%s" % fld, w.where(b), okf, "%s passed to StartDocument unchanged" % fld if okf else "%s is transformed before StartDocument" % fld)
    cs = {callee(t) for b, t in wn.calls()}
    rev = sorted(c for c in cs if c.endswith(("::rev", "::reverse", "::sort")))
    r.inst("write_node:forward-order", wn.where(), not rev, "children and attributes iterate forward" if not rev else "order changed by %s" % rev)
    return r


def _verbatim_getter(F, c):
    """a function of the converter that hands out the payload of a Val unchanged (get_str_val today)"""
    if not c.startswith(X) or c not in F.fns:
        return False
    fn = F.fn(c)
    o = Origins(fn)
    oks = [(b, rv) for b, j, pl, rv, m in fn.assigns() if pl["l"] == 0 and not pl["p"] and rv["k"] == "agg" and rv.get("variant") == "Ok"]
    if not oks:
        return False
    for b, rv in oks:
        if [x for x in calls_in(o.at(rv["ops"][0], b)) if not x.endswith(VERBATIM)]:
            return False
    return True


def r63(F):
    r = RuleResult("R63", "NULL omission",
                   "NULL attrs / children / text fields and NULL attribute values never reach get_*_val or attr(): they are skipped",
                   floor=2)
    wn = F.fn(X + "write_node")
    o = Origins(wn)
    isem = [(b, t) for b, t in wn.calls() if callee(t) == VAL + "::is_empty"]
    need(len(isem) >= 4, "Val::is_empty guards not found (%d)" % len(isem))
    getters = [(b, t) for b, t in wn.calls() if callee(t) in (X + "get_str_val", X + "get_tuple_val", X + "get_list_val")]
    attr = [(b, t) for b, t in wn.calls() if callee(t).endswith("StartElementBuilder::attr")]
    need(getters and attr, "getters / attr not found")
    # each getter for attrs / children / text / attribute value / ns parts is dominated by the false edge of an is_empty test
    strs_by_block = {}
    guarded = 0
    unguarded = []
    for gb, gt in getters:
        dom = False
        for b, t in isem:
            for sb, ft, tt in util.bool_switches(wn, t["dest"]["l"]):
                if cfg.dominates(wn, ft, gb) and not cfg.dominates(wn, tt, gb):
                    dom = True
        if dom:
            guarded += 1
        else:
            unguarded.append((gb, callee(gt).split("::")[-1]))
    # the unguarded getter allowed: `name` (a NULL name is an error, not an omission)
    names = [g for g in unguarded if g[1] == "get_str_val"]
    need(guarded + len(unguarded) >= 6, "write_node: only %d getter calls found (a part is read some other way)" % (guarded + len(unguarded)))
    ok = guarded >= 5 and len(unguarded) <= 1
    r.inst("write_node:null-guards", wn.where(), ok, "%d getters behind an is_empty test; unguarded: %s (name)" % (guarded, [g[1] for g in unguarded]) if ok else
           "a NULL part reaches a getter: %s" % unguarded)
    for ab, at in attr:
        dom = False
        for b, t in isem:
            for sb, ft, tt in util.bool_switches(wn, t["dest"]["l"]):
                if cfg.dominates(wn, ft, ab):
                    dom = True
        r.inst("write_node:attr-null", wn.where(ab), dom, "NULL attribute values are skipped" if dom else "attr() reachable for a NULL value")
    return r


VERBATIM = ("::deref", "::as_ref", "::borrow", "::as_str", "::clone", "::as_bytes", "::to_string", "::to_owned", "::into")


def r69v(F):
    r = RuleResult("R69v", "strings reach the XML writer verbatim",
                   "get_str_val hands out the payload of Val::Str unchanged (only deref / as_ref / borrow style conversions on the way): it "
                   "feeds element names as well as attribute values and text content, where leading and trailing white space is content",
                   floor=1)
    fn = F.fn(X + "get_str_val")
    o = Origins(fn)
    for b, j, pl, rv, m in fn.assigns():
        if pl["l"] == 0 and not pl["p"] and rv["k"] == "agg" and rv.get("variant") == "Ok":
            cs = sorted(calls_in(o.at(rv["ops"][0], b)))
            extra = [c for c in cs if not c.endswith(VERBATIM)]
            r.inst("get_str_val:payload", fn.where(b), not extra,
                   "the string is returned as it is" if not extra else
                   "get_str_val passes the string through %s: attribute values and text content lose characters "
                   "(`title=\"  padded \"` is written as `padded`)" % ", ".join(x.split("::")[-1] for x in extra))
    return r


def r63e(F):
    r = RuleResult("R63e", "only NULL counts as absent",
                   "Val::is_empty, the test write_node uses for `was this attribute / field given as NULL`, answers true for Val::Empty "
                   "only: widened to empty strings, lists or tuples it silently drops `checked=\"\"`", floor=6, exhaustive=True)
    fn = F.fn("ucglib::build::ir::Val::is_empty")
    preds = {}
    trues = {b for b, j, pl, rv, m in fn.assigns() if pl["l"] == 0 and not pl["p"] and rv["k"] == "use" and rv["ops"][0].get("int") == "1"}
    # `matches!` / comparisons may also produce the bool through a call or a non-constant: treat any non-constant assignment as "may be true"
    maybe = {b for b, j, pl, rv, m in fn.assigns() if pl["l"] == 0 and not pl["p"] and not (rv["k"] == "use" and "int" in rv["ops"][0])}
    maybe |= {b for b, t in fn.calls() if t["dest"]["l"] == 0 and not t["dest"]["p"]}
    for v in F.variants(VAL):
        reach = variants.reach_variant(F, fn, 0, VAL, v, preds, scrutinee_ok=lambda pl, b: pl["l"] == 1)
        can_true = bool(reach & (trues | maybe))
        ok = can_true if v == "Empty" else not can_true
        r.inst("is_empty:%s" % v, fn.where(), ok, ("true" if v == "Empty" else "false") if ok else
               ("Val::is_empty is not true for NULL" if v == "Empty" else
                "Val::is_empty can answer true for a %s: write_node then drops the attribute or field although only NULL may be omitted" % v))
    return r


def r61t(F):
    r = RuleResult("R61t", "text content reaches the writer uninspected",
                   "the string that write_node takes from a {text = s} node (get_str_val whose result reaches XmlEvent::characters) is "
                   "handed to no str method on the way: whether the text event is written depends on the value being NULL only, never "
                   "on what the string contains (a blank text node is white space the document asked for), and the string is not "
                   "transformed (trimmed, replaced) before the writer escapes it", floor=1)
    wn = F.fn(X + "write_node")
    o = Origins(wn)
    chars = [(b, t) for b, t in wn.calls() if callee(t).endswith("XmlEvent::characters")]
    need(chars, "write_node: no XmlEvent::characters call")
    text_calls = {l for b, t in chars for l in o.at(t["args"][0], b) if l[0] == "call" and str(l[1]).endswith("get_str_val")}
    need(text_calls, "write_node: no characters event is fed from get_str_val (the text slot is read some other way)")
    STR = ("core::str::<impl str>::", "alloc::str::<impl str>::", "alloc::string::String::")
    HARMLESS = ("::as_str", "::as_ref", "::as_bytes", "::clone", "::borrow", "::deref", "::to_string", "::to_owned", "::from", "::into")
    bad = []
    for b, t in wn.calls():
        c = callee(t)
        if not c.startswith(STR) or c.endswith(HARMLESS):
            continue
        if any(text_calls & set(o.at(a, b)) for a in t["args"]):
            bad.append((b, c))
    r.inst("write_node:text:uninspected", wn.where(bad[0][0]) if bad else wn.where(chars[0][0]), not bad,
           "the text string goes from get_str_val to XmlEvent::characters without a str method applied to it" if not bad else
           "the text of a {text = s} node is handed to %s before it is written: the text event depends on the string's content "
           "(a white-space-only text node is dropped or altered, and {name=, text=\"  \"} is no longer the error it must be)" % bad[0][1].split("::")[-1])
    return r


from . import c11 as _c11

RULES = [r61, r69, r62, r90, r63, r69v, r63e, r61t, _c11.r72]
