"""C20 — the language server survives any session and answers from the current text only.
R13L panic audit of the server, R40 every request answered, R41 full replacement, R42 same front end, R89 cache provenance."""
from .. import cfg, util, callgraph
from ..access import field_accesses
from ..core import RuleResult, need
from ..facts import callee, op_local, op_place
from ..origins import Origins, calls_in, results_in
from .c04 import r13

LSP = "ucglib::lsp::"
STATE = LSP + "ServerState"
WS = LSP + "workspace::WorkspaceIndex"
ANALYZE = LSP + "analysis::analyze"


def r13l(F):
    return r13(F, lsp=True, rid="R13L")


def r40(F):
    r = RuleResult("R40", "every request is answered",
                   "in handle_request each of the five method branches sends exactly one Response on every path that returns Ok", floor=5)
    fn = F.fn(LSP + "handle_request")
    o = Origins(fn)
    sends = [(b, t) for b, t in fn.calls() if callee(t).endswith("Sender<T>::send") or callee(t).endswith("::send")]
    resp = []
    for b, t in sends:
        labs = o.at(t["args"][1], b)
        if any(l[0] == "agg" and l[2] == "Response" for l in labs) or any(c.endswith("Response::new_ok") or c.endswith("Response::new_err") for c in results_in(labs)):
            resp.append(b)
    need(len(resp) >= 5, "Response sends not found in handle_request (%d)" % len(resp))
    oks = {b for b, j, pl, rv, m in fn.assigns() if pl["l"] == 0 and not pl["p"] and rv["k"] == "agg" and rv.get("variant") == "Ok"}
    # method comparisons
    eqs = [(b, t) for b, t in fn.calls() if callee(t).endswith("::eq") and any(("field", "method") in o.at(a, b) for a in t["args"])]
    need(len(eqs) >= 5, "method comparisons not found (%d)" % len(eqs))
    key = {b: i for i, b in enumerate(cfg.rpo(fn))}
    eqs.sort(key=lambda x: key.get(x[0], 0))
    METHODS = ["hover", "definition", "completion", "workspace/symbol", "semanticTokens/full"]
    for i, (b, t) in enumerate(eqs[:5]):
        sws = util.bool_switches(fn, t["dest"]["l"])
        need(sws, "method comparison not tested")
        sb, ft, tt = sws[0]
        # on the matching branch: every path to an Ok return passes exactly one response send
        reach_wo = cfg.reachable(fn, tt, removed=set(resp))
        missing = bool(reach_wo & oks)
        mine = [x for x in resp if cfg.dominates(fn, tt, x)]
        twice = any(cfg.reaches(fn, a, c) for a in mine for c in mine if a != c)
        ok = not missing and len(mine) >= 1 and not twice
        r.inst("request:%s" % METHODS[i], fn.where(sb), ok, "one Response on every Ok path" if ok else
               "a %s request can return without a response (%s) or answers twice (%s)" % (METHODS[i], missing, twice))
    return r


def r41(F):
    r = RuleResult("R41", "a document's analysis is replaced as a whole",
                   "update_document stores a result computed by analyze from the content argument and the workspace cache only; "
                   "ServerState.documents is written only by insert (open / change) and remove (close); analyze never sees the "
                   "documents map; the workspace index replaces an entry on every update", floor=5)
    ud = F.fn(STATE + "::update_document")
    o = Origins(ud)
    ins = [(b, t) for b, t in ud.calls() if callee(t).endswith("HashMap<K, V, S>::insert") or callee(t).endswith("HashMap::insert")]
    need(len(ins) == 1, "documents.insert not found in update_document")
    b, t = ins[0]
    labs = o.at(t["args"][2], b)
    ok = ANALYZE in results_in(labs) and ("field", "documents") in o.at(t["args"][0], b)
    r.inst("update_document:insert", ud.where(b), ok, "documents[uri] = analyze(content, ..)" if ok else "the stored analysis is not the result of analyze")
    an = [(bb, tt) for bb, tt in ud.calls() if callee(tt) == ANALYZE]
    need(len(an) == 1, "analyze is not called once in update_document")
    bb, tt = an[0]
    l0 = o.at(tt["args"][0], bb)
    l2 = o.at(tt["args"][2], bb)
    ok = ("param", 3) in l0 and ("field", "documents") not in l0 and ("field", "documents") not in l2 and ("field", "workspace") in l2
    r.inst("update_document:analyze-inputs", ud.where(bb), ok, "analyze(content argument, workspace cache)" if ok else "analyze is fed from something else than the content argument and the workspace cache")
    acc = field_accesses(F, STATE, "documents")
    from .. import flatten
    homes = {STATE + "::update_document", "ucglib::lsp::handle_notification"} | {n for n in F.fns if n.endswith("::handle_notification")}
    writers = sorted({(flatten.home(F, a[1], homes).split("::")[-1], c.split("::")[-1]) for a in acc if a[0] == "mutref" for c, _ in a[3]})
    assigns = sorted({a[1] for a in acc if a[0] == "assign"})
    ok = set(writers) <= {("update_document", "insert"), ("handle_notification", "remove")} and not assigns
    r.inst("ServerState.documents:writers", "src/lsp/mod.rs", ok, "written by %s" % writers if ok else "documents written by %s / assigned in %s" % (writers, assigns))
    # the workspace index follows the same discipline: whatever the new text is (also one that no longer parses), the entry
    # of the path is replaced by the analysis of that text on every path through update_from_content
    uc = F.fn("ucglib::lsp::workspace::WorkspaceIndex::update_from_content")
    ouc = Origins(uc)
    wins = [(b2, t2) for b2, t2 in uc.calls() if callee(t2).endswith("HashMap<K, V, S>::insert") or callee(t2).endswith("HashMap::insert")]
    need(wins, "files.insert not found in WorkspaceIndex::update_from_content")
    good = {b2 for b2, t2 in wins if ANALYZE in results_in(ouc.at(t2["args"][2], b2)) and ("field", "files") in ouc.at(t2["args"][0], b2)}
    ok = bool(good) and util.must_pass(uc, 0, good)
    r.inst("update_from_content:always-replaces", uc.where(sorted(good)[0]) if good else uc.where(), ok,
           "files[path] = analyze(content, ..) on every path" if ok else
           "update_from_content can return without replacing the entry of the path (an analysis that failed to parse keeps the previous "
           "one): workspace/symbol and importers of that file answer from an older text")
    af = F.fn(ANALYZE)
    tys = [af.local_ty(i) for i in range(1, af.nargs + 1)]
    ok = not any("ServerState" in x or "lsp_types::Url" in x for x in tys)
    r.inst("analyze:signature", af.where(), ok, "analyze(content, working_dir, resolved files)" if ok else "analyze can see the open documents: %s" % tys)
    return r


def r42(F):
    r = RuleResult("R42", "same front end as the compiler",
                   "analyze calls the compiler's tokenize and parse, pushes exactly one diagnostic on each Err edge, built from the error's "
                   "own position, and returns; no diagnostic is pushed on the Ok edges of tokenizing and parsing", floor=4)
    fn = F.fn(ANALYZE)
    o = Origins(fn)
    for cname, what in (("ucglib::tokenizer::tokenize", "tokenize"), ("ucglib::parse::parse", "parse")):
        cs = [(b, t) for b, t in fn.calls() if callee(t) == cname]
        need(len(cs) == 1, "analyze does not call %s once" % cname)
        b, t = cs[0]
        ees = util.err_edges(fn, t["dest"]["l"])
        need(ees, "result of %s is not matched" % what)
        ee = ees[0]
        pushes = [bb for bb, tt in fn.calls() if callee(tt) == "alloc::vec::Vec::push" and ("field", "diagnostics") in o.at(tt["args"][0], bb)]
        on_err = [p for p in pushes if cfg.dominates(fn, ee, p)]
        conv = [bb for bb, tt in fn.calls() if callee(tt).endswith("build_error_to_diagnostic") and cfg.dominates(fn, ee, bb)]
        rets = set(cfg.exits(fn))
        # after the push the function returns without further analysis
        ok = len(on_err) == 1 and len(conv) == 1 and util.must_pass(fn, ee, set(on_err), exits=rets)
        later = [bb for bb, tt in fn.calls() if cfg.dominates(fn, ee, bb) and callee(tt).startswith("ucglib::") and not callee(tt).endswith(("build_error_to_diagnostic", "AnalysisResult::empty"))]
        r.inst("analyze:%s-Err" % what, fn.where(b), ok and not later, "one diagnostic from the error, then return" if ok and not later else
               "a %s error does not yield exactly one diagnostic (pushes %d, further analysis %s)" % (what, len(on_err), [callee(fn.term(x)).split("::")[-1] for x in later][:3]))
    # build_error_to_diagnostic uses the error's own position
    bd = F.fn(LSP + "analysis::build_error_to_diagnostic")
    ob = Origins(bd)
    cs = results_in(set().union(*[ob.at(a, b) for b, t in bd.calls() if callee(t).endswith("ucg_pos_to_range") for a in t["args"]]) if [1 for b, t in bd.calls() if callee(t).endswith("ucg_pos_to_range")] else set())
    rng = [(b, t) for b, t in bd.calls() if callee(t).endswith("ucg_pos_to_range")]
    cl = F.closures_of(bd.name)
    uses_pos = any(("field", "pos") in Origins(f).of_local(0) or any(callee(t).endswith("ucg_pos_to_range") for b, t in f.calls()) for f in [bd] + cl)
    fields = {l[1] for f in [bd] + cl for b, t in f.calls() for a in t["args"] if op_place(a) for l in Origins(f).at(a, b) if l[0] == "field"}
    ok = uses_pos and "pos" in fields and "msg" in fields
    r.inst("build_error_to_diagnostic", bd.where(), ok, "range from e.pos, message from e.msg" if ok else "the diagnostic is not built from the error's position and message")
    # the parser functions are the compiler's (no lsp-local tokenizer)
    local_tok = [n for n in F.fns if n.startswith(LSP) and n.split("::")[-1] in ("tokenize", "parse", "token")]
    r.inst("no-second-front-end", "src/lsp", not local_tok, "the server has no tokenizer / parser of its own" if not local_tok else "lsp defines its own %s" % local_tok)
    return r


def r89(F):
    r = RuleResult("R89", "the workspace cache is filled from disk only",
                   "a document's diagnostics are a function of its text and the files on disk: the cache analyze() resolves imports "
                   "from (WorkspaceIndex.files) must be written only with contents read from disk", floor=2)
    acc = field_accesses(F, WS, "files")
    writers = sorted({a[1] for a in acc if a[0] == "mutref" and any(c.endswith("::insert") for c, _ in a[3])})
    need(writers, "no writer of WorkspaceIndex.files found")
    cg = callgraph.get(F)
    for w in writers:
        short = w.split("::")[-1]
        if short == "index_all":
            fn = F.fn(w)
            cs = {callee(t) for b, t in fn.calls()}
            ok = any(c.endswith("topo_sort_files") for c in cs)
            r.inst("files<-index_all", fn.where(), ok, "contents come from topo_sort_files (read from disk)" if ok else "index_all does not read the files it indexes")
            continue
        # update_from_content(path, content): every caller must hand it text read from disk
        for n, b in cg.call_sites(w):
            fn = F.fn(n)
            o = Origins(fn)
            t = fn.term(b)
            labs = o.at(t["args"][2], b)
            # read here, or handed over by topo_sort_files (which reads every file it lists from disk: the index_all instance)
            from_disk = any(c.endswith(("fs::read_to_string", "::read_to_string", "fs::read", "::topo_sort_files")) for c in calls_in(labs)) and \
                not any(l[0] == "param" and fn.local_ty(l[1]).replace("&", "").strip() in ("str", "alloc::string::String") for l in labs)
            r.inst("files<-%s<-%s" % (short, n.split("::")[-2] + "::" + n.split("::")[-1]), fn.where(b), from_disk,
                   "content read from disk" if from_disk else
                   "the editor's unsaved text of one document enters the cache other documents' imports are resolved from: opening a.ucg "
                   "with unsaved changes alters the diagnostics later published for b.ucg that imports it")
    return r



def r89t(F):
    r = RuleResult("R89t", "dependencies are indexed before the files that import them",
                   "topo_sort_files is a post-order depth-first walk with an explicit stack: a file is marked visited when it is "
                   "taken off the stack to be expanded, not when it is queued - marking at queue time emits a file that two others "
                   "import after the first of them, so that one is analysed against a cache that lacks it", floor=2)
    name = "ucglib::lsp::workspace::topo_sort_files"
    fn = F.fn(name)
    need(fn is not None, "topo_sort_files not found")
    loops = cfg.natural_loops(fn)
    pops = [b for b, t in fn.calls() if callee(t).endswith("::pop") and "Vec" in callee(t)]
    # the walk: the innermost loop around the pop
    walks = [body for h, body in loops.items() if any(pb in body for pb in pops)]
    need(walks, "topo_sort_files: no loop around a stack pop (a different algorithm is not modelled)")
    walk = min(walks, key=len)
    marks = [(b, t) for b, t in fn.calls() if callee(t).endswith("::insert") and "HashSet" in callee(t)
             and "PathBuf" in fn.local_ty(op_local(t["args"][0]) or 0) and b in walk]
    need(marks and pops, "topo_sort_files: no visited set / explicit stack found (a different algorithm is not modelled)")
    for i, (b, t) in enumerate(marks):
        src = util.source_calls(fn, t["args"][1])
        from_pop = any(c[0].endswith("::pop") for c in src if c[0] != "param")
        other = sorted({c[0].split("::")[-1] for c in src if c[0] != "param" and not c[0].endswith("::pop")} |
                       {"parameter" for c in src if c[0] == "param"})
        ok = from_pop and not other
        # reported: a mark that comes from the iteration over the children / the start files (queue time).  Anything else that is
        # not the popped entry is a source this rule does not look into
        queued = [x for x in other if x in ("next", "parameter")]
        need(ok or queued, "topo_sort_files: where the marked file comes from was not identified (%s)" % other[:2])
        r.inst("topo_sort_files:visited-mark#%d" % i, fn.where(b), ok,
               "the file marked is the one just taken off the stack" if ok else
               "a file is marked visited from %s, i.e. when it is queued, not when it is expanded: a file imported from two places is emitted too late" % (other or ["an unknown source"]))
    # the result is pushed only for entries taken off the stack (post-order emission)
    emits = [(b, t) for b, t in fn.calls() if callee(t).endswith("::push") and "Vec" in callee(t) and
             fn.local_ty(op_local(t["args"][0]) or 0).replace(" ", "").endswith("Vec<std::path::PathBuf>") ]
    for i, (b, t) in enumerate(emits):
        src = util.source_calls(fn, t["args"][1])
        ok = any(c[0].endswith("::pop") for c in src if c[0] != "param") and not any(c[0].endswith("::next") for c in src if c[0] != "param")
        r.inst("topo_sort_files:emit#%d" % i, fn.where(b), ok, "emitted when taken off the stack after its imports" if ok else
               "a file is put into the order at another point than when its stack entry comes back")
    return r


def r42p(F):
    r = RuleResult("R42p", "what the client holds is what the server thinks it holds",
                   "diagnostics are published after every analysis; if the server keeps a record of what it last sent for a document "
                   "(to skip a notification that would repeat it), then every place that sends a publishDiagnostics notification "
                   "updates that record - a send that bypasses it (the clear on didClose) leaves the record ahead of the client and "
                   "the next identical result is never sent", floor=1)
    PARAMS = "PublishDiagnosticsParams"
    sites = []
    for n, fn in sorted(F.fns.items()):
        if not n.startswith("ucglib::lsp::") or fn.derived or "::test" in n:
            continue
        for b, j, pl, rv, m in fn.assigns():
            if rv["k"] == "agg" and str(rv.get("adt", "")).endswith(PARAMS):
                sites.append((n, b))
    need(sites, "no PublishDiagnosticsParams is built in src/lsp (publishing is written some other way)")

    def memo_writes(fn):
        out = []
        for b, t in fn.calls():
            c = callee(t)
            if c.split("::")[-1] in ("insert", "remove", "entry", "clear") and "HashMap" in c and t["args"]:
                pl = op_place(t["args"][0])
                ty = fn.local_ty(pl["l"]) if pl is not None else ""
                if "Url" in ty and "Diagnostic" in ty:
                    out.append(b)
        return out
    keepers = {n for n, fn in F.fns.items() if n.startswith("ucglib::lsp::") and not fn.derived and memo_writes(fn)}
    for k_, (n, b) in enumerate(sites):
        fn = F.fns[n]
        if not keepers:
            r.inst("publish#%d:%s" % (k_, n.split("::")[-1]), fn.where(b), True, "no record of sent diagnostics is kept: every send stands for itself")
            continue
        ok = bool(memo_writes(fn))
        r.inst("publish#%d:%s" % (k_, n.split("::")[-1]), fn.where(b), ok,
               "the send updates the record of what the client holds" if ok else
               "%s sends a publishDiagnostics notification without updating the record kept by %s: after this send the record no longer "
               "says what the client holds, and a later analysis with the recorded result is not published" % (n.split("::")[-1], sorted(x.split("::")[-1] for x in keepers)))
    return r

from .c04 import r76x as _r76x

RULES = [r13l, r40, r41, r42, r42p, r89, r89t, _r76x]
