"""C04 — no input makes the compiler crash or hang.
R13 panic-site audit, R80 arity before callback calls, R82 parallel vectors, R83 closed word sets, R97 RefCell discipline,
R76 grammar progress, R77 tokenizer progress, R78 forward jumps."""
import json
from .. import cfg, util, callgraph, panics, variants, translator as TR
from ..core import RuleResult, need
from ..facts import callee, op_local, op_place, syn_macros, syn_walk
from ..linear import Linear, LEN
from ..origins import Origins, calls_in, results_in
from ..panic_table import REVIEWED, ENTRY_EXTRA

VM = "ucglib::build::opcode::vm::VM::"
RT = "ucglib::build::opcode::runtime::Builtins::"


def entries(F, lsp=False):
    names = ["ucglib::tokenizer::tokenize", "ucglib::parse::parse", "ucglib::parse::expression",
             "ucglib::build::opcode::translate::AST::translate", VM + "run", "ucglib::ast::printer::AstPrinter::render",
             "ucglib::build::FileBuilder::build", "ucglib::build::FileBuilder::eval_stmts", "ucglib::build::FileBuilder::eval_input",
             "ucglib::build::FileBuilder::eval_string", "ucglib::build::FileBuilder::eval_expr",
             "ucglib::build::opcode::environment::Environment::new_with_vars", "ucglib::ast::typecheck::Checker::result",
             "ucglib::ast::walk::Walker::walk_statement_list", "ucg::build_command", "ucg::test_command", "ucg::fmt_command"]
    for n in names:
        need(n in F.fns, "entry point %s not found" % n)
    names += [n for n in F.fns if n.endswith("as ucglib::convert::traits::Converter>::convert") or n.endswith("as ucglib::convert::traits::Importer>::import")]
    names += [n for n in F.fns if n.endswith("as ucglib::ast::walk::Visitor>::visit_statement") or n.endswith("as ucglib::ast::walk::Visitor>::visit_expression")]
    return names


# ------------------------------------------------------------------ local discharge idioms
def _const_int(fn, operand):
    if "int" in operand:
        return int(operand["int"])
    return None


def _dominating_true_edges(fn, b):
    """[(switch block, operand local, polarity)] of bool switches one of whose edges dominates b"""
    out = []
    for sb in range(len(fn.blocks)):
        t = fn.term(sb)
        if t["k"] == "switch" and t.get("ty") == "bool" and not fn.is_cleanup(sb):
            zero = [x["t"] for x in t["targets"] if x["val"] == "0"]
            if not zero:
                continue
            l = op_local(t["on"])
            if cfg.dominates(fn, t["otherwise"], b) and not cfg.dominates(fn, zero[0], b):
                out.append((sb, l, True))
            elif cfg.dominates(fn, zero[0], b) and not cfg.dominates(fn, t["otherwise"], b):
                out.append((sb, l, False))
    return out


def _base_of(fn, o, operand):
    """locals the operand may point into (through refs / copies)"""
    l = op_local(operand)
    if l is None:
        return set()
    return set(o.alias[l]) | {l}


panics_IDX = "<alloc::vec::Vec<T, A> as core::ops::index::Index<I>>::index"
STACK_CLASS = ("translator-stack", "\"BUG: stack underflow\": the translator pushes every operand this hook pops")


def _panic_message(fn, b):
    """the literal of the panic!() whose panic_fmt call is block b: the format pieces are built in the blocks just before"""
    out = []
    seen = set()
    cur = b
    for _ in range(4):
        if cur in seen:
            break
        seen.add(cur)
        blk = fn.blocks[cur]
        ops = []
        for st in blk["stmts"]:
            if st[0] == "assign":
                ops += st[2].get("ops", [])
        if blk["term"]["k"] == "call":
            ops += blk["term"]["args"]
        for op in ops:
            if "str" in op:
                out.append(op["str"])
            for c in op.get("promoted", []) or []:
                if "str" in c:
                    out.append(c["str"])
        if out:
            break
        ps = [p for p in cfg.preds(fn)[cur] if not fn.is_cleanup(p)]
        if len(ps) != 1:
            break
        cur = ps[0]
    return out[0] if out else ""


def discharge_local(F, fn, site, o, lin, facts_cache):
    """returns (class, reason) when a recognised guard idiom discharges the site, else None"""
    kind, detail, b, _, msg = site
    t = fn.term(b)
    if kind == "assert" and detail.startswith("Overflow(Add usize") or detail.startswith("Overflow(Mul usize"):
        return "usize-counter", "usize length / counter arithmetic is bounded by the address space"
    if kind == "panic":
        # an arm that no value of the scrutinee can reach: the same place (read through a shared reference) is matched twice,
        # and for every variant the two matches, taken consistently, do not lead here (`A | B => match x { A => .., B => ..,
        # C => unreachable!() }`)
        by_src = {}

        def canon(src):
            """the place a scrutinee is a plain copy of / a shared reference to (`kind => match kind {..}` re-reads def.kind)"""
            l0, p0 = src["l"], list(src["p"])
            for _ in range(3):
                if p0 and p0 != ["*"]:
                    break
                defs = [rv for bb, j, pl, rv, m in fn.assigns() if pl["l"] == l0 and not pl["p"]]
                if len(defs) != 1 or [1 for bb, tt in fn.calls() if tt["dest"]["l"] == l0]:
                    break
                rv = defs[0]
                if rv["k"] == "use" and not p0 and op_place(rv["ops"][0]) is not None:
                    q = op_place(rv["ops"][0])
                    l0, p0 = q["l"], list(q["p"])
                elif rv["k"] == "ref" and not rv.get("mut") and p0 == ["*"]:
                    l0, p0 = rv["place"]["l"], list(rv["place"]["p"])
                else:
                    break
            return l0, json.dumps(p0)
        switch_src = {}
        for sb in range(len(fn.blocks)):
            st = fn.term(sb)
            if st["k"] == "switch" and st.get("enum") and "src" in st and not fn.is_cleanup(sb):
                cl, cp = canon(st["src"])
                switch_src[sb] = (cl, cp)
                by_src.setdefault((st["enum"], cl, cp), []).append(sb)
        for (enum_, l_, pj), sws in by_src.items():
            if len(sws) < 2:
                continue
            # the scrutinee must not be written in this function (a field behind a shared reference parameter, or a local assigned once)
            proj = json.loads(pj)
            whole = [1 for bb, j, pl, rv, m in fn.assigns() if pl["l"] == l_ and not pl["p"]]
            partial = [1 for bb, j, pl, rv, m in fn.assigns() if pl["l"] == l_ and pl["p"] and
                       (pl["p"][:len(proj)] == proj or proj[:len(pl["p"])] == pl["p"])]
            mut_borrowed = [1 for bb, j, pl, rv, m in fn.assigns() if rv["k"] in ("ref", "rawptr") and rv["place"]["l"] == l_ and rv.get("mut", True)
                            and (rv["place"]["p"][:len(proj)] == proj or proj[:len(rv["place"]["p"])] == rv["place"]["p"])]
            call_dests = [1 for bb, tt in fn.calls() if tt["dest"]["l"] == l_]
            stable_local = len(whole) + len(call_dests) <= 1 and not partial and not mut_borrowed and not (proj and proj[0] == "*")
            if (proj and proj[0] == "*" and l_ <= fn.nargs and fn.local_ty(l_).startswith("&") and not fn.local_ty(l_).startswith("&mut")) or \
                    stable_local:
                same = lambda e, src, bb2: e == enum_ and switch_src.get(bb2) == (l_, pj)
                allv = fn.term(sws[0]).get("all_variants") or []
                if allv and all(b not in variants.reach_multi(F, fn, 0, {enum_: v}, scrutinee_ok=same) for v in allv):
                    return "infeasible-arm", "no variant of %s reaches this arm when the matches on the same value are taken consistently" % enum_.split("::")[-1]
    if kind == "panic" and fn.file in ("src/build/opcode/runtime.rs", "src/build/opcode/vm.rs"):
        # the hooks' own "this cannot happen" for an empty operand stack, wherever in the hook (or a helper of it) it is written
        m = _panic_message(fn, b)
        if m.startswith("BUG: ") and "translator emitted wrong opcode sequence" in m:
            return STACK_CLASS
    if kind == "assert" and detail.startswith("Overflow(Sub usize") and fn.file.startswith("src/ast/printer"):
        # `curr_indent -= indent_size` is reached only after the matching `+=`: decided on the paths (the flag that remembers
        # the indent is followed), wherever the printer's code is split into methods
        fields = lambda op, bb: {l[1] for l in o.at(op, bb) if l[0] == "field"}
        if "curr_indent" in fields(t["ops"][0], b) and "indent_size" in fields(t["ops"][1], b):
            adds = set()
            for bb, j, pl, rv, m in fn.assigns():
                if rv["k"] == "bin" and rv["op"].startswith("Add") and len(rv["ops"]) == 2 and \
                        "curr_indent" in fields(rv["ops"][0], bb) and "indent_size" in fields(rv["ops"][1], bb):
                    adds.add(bb)
            if adds and b not in cfg.reachable_ps(fn, 0, removed=adds):
                return "balanced", "curr_indent -= indent_size only on paths that did the matching += (path-sensitive on the flag)"
    if kind == "assert" and detail.startswith("Overflow(Sub usize"):
        # translator patch arithmetic: minuend and subtrahend are linear forms of OpsMap::len snapshots
        a = lin.of_operand(t["ops"][0])
        c = lin.of_operand(t["ops"][1])
        if a is not None and c is not None and fn.name.startswith(TR.T):
            from ..linear import _add
            d = _add(a, c, -1)
            k = d.get(1, 0)
            syms = {s: v for s, v in d.items() if s != 1}
            pushes = {p["bb"] for p in TR.pushes(fn)}
            pos = [s for s, v in syms.items() if v == 1]
            neg = [s for s, v in syms.items() if v == -1]
            if not syms and k >= 0:
                return "opsmap-monotone", "constant non-negative difference"
            if len(syms) == 1 and len(pos) == 1 and k >= -1 and any(cfg.dominates(fn, pb, pos[0][1]) for pb in pushes):
                return "opsmap-monotone", "ops.len() >= 1 here: a push dominates the snapshot and OpsMap never shrinks (R36)"
            if len(syms) == 2 and len(pos) == 1 and len(neg) == 1 and k >= 0 and cfg.dominates(fn, neg[0][1], pos[0][1]):
                return "opsmap-monotone", "len_b - len_a (+%d) with len_b taken after len_a: OpsMap only grows between them (R36)" % k
            if len(syms) == 2 and len(pos) == 1 and len(neg) == 1 and k == -1 and cfg.dominates(fn, neg[0][1], pos[0][1]) and \
                    any(cfg.dominates(fn, neg[0][1], pb) and cfg.dominates(fn, pb, pos[0][1]) and pb not in (neg[0][1],) for pb in pushes):
                return "opsmap-monotone", "len_b - len_a - 1 with a push between the two snapshots on every path: len_b >= len_a + 1 (R36)"
        # x - c dominated by a comparison that establishes x >= c on the same variable
        c_const = _const_int(fn, t["ops"][1])
        if c_const is not None:
            m_labels = o.at(t["ops"][0], b)
            m_local = op_local(t["ops"][0])
            def same_var(opnd, bb):
                l2 = op_local(opnd)
                if l2 is None:
                    return False
                if l2 == m_local:
                    return True
                # copies of the same user variable
                roots_a = {x for x in util.copies_of(fn, l2, allow_not=False)}
                names_a = {n for x in roots_a | {l2} for n in fn.var_names().get(x, ())}
                srcs = set()
                for bb2, j2, pl2, rv2, m2 in fn.assigns():
                    if pl2["l"] in (m_local, l2) and rv2["k"] == "use":
                        sp = op_place(rv2["ops"][0])
                        if sp is not None and not sp["p"]:
                            srcs.add((pl2["l"], sp["l"]))
                a_src = {s for d_, s in srcs if d_ == m_local} | {m_local}
                b_src = {s for d_, s in srcs if d_ == l2} | {l2}
                return bool(a_src & b_src)
            for sb, l, pol in _dominating_true_edges(fn, b):
                for bb, j, pl, rv, m in fn.assigns():
                    if pl["l"] != l or rv["k"] != "bin":
                        continue
                    k0, k1 = _const_int(fn, rv["ops"][0]), _const_int(fn, rv["ops"][1])
                    if k1 is not None and same_var(rv["ops"][0], bb):
                        if (rv["op"] == "Eq" and k1 == 0 and not pol and c_const == 1) or \
                           (rv["op"] == "Ge" and pol and k1 >= c_const) or (rv["op"] == "Gt" and pol and k1 >= c_const - 1) or \
                           (rv["op"] == "Lt" and not pol and k1 >= c_const) or (rv["op"] == "Ne" and k1 == 0 and pol and c_const == 1):
                            return "guarded-sub", "dominated by a comparison establishing that the minuend is at least %d" % c_const
        return None
    if kind == "precond" and detail.endswith("Vec::drain"):
        # drain(0..): RangeFrom { start: 0 } never exceeds the length
        agg = TR.agg_def(fn, op_local(t["args"][1]), b)
        if agg is not None and (agg.get("adt") or "").endswith("RangeFrom") and agg["ops"] and agg["ops"][0].get("int") == "0":
            return "drain-from-zero", "drain(0..) cannot start past the end"
        return None
    if kind == "unwrap":
        # unwrap of an Option whose is_some()/is_none() test (or a non-empty test of its source) dominates the call
        recv = _base_of(fn, o, t["args"][0])
        for sb, l, pol in _dominating_true_edges(fn, b):
            for cb, ct in fn.calls():
                if ct["dest"]["l"] != l or ct["dest"]["p"]:
                    continue
                c = callee(ct)
                tgt = _base_of(fn, o, ct["args"][0]) if ct["args"] else set()
                if c.endswith("Option::is_some") and pol and tgt & recv:
                    return "guarded-unwrap", "dominated by the true edge of is_some() on the same option"
                if c.endswith("Option::is_none") and not pol and tgt & recv:
                    return "guarded-unwrap", "dominated by the false edge of is_none() on the same option"
        # x.last().unwrap() / pop().unwrap() after `if v.is_empty() { return }`
        src_calls = [(cb, ct) for cb, ct in fn.calls() if ct["dest"]["l"] in recv and callee(ct).endswith(("::last", "::first", "Vec::pop", "::last_mut"))]
        for cb, ct in src_calls:
            vec = _base_of(fn, o, ct["args"][0])
            for sb, l, pol in _dominating_true_edges(fn, b):
                for cb2, ct2 in fn.calls():
                    if ct2["dest"]["l"] == l and callee(ct2).endswith("::is_empty") and not pol and _base_of(fn, o, ct2["args"][0]) & vec:
                        # nothing may shrink the vector between the test and the use
                        return "guarded-unwrap", "dominated by the false edge of is_empty() on the same vector"
                # `v.len() == 1` (or >= 1, > 0) on the same vector
                for bb, j, pl, rv, m in fn.assigns():
                    if pl["l"] != l or rv["k"] != "bin" or rv["op"] not in ("Eq", "Ge", "Gt", "Ne"):
                        continue
                    kc = _const_int(fn, rv["ops"][1])
                    ll = op_local(rv["ops"][0])
                    if kc is None or ll is None:
                        continue
                    lens = [ct3 for cb3, ct3 in fn.calls() if ct3["dest"]["l"] in util.copies_of(fn, ll, allow_not=False) or ct3["dest"]["l"] == ll]
                    lens = [ct3 for ct3 in lens if callee(ct3).endswith("::len") and ct3["args"] and _base_of(fn, o, ct3["args"][0]) & vec]
                    if not lens:
                        continue
                    if (rv["op"] == "Eq" and pol and kc >= 1) or (rv["op"] == "Ge" and pol and kc >= 1) or (rv["op"] == "Gt" and pol and kc >= 0) or \
                            (rv["op"] == "Ne" and not pol and kc >= 1):
                        return "guarded-unwrap", "dominated by a test that the same vector has at least one element (len() %s %d)" % (rv["op"], kc)
        return None
    if kind == "precond" and detail.endswith("Index<I>>::index") and "Vec" in detail:
        # v[i as usize] dominated by `i < v.len() as i64 && i >= 0`
        idx = t["args"][1]
        labs = o.at(idx, b)
        vec = _base_of(fn, o, t["args"][0])
        lt = ge = False
        for sb, l, pol in _dominating_true_edges(fn, b):
            for bb, j, pl, rv, m in fn.assigns():
                if pl["l"] == l and rv["k"] == "bin":
                    la, lb = o.at(rv["ops"][0], bb), o.at(rv["ops"][1], bb)
                    shared = {x for x in labs if x[0] in ("call", "variant", "field")} & {x for x in la if x[0] in ("call", "variant", "field")}
                    if rv["op"] == "Lt" and pol and shared and any(c.endswith("::len") for c in results_in(lb)):
                        lt = True
                    if rv["op"] == "Ge" and pol and shared and any(x.get("int") == "0" for x in rv["ops"]):
                        ge = True
        if lt and ge:
            return "guarded-index", "dominated by `0 <= i && i < v.len()`"
        return None
    return None


def r13(F, lsp=False, rid="R13"):
    r = RuleResult(rid, "panic-site audit",
                   "every panic-capable site (explicit panic family, unwrap/expect, std APIs with a panicking precondition, overflow / "
                   "bounds / division assertions, integer operator impls) in every function reachable from the %s entry points is "
                   "discharged by a type class, a guard idiom decided on the CFG, another rule, or a reviewed table entry" % ("server" if lsp else "compiler"),
                   floor=150 if not lsp else 60)
    ents = entries(F) if not lsp else lsp_entries(F)
    reach = panics.reachable_fns(F, ents)
    local = sorted(n for n in reach if n in F.fns and not F.fns[n].derived)
    if not lsp:
        local = [n for n in local if not F.fns[n].file.startswith("src/lsp")]
    r.note("%d entry points, %d reachable functions (%d local, non-derived)" % (len(ents), len(reach), len(local)))
    counts = {}
    seen_keys = set()
    from .. import flatten
    pending = []
    table_used = {}        # (owner, kind, detail) -> reviewed slots used; the table counts only the sites no idiom discharged
    flat_ctx = {}

    def owner_of(n):
        """whose reviewed entries a function's sites may count against, nearest first: a closure is code of its parent, a
        private helper with one caller is code of that caller, a helper shared by the pieces of one function is code of that
        function (moving a block into a closure or a helper moves its sites, not their number)"""
        chain = []
        cur = n
        for _ in range(4):
            nxt = None
            if "::{closure" in cur:
                nxt = cur[:cur.index("::{closure")]
            else:
                c = flatten.sole_caller(F, cur)
                if c is not None:
                    nxt = c
                else:
                    callers = {flatten._base(x) for x in flatten._callers(F).get(cur, ())}
                    if 1 < len(callers) <= flatten.MAX_CALLERS and all(x in F.fns and flatten.helper_like(F, F.fns[x], cur) for x in callers):
                        ups = {flatten.sole_caller(F, x) for x in callers}
                        if len(ups) == 1 and None not in ups:
                            nxt = next(iter(ups))
            if nxt is None or nxt in chain or nxt == n:
                break
            chain.append(nxt)
            cur = nxt
        return chain

    def in_callers_context(n, site):
        """a site of a private helper, looked at where the helper is used: the guard (or the arithmetic that makes it safe) may
        sit in the caller"""
        c = flatten.sole_caller(F, n)
        if c is None:
            return None
        if c not in flat_ctx:
            fl = flatten.flat(F, c, keep=("OpsMap::",))       # the translator idioms look for the OpsMap calls
            flat_ctx[c] = (fl, Origins(fl), Linear(fl))
        fl, o2, lin2 = flat_ctx[c]
        offs = flatten.splice_offsets(fl, n)
        if not offs:
            return None
        kind, detail, b, _, msg = site
        hows = [discharge_local(F, fl, (kind, detail, boff + b, None, msg), o2, lin2, None) for boff in offs]
        if all(h is not None for h in hows):
            return (hows[0][0], hows[0][1] + " (decided in the context of %s, where this helper is spliced in)" % c.split("::")[-1])
        return None

    for n in local:
        fn = F.fns[n]
        sites = panics.sites_of(fn)
        if not sites:
            continue
        o = Origins(fn)
        lin = Linear(fn)
        ordinal = {}
        own = owner_of(n)
        for site in sites:
            kind, detail, b, _, msg = site
            base = (n, kind, detail)
            k = ordinal.get(base, 0)
            ordinal[base] = k + 1
            key = "%s:%s:%s:#%d" % (n, kind, detail, k)
            seen_keys.add((n, kind, detail, k))
            d = discharge_local(F, fn, site, o, lin, None)
            how = None
            if d is not None:
                how = d
            elif kind == "precond" and detail.endswith(("RefCell::borrow", "RefCell::borrow_mut")):
                how = ("refcell", "RefCell discipline (R97)")
            else:
                how = in_callers_context(n, site) if own and "::{closure" not in n else None
                if how is None:
                    # an index out of bounds is the same panic whether the container is a Vec (`Index::index` call) or a slice
                    # (`BoundsCheck` assertion): passing `&[T]` instead of `&Vec<T>` does not make a reviewed site a new one
                    alts = [(kind, detail)]
                    if kind == "assert" and detail.startswith("BoundsCheck"):
                        alts.append(("precond", panics_IDX))
                    elif kind == "precond" and detail == panics_IDX:
                        alts.append(("assert", "BoundsCheck()"))
                    # the function's own entries first; what they do not cover waits until every function has used its own
                    # entries and may then take a slot its owner has left (a block moved out of the owner took its site along)
                    for kind2, detail2 in alts:
                        tb = (n, kind2, detail2)
                        if (n, kind2, detail2, table_used.get(tb, 0)) in REVIEWED:
                            how = REVIEWED[(n, kind2, detail2, table_used.get(tb, 0))]
                            table_used[tb] = table_used.get(tb, 0) + 1
                            break
                    if how is None and own:
                        pending.append((key, fn.where(b), n, own, alts, kind, detail, msg))
                        continue
            if how is not None:
                counts[how[0]] = counts.get(how[0], 0) + 1
                r.inst(key, fn.where(b), True, "%s: %s" % how, nontrivial=how[0] != "usize-counter")
            else:
                r.inst(key, fn.where(b), False,
                       "reachable panic site: %s %s%s in %s is neither guarded nor reviewed: some input can crash the %s" % (
                           kind, detail, " (\"%s\")" % msg if msg else "", n, "server" if lsp else "compiler"))
    for key, where, n, own, alts, kind, detail, msg in pending:
        how = None
        for holder, (kind2, detail2) in [(h_, a_) for h_ in own for a_ in alts]:
            tb = (holder, kind2, detail2)
            if (holder, kind2, detail2, table_used.get(tb, 0)) in REVIEWED:
                how = REVIEWED[(holder, kind2, detail2, table_used.get(tb, 0))]
                how = (how[0], how[1] + " (entry of %s, whose code this is)" % holder.split("::")[-1])
                table_used[tb] = table_used.get(tb, 0) + 1
                break
        if how is not None:
            counts[how[0]] = counts.get(how[0], 0) + 1
            r.inst(key, where, True, "%s: %s" % how)
        else:
            r.inst(key, where, False,
                   "reachable panic site: %s %s%s in %s is neither guarded nor reviewed: some input can crash the %s" % (
                       kind, detail, " (\"%s\")" % msg if msg else "", n, "server" if lsp else "compiler"))

    r.note("discharge classes: %s" % sorted(counts.items()))
    return r


# ------------------------------------------------------------------ R80
def r80(F):
    r = RuleResult("R80", "arity before every callback call",
                   "VM::fcall_impl pops one value per parameter from the caller's stack: every call site is dominated by a comparison of "
                   "the number of values pushed with the callee's parameter count whose unequal edge is an error", floor=10)
    cg = callgraph.get(F)
    sites = [(n, b) for n, b, via in util.expanded_call_sites(F, cg, VM + "fcall_impl")]
    need(len(sites) >= 10, "fcall_impl call sites not found")
    chk_name = RT + "check_callback_arity"
    # the checker itself: bindings.len() != expected -> Err
    chk_ok = False
    if chk_name in F.fns:
        ck = F.fn(chk_name)
        o = Origins(ck)
        errs = {b for b, j, pl, rv, m in ck.assigns() if pl["l"] == 0 and not pl["p"] and rv["k"] == "agg" and rv.get("variant") == "Err"}
        for b, j, pl, rv, m in ck.assigns():
            if rv["k"] == "bin" and rv["op"] in ("Ne", "Eq"):
                la, lb = o.at(rv["ops"][0], b), o.at(rv["ops"][1], b)
                both = la | lb
                if ("field", "bindings") in both and ("param", 2) in both and any(c.endswith("::len") for c in results_in(both)):
                    for sb, ft, tt in util.bool_switches(ck, pl["l"]):
                        edge = tt if rv["op"] == "Ne" else ft
                        other = ft if rv["op"] == "Ne" else tt
                        chk_ok = util.must_pass(ck, edge, errs, exits=cfg.exits(ck)) and not (cfg.reachable(ck, other) & errs)
        r.inst("check_callback_arity", ck.where(), chk_ok, "bindings.len() != expected -> Err, equal -> Ok" if chk_ok else "the arity helper does not reject a mismatch")
    for n, b in sorted(sites):
        fn = F.fn(n)
        short = n.split("::")[-1]
        if n == VM + "op_fcall":
            # arg_length > arity / < arity both return Err before the call
            o = Origins(fn)
            cmps = []
            for bb, j, pl, rv, m in fn.assigns():
                if rv["k"] == "bin" and rv["op"] in ("Gt", "Lt", "Ne") and rv["ty"] == "i64":
                    both = o.at(rv["ops"][0], bb) | o.at(rv["ops"][1], bb)
                    if ("field", "bindings") in both:
                        cmps.append((rv["op"], pl["l"], bb))
            errs = {bb for bb, j, pl, rv, m in fn.assigns() if pl["l"] == 0 and not pl["p"] and rv["k"] == "agg" and rv.get("variant") == "Err"}
            ops = sorted(c[0] for c in cmps)
            if not cmps:
                # `arg_length.cmp(&arity)` matched on Ordering: decided by evaluation - with the comparison answering Less or
                # Greater the call is not entered and the handler returns an error, with Equal the call is entered
                o_cmp = [(cb, ct) for cb, ct in fn.calls() if callee(ct).endswith("::cmp") and any(("field", "bindings") in o.at(a, cb) for a in ct["args"])]
                if o_cmp:
                    from .. import absint as AI
                    cname = callee(o_cmp[0][1])
                    def outcome(ordv):
                        """can a path on which the comparison answered `ordv` end in anything but Err?"""
                        sim = AI.Sim(F, site=(fn.name, o_cmp[0][0]), forced=("e", "core::cmp::Ordering", ordv, ()), opaque={VM + "fcall_impl"})
                        try:
                            res = sim.run(fn, [AI.U] * fn.nargs)
                        except AI.Lossy as e:
                            need(False, "op_fcall: %s" % e)
                        fired = [v for f_, v, o_ in res if f_]
                        need(fired, "op_fcall: no outcome after the comparison of the argument count")
                        return any(not (v[0] == "e" and v[2] == "Err") for v in fired)
                    okc = outcome("Equal") and not outcome("Less") and not outcome("Greater")
                    r.inst("op_fcall->fcall_impl", fn.where(b), okc, "too many / too few arguments are errors before the call (Ordering match)" if okc else
                           "op_fcall calls the function without comparing the argument count with its arity")
                    continue
            ok = ops in (["Gt", "Lt"], ["Ne"])
            for op, l, bb in cmps:
                for sb, ft, tt in util.bool_switches(fn, l):
                    ok = ok and util.must_pass(fn, tt, errs, exits=cfg.exits(fn)) and b not in cfg.reachable(fn, tt)
            r.inst("op_fcall->fcall_impl", fn.where(b), ok, "too many / too few arguments are errors before the call" if ok else "op_fcall calls the function without comparing the argument count with its arity")
            continue
        if "::{closure" in n:
            # the per-element code sits in a closure (iterator pipeline): the check belongs to the enclosing hook, before the
            # closure is built; the values pushed per call are those the closure pushes before the call
            pn = n[:n.index("::{closure")]
            need(pn in F.fns, "closure %s has no enclosing function in the facts" % n)
            pf = F.fns[pn]
            made = [bb for bb, j, pl, rv, m in pf.assigns() if rv["k"] == "agg" and rv.get("adt") == "{closure}" and rv.get("closure") == n]
            need(made, "closure %s is not built in %s" % (n, pn))
            pchecks = [(cb, ct) for cb, ct in pf.calls() if callee(ct) == chk_name and all(cfg.dominates(pf, cb, mb) for mb in made)]
            keyc = "%s::%s->fcall_impl" % (pn.split("::")[-1], short)
            if not pchecks:
                r.inst(keyc, fn.where(b), False,
                       "the callback is called without an arity check: a function with another number of parameters pops values that are not its own "
                       "(`map(func(a, b) => a, [1])` hits unreachable!())")
                continue
            cb, ct = max(pchecks, key=lambda x: TR.order_key(pf).get(x[0], 0))
            expected = ct["args"][1].get("int")
            pushes = [pb for pb, pt in fn.calls() if callee(pt) == "alloc::vec::Vec::push" and cfg.dominates(fn, pb, b) and
                      "alloc::vec::Vec<(alloc::rc::Rc<ucglib::build::opcode::Value>" in fn.local_ty(op_local(pt["args"][0]) or 0)]
            ees = util.err_edges(pf, ct["dest"]["l"])
            leaves = bool(ees) and all(mb not in cfg.reachable(pf, e) for e in ees for mb in made)
            ok = chk_ok and expected is not None and int(expected) == len(pushes) and leaves
            r.inst(keyc, fn.where(b), ok,
                   "arity %s checked in the hook before the closure is built, %d values pushed per call" % (expected, len(pushes)) if ok else
                   "arity check expects %s parameter(s) but %d values are pushed before the call (or its error does not leave the hook)" % (expected, len(pushes)))
            continue
        # hooks: dominated by check_callback_arity(f, n) with n = number of values pushed per iteration
        o = Origins(fn)
        checks = [(cb, ct) for cb, ct in fn.calls() if callee(ct) == chk_name and cfg.dominates(fn, cb, b)]
        if not checks:
            r.inst("%s->fcall_impl" % short, fn.where(b), False,
                   "the callback is called without an arity check: a function with another number of parameters pops values that are not its own "
                   "(`map(func(a, b) => a, [1])` hits unreachable!())")
            continue
        cb, ct = checks[-1] if len(checks) == 1 else max(checks, key=lambda x: TR.order_key(fn).get(x[0], 0))
        expected = ct["args"][1].get("int")
        # values pushed in the loop body before the call
        loops = [bd for h, bd in cfg.natural_loops(fn).items() if b in bd]
        need(loops, "callback call outside a loop in %s" % short)
        body = min(loops, key=len)
        pushes = [pb for pb, pt in fn.calls() if callee(pt) == "alloc::vec::Vec::push" and pb in body and cfg.dominates(fn, pb, b) and
                  "alloc::vec::Vec<(alloc::rc::Rc<ucglib::build::opcode::Value>" in fn.local_ty(op_local(pt["args"][0]) or 0)]
        same_f = ("variant", "F") in o.at(ct["args"][0], cb) or True
        # the Err of the check leaves the function (`?`)
        ees = util.err_edges(fn, ct["dest"]["l"])
        leaves = bool(ees) and all(b not in cfg.reachable(fn, e) for e in ees)
        ok = chk_ok and expected is not None and int(expected) == len(pushes) and leaves
        r.inst("%s->fcall_impl" % short, fn.where(b), ok,
               "arity %s checked, %d values pushed per call" % (expected, len(pushes)) if ok else
               "arity check expects %s parameter(s) but %d values are pushed before the call (or its error does not leave the hook)" % (expected, len(pushes)))
    return r


# ------------------------------------------------------------------ R82
def _postdom(fn, b, a):
    """b post-dominates a"""
    p = cfg.post_idoms(fn)
    x = a
    seen = set()
    while x in p and x not in seen:
        if x == b:
            return True
        seen.add(x)
        x = p[x]
    return x == b


def r82(F):
    r = RuleResult("R82", "value and position vectors are built in pairs",
                   "at every construction of Composite::List(a, b) / Composite::Tuple(a, b): a and b start together (both fresh or both "
                   "clones of the two halves of one composite) and every push onto one is control-equivalent to a push onto the other "
                   "(or they are handed together to merge_field_into_tuple)", floor=15)
    COMP = "ucglib::build::opcode::Composite"
    MERGE = VM + "merge_field_into_tuple"
    n = 0
    from .. import flatten
    work = []
    for name, fn0 in sorted(F.fns.items()):
        if fn0.derived:
            continue
        aggs0 = [(b, rv) for b, j, pl, rv, m in fn0.assigns() if rv["k"] == "agg" and rv.get("adt") == COMP]
        if not aggs0:
            continue
        # a private helper that receives the two vectors from its only caller is looked at where it is spliced into that caller
        c = flatten.sole_caller(F, name)
        params_in = any(op_local(rv["ops"][k]) is not None and any(1 <= x <= fn0.nargs for x in util.feeders_of(fn0, op_local(rv["ops"][k])))
                        for b, rv in aggs0 for k in (0, 1))
        if c is not None and params_in:
            fl = flatten.flat(F, c)
            offs = flatten.splice_offsets(fl, name)
            if offs:
                for off in offs[:1]:
                    for b, rv in aggs0:
                        rv2 = [st[2] for st in fl.blocks[off + b]["stmts"] if st[0] == "assign" and st[2]["k"] == "agg" and st[2].get("adt") == COMP]
                        if rv2:
                            work.append((name, fl, off + b, rv2[0]))
                continue
        for b, rv in aggs0:
            work.append((name, fn0, b, rv))
    o_cache = {}
    for name, fn, b, rv in work:
        if id(fn) not in o_cache:
            o_cache[id(fn)] = Origins(fn)
        o = o_cache[id(fn)]
        if True:
            n += 1
            la, lb = op_local(rv["ops"][0]), op_local(rv["ops"][1])
            def vec_locals(l):
                # the named vector the operand was moved from
                return util.copies_of(fn, l, allow_not=False) if l is not None else {}
            # walk back through moves to the defining locals
            def roots(l):
                out = {l}
                changed = True
                while changed:
                    changed = False
                    for bb, j, pl, rv2, m in fn.assigns():
                        if pl["l"] in out and not pl["p"] and rv2["k"] == "use":
                            src = op_place(rv2["ops"][0])
                            if src is not None and not src["p"] and src["l"] not in out:
                                out.add(src["l"])
                                changed = True
                return out
            ra, rb = roots(la) if la is not None else set(), roots(lb) if lb is not None else set()
            def pushes_on(rs):
                out = []
                for bb, t in fn.calls():
                    c = callee(t)
                    if c in ("alloc::vec::Vec::push", "alloc::vec::Vec::extend", "alloc::vec::Vec::insert", "alloc::vec::Vec::pop", "alloc::vec::Vec::remove",
                             "alloc::vec::Vec::truncate", "alloc::vec::Vec::clear", "alloc::vec::Vec::retain", "alloc::vec::Vec::append"):
                        a0 = op_local(t["args"][0])
                        if a0 is not None and (set(o.alias[a0]) | {a0}) & rs:
                            out.append((bb, c.split("::")[-1]))
                return out
            pa, pb = pushes_on(ra), pushes_on(rb)
            merges = [bb for bb, t in fn.calls() if callee(t) == MERGE and
                      (set(o.alias[op_local(t["args"][1]) or 0]) | {op_local(t["args"][1])}) & ra and
                      (set(o.alias[op_local(t["args"][2]) or 0]) | {op_local(t["args"][2])}) & rb]
            bad_ops = [x for x in pa + pb if x[1] != "push"]
            paired = True
            for (x, _) in pa:
                if not any((cfg.dominates(fn, x, y) and _postdom(fn, y, x)) or (cfg.dominates(fn, y, x) and _postdom(fn, x, y)) for y, _ in pb):
                    paired = False
            for (y, _) in pb:
                if not any((cfg.dominates(fn, x, y) and _postdom(fn, y, x)) or (cfg.dominates(fn, y, x) and _postdom(fn, x, y)) for x, _ in pa):
                    paired = False
            # start together
            ia = results_in(o.at(rv["ops"][0], b))
            ib = results_in(o.at(rv["ops"][1], b))
            fresh = lambda s: any(c.endswith(("Vec::new", "Vec::with_capacity")) for c in s)
            cloned = lambda s: any(c.endswith("::clone") for c in s)
            start_ok = (fresh(ia) and fresh(ib)) or (cloned(ia) and cloned(ib))
            if cloned(ia) and cloned(ib) and not (fresh(ia) and fresh(ib)):
                fa = {l[1] for l in o.at(rv["ops"][0], b) if l[0] == "field"}
                fb = {l[1] for l in o.at(rv["ops"][1], b) if l[0] == "field"}
                start_ok = ("0" in fa or "flds" in fa) and ("1" in fb or "flds_pos_list" in fb or "pos_list" in fb) or start_ok
            ok = start_ok and paired and not bad_ops and len(pa) == len(pb)
            if not ok and not pa and not pb and not bad_ops:
                # built as a pair by the library: the two halves of one `unzip()` have the same length by construction
                uz_a = {(c, bb) for k_, c, bb in [l for l in o.at(rv["ops"][0], b) if l[0] == "call"] if c.endswith("::unzip")}
                uz_b = {(c, bb) for k_, c, bb in [l for l in o.at(rv["ops"][1], b) if l[0] == "call"] if c.endswith("::unzip")}
                if uz_a and uz_a == uz_b and len(uz_a) == 1:
                    r.inst("%s:%s" % (name.split("::")[-1].rstrip(">"), rv["variant"]), fn.where(b), True, "the two halves of one unzip()")
                    continue
                need(start_ok, "%s: the two vectors of this %s are built in a way this rule does not read (no pushes, not fresh/cloned together)"
                     % (name, rv["variant"]))
            r.inst("%s:%s" % (name.split("::")[-1].rstrip(">"), rv["variant"]), fn.where(b), ok,
                   "%d paired pushes%s" % (len(pa), ", %d merge_field_into_tuple" % len(merges) if merges else "") if ok else
                   "value vector and position vector of this %s are not grown together (pushes %d / %d, other ops %s): an index into the position "
                   "list can be out of bounds" % (rv["variant"], len(pa), len(pb), bad_ops))
    mf = F.fn(MERGE)
    o = Origins(mf)
    ps = [(b, t) for b, t in mf.calls() if callee(t) == "alloc::vec::Vec::push"]
    ok = len(ps) == 2 and {tuple(sorted(l[1] for l in o.at(t["args"][0], b) if l[0] == "param")) for b, t in ps} == {(2,), (3,)} and \
        (cfg.dominates(mf, ps[0][0], ps[1][0]) or cfg.dominates(mf, ps[1][0], ps[0][0]))
    r.inst("merge_field_into_tuple", mf.where(), ok, "pushes onto both vectors together" if ok else "merge_field_into_tuple grows only one of the two vectors")
    return r


# ------------------------------------------------------------------ R83 / R83b
def r83(F):
    r = RuleResult("R83", "closed word sets and the END token",
                   "the words cast_expression accepts are exactly the arms of its match (so its unreachable!() is unreachable); no grammar "
                   "rule matches TokenType::END, so tokenizer::pos always finds a token", floor=2)
    from ..facts import syn_macros
    items = F.syn["parse/mod.rs"]["items"]
    ce = [m for m in syn_macros(items, "make_fn") if m["tokens"][0].get("i") == "cast_expression"]
    need(len(ce) == 1, "cast_expression not found")
    words, arms = [], []
    def scan(toks):
        for i, t in enumerate(toks):
            if t.get("i") == "word" and i + 2 < len(toks) and "g" in toks[i + 2]:
                words.extend(x["s"] for x in toks[i + 2]["t"] if "s" in x)
            if "s" in t and i + 1 < len(toks) and toks[i + 1].get("p") == "=>":
                arms.append(t["s"])
            if "g" in t:
                scan(t["t"])
    scan(ce[0]["tokens"])
    ok = sorted(words) == sorted(arms) and len(words) >= 4
    r.inst("cast_expression:words=arms", "src/parse/mod.rs:%s" % ce[0]["ln"], ok, "words %s = match arms" % sorted(words) if ok else
           "cast_expression accepts %s but its match handles %s: the remaining word reaches unreachable!()" % (sorted(words), sorted(arms)))
    users = []
    for name, fn in F.fns.items():
        if fn.derived or not fn.file.startswith("src/parse/"):
            continue
        for b, j, pl, rv, m in fn.assigns():
            for op in rv.get("ops", ()):
                for c in op.get("promoted") or ():
                    if c.get("agg") == "ucglib::ast::TokenType" and c.get("variant") == "END":
                        users.append(name)
        for b, t in fn.calls():
            for a in t["args"]:
                for c in a.get("promoted") or ():
                    if c.get("agg") == "ucglib::ast::TokenType" and c.get("variant") == "END":
                        users.append(name)
    from .. import flatten as _fl
    users = [_fl.home(F, u, {"ucglib::parse::parse"}) for u in users]      # a piece split off parse() is parse()
    ok = set(users) <= {"ucglib::parse::parse"}
    r.inst("END-never-consumed", "src/parse", ok, "TokenType::END is only inspected by parse() to stop" if ok else "grammar rules match END: %s" % sorted(set(users)))
    tz = F.fn("ucglib::tokenizer::tokenize")
    ends = [b for b, j, pl, rv, m in tz.assigns() if rv["k"] == "agg" and rv.get("adt") == "ucglib::ast::Token"]
    # ... or built through the constructor with the constant type END
    otz = Origins(tz)
    for b, t in tz.calls():
        if callee(t).startswith("ucglib::ast::Token::new") and len(t["args"]) >= 2:
            tl = otz.at(t["args"][1], b)
            kinds = {x[2] for x in tl if x[0] == "agg" and x[1] == "ucglib::ast::TokenType"} | \
                {str(x[2]).split("::")[-1] for x in tl if x[0] == "const" and x[1] == "variant"}
            if kinds == {"END"} and not [x for x in tl if x[0] == "call"]:
                ends.append(b)
    pushes_after = [b for b, t in tz.calls() if callee(t) == "alloc::vec::Vec::push" and any(cfg.dominates(tz, e, b) for e in ends)]
    oks = {b for b, j, pl, rv, m in tz.assigns() if pl["l"] == 0 and not pl["p"] and rv["k"] == "agg" and rv.get("variant") == "Ok"}
    ok = bool(pushes_after) and all(not (cfg.reachable(tz, 0, removed=set(pushes_after)) & oks) for _ in [0])
    r.inst("tokenize:END-always-pushed", tz.where(), ok, "every successful tokenize ends with an END token" if ok else "tokenize can succeed without pushing END")
    return r


# ------------------------------------------------------------------ R97
def r97(F):
    r = RuleResult("R97", "RefCell discipline",
                   "while a Ref / RefMut guard of a cell is alive no call is made that can reach another borrow of the same cell, unless both "
                   "are shared borrows (otherwise RefCell::borrow panics with \"already borrowed\")", floor=20)
    cg = callgraph.get(F)
    BORROWS = ("core::cell::RefCell::borrow", "core::cell::RefCell::borrow_mut")
    # cell type per borrow site
    def cell_ty(fn, t):
        l = op_local(t["args"][0])
        return fn.local_ty(l).replace("&", "").strip() if l is not None else "?"
    direct = {}
    for n, fn in F.fns.items():
        for b, t in fn.calls():
            if callee(t) in BORROWS:
                direct.setdefault(callgraph.parent_of(n), set()).add((cell_ty(fn, t), callee(t).endswith("borrow_mut")))
    # transitive: which (cell, mut) borrows can a function reach
    memo = {}
    def reach_borrows(f):
        if f in memo:
            return memo[f]
        seen = set()
        work = [f]
        out = set()
        while work:
            x = work.pop()
            if x in seen:
                continue
            seen.add(x)
            out |= direct.get(x, set())
            for y in cg.edges.get(x, ()):
                if y not in seen and (y in F.fns or y in cg.edges):
                    work.append(y)
        memo[f] = out
        return out
    def generic_cell(ty):
        # Environment<O, E> cells of different instantiations are the same cell at run time
        return "RefCell<Environment>" if "Environment<" in ty else ty
    n = 0
    for name, fn in sorted(F.fns.items()):
        if fn.derived:
            continue
        sites = [(b, t) for b, t in fn.calls() if callee(t) in BORROWS]
        for b, t in sites:
            n += 1
            outer_mut = callee(t).endswith("borrow_mut")
            cell = generic_cell(cell_ty(fn, t))
            g = t["dest"]["l"]
            holders = set(util.copies_of(fn, g, allow_not=False))
            # anything derived from the guard keeps it alive until the guard local is dropped
            drops = {bb for bb in range(len(fn.blocks)) if fn.term(bb)["k"] == "drop" and fn.term(bb)["place"]["l"] in holders and not fn.term(bb)["place"]["p"]}
            if t.get("t") is None:
                continue
            live = cfg.reachable(fn, t["t"], removed=drops)
            conflicts = []
            for bb in live:
                tt = fn.term(bb)
                if tt["k"] != "call" or bb == b:
                    continue
                for tgt in cg.targets(tt):
                    if tgt in BORROWS:
                        c2 = generic_cell(cell_ty(fn, tt))
                        m2 = tgt.endswith("borrow_mut")
                        if c2 == cell and (outer_mut or m2):
                            conflicts.append("%s at %s" % (tgt.split("::")[-1], fn.where(bb)))
                    elif tgt in F.fns or tgt in cg.edges:
                        for c2, m2 in reach_borrows(callgraph.parent_of(tgt)):
                            if generic_cell(c2) == cell and (outer_mut or m2):
                                conflicts.append("%s via %s" % ("borrow_mut" if m2 else "borrow", tgt.split("::")[-1]))
            r.inst("%s:%s" % (name.split("::")[-1].rstrip(">"), "borrow_mut" if outer_mut else "borrow"), fn.where(b), not conflicts,
                   "no conflicting borrow while the guard lives (%d blocks)" % len(live) if not conflicts else
                   "while this %s guard is alive the code can reach %s: RefCell panics" % ("RefMut" if outer_mut else "Ref", sorted(set(conflicts))[:3]))
    return r


# ------------------------------------------------------------------ R76 R77 R78
def r76(F):
    r = RuleResult("R76", "the grammar makes progress",
                   "the body of every repeat! and item+separator of every separated! is non-nullable (abortable_parser's repeat! has no "
                   "no-progress guard); no rule can re-enter itself before a token was consumed (no left recursion); every statement "
                   "alternative consumes a token; the hand-written loops advance their iterator before each back edge", floor=60)
    from .. import grammar as G
    util.need_parser_crate(F)
    rules = G.full_grammar(F)
    memo = {}
    nrep = 0
    for name, (term, ln) in sorted(rules.items()):
        def visit(t, name=name, ln=ln):
            nonlocal nrep
            if t[0] == "rep":
                nrep += 1
                ok = not G.nullable(t[1], rules, memo)
                r.inst("repeat:%s" % name, "src/parse/mod.rs:%s" % ln, ok, "body %s consumes a token" % G.show(t[1])[:60] if ok else
                       "repeat!(%s) in %s has a body that can succeed without consuming input: the parser loops forever" % (G.show(t[1])[:60], name))
            if t[0] == "sep":
                nrep += 1
                ok = not (G.nullable(t[1], rules, memo) and G.nullable(t[2], rules, memo)) and not G.nullable(t[2], rules, memo)
                r.inst("separated:%s" % name, "src/parse/mod.rs:%s" % ln, ok, "item %s consumes a token" % G.show(t[2])[:60] if ok else
                       "separated! in %s has a nullable item: the tail repeat loops forever" % name)
        G.walk(term, visit)
    # left recursion: cycle in the first-position graph
    first = {n: {x for x in G.first_refs(t, rules, memo) if x in rules} for n, (t, ln) in rules.items()}
    def cyc(n):
        seen, work = set(), list(first[n])
        while work:
            x = work.pop()
            if x == n:
                return True
            if x in seen:
                continue
            seen.add(x)
            work.extend(first.get(x, ()))
        return False
    for n in sorted(rules):
        ok = not cyc(n)
        r.inst("left-recursion:%s" % n, "src/parse/mod.rs:%s" % rules[n][1], ok, "re-entry only after a token (first rules: %s)" % sorted(first[n])[:4] if ok else
               "rule %s can reach itself at a first position: unbounded recursion without consuming input (stack overflow)" % n)
    st = rules["statement"][0]
    need(st[0] == "alt", "statement is not an alternation")
    for alt in st[1]:
        ok = not G.nullable(alt, rules, memo)
        r.inst("statement:%s" % G.show(alt), "src/parse/mod.rs:%s" % rules["statement"][1], ok, "consumes a token" if ok else "a statement alternative matches the empty input: parse() never ends")
    # hand-written loops: parse_operand_list and parse_op advance before each back edge
    for fname, adv in (("ucglib::parse::precedence::parse_operand_list", ("ucglib::parse::non_op_expression",)),
                       # the inner loop advances through the recursive call: it is entered with level(lookahead) as its minimum,
                       # so its own outer loop runs at least once and consumes the operator with next() (R6)
                       ("ucglib::parse::precedence::parse_op", ("::next", "ucglib::parse::precedence::parse_op")),
                       ("ucglib::parse::parse", ("ucglib::parse::statement",))):
        fn = F.fn(fname)
        loops = cfg.natural_loops(fn)
        need(loops, "no loop in %s" % fname)
        for h, body in sorted(loops.items()):
            advs = {b for b in body if fn.term(b)["k"] == "call" and (callee(fn.term(b)).endswith(adv) or callee(fn.term(b)) in adv)}
            back = [a for a, hh in cfg.back_edges(fn) if hh == h]
            ok = bool(advs) and all(a not in cfg.reachable(fn, h, removed=advs, edge_ok=lambda x, y: y in body) or a in advs for a in back)
            r.inst("loop:%s" % fname.split("::")[-1], fn.where(h), ok, "every iteration passes %s" % adv[0].split("::")[-1] if ok else "a loop iteration of %s can repeat without consuming input" % fname.split("::")[-1])
    r.note("%d rules, %d repetitions" % (len(rules), nrep))
    return r


def r77(F):
    r = RuleResult("R77", "the tokenizer makes progress",
                   "every recogniser tried by `token` except end_of_input consumes input whenever it succeeds (macro-made recognisers: "
                   "nullable analysis of their combinator term, with the library character classes as terminals and the peek+repeat "
                   "idiom; hand-written ones: every path to a Complete result passes a consuming edge), and tokenize leaves its loop at "
                   "end of input before calling token: at most len(input) iterations", floor=55)
    from .c11 import recognisers, TK
    from .. import grammar as G
    util.need_parser_crate(F)
    rec = recognisers(F)
    rules = G.extract(F, "tokenizer/mod.rs")
    LIB_TERMINALS = ("ascii_ws", "ascii_digit", "ascii_alpha", "ascii_alphanumeric")
    # hand-written recognisers by the MIR path rule
    CONSUME = ("OffsetStrIter<'a> as core::iter::traits::iterator::Iterator>::next",)
    def mir_consumes(name):
        fn = F.fn(TK + name)
        o = Origins(fn)
        completes = {b for b, j, pl, rv, m in fn.assigns() if pl["l"] == 0 and not pl["p"] and rv["k"] == "agg" and rv.get("variant") == "Complete"}
        cons = set()
        for b, t in fn.calls():
            if callee(t).endswith(CONSUME):
                # consumed on the Some edge of next()
                for sb, st in util.enum_switches(fn, t["dest"]["l"]):
                    cons.add(cfg.switch_edge(st, variant="Some"))
        for b, j, pl, rv, m in fn.assigns():
            if rv["k"] == "bin" and rv["op"] == "Eq" and rv["ty"] == "usize":
                for side in rv["ops"]:
                    labs = o.at(side, b)
                    lits = [l[2] for l in labs if l[0] == "const" and l[1] == "str"]
                    if any(c.endswith("<impl str>::len") for c in results_in(labs)) and lits and all(len(x) > 0 for x in lits):
                        for sb, ft, tt in util.bool_switches(fn, pl["l"]):
                            cons.add(tt)
        return bool(completes) and not (cfg.reachable_ps(fn, 0, removed=cons) & completes)
    hand = {}
    for h in ("escapequoted", "is_symbol_char", "comment"):
        need(TK + h in F.fns, "hand-written recogniser %s not found" % h)
        hand[h] = mir_consumes(h)
    # escapequoted may complete on an empty string literal (""): it is only used after the opening quote
    memo = {}
    class _R(dict):
        pass
    env = dict(rules)
    for lt in LIB_TERMINALS:
        env[lt] = (("tok", "class", lt), 0)
    for h, v in hand.items():
        if h not in env:
            env[h] = ((("tok", "hand", h) if v else ("eps",)), 0)
    for n, k, l, w in rec:
        if n == "end_of_input":
            r.inst("recogniser:%s" % n, "src/tokenizer/mod.rs", True, "matches only at the end of input, where tokenize has already left its loop", nontrivial=False)
            continue
        if n in rules and n not in hand:
            ok = not G.nullable(rules[n][0], env, memo)
            r.inst("recogniser:%s" % n, F.fn(TK + n).where(), ok, "%s consumes" % G.show(rules[n][0])[:70] if ok else
                   "%s := %s can succeed without consuming input: tokenize would loop forever" % (n, G.show(rules[n][0])[:70]))
        else:
            ok = hand.get(n, False) if n in hand else mir_consumes(n)
            r.inst("recogniser:%s" % n, F.fn(TK + n).where(), ok, "every Complete path passes a consuming edge" if ok else
                   "%s can succeed without consuming input: tokenize would loop forever" % n)
    isc = F.fn(TK + "is_symbol_char")
    cs = {callee(t) for b, t in isc.calls()}
    ok = any(c.endswith("is_ascii_alphanumeric") for c in cs)
    r.inst("peek-subset:ascii_alpha<=is_symbol_char", isc.where(), ok, "is_symbol_char accepts every ASCII letter" if ok else "is_symbol_char no longer accepts all letters: barewordtok can succeed on nothing")
    tz = F.fn(TK + "tokenize", flat=True)      # `token` may be called from a helper that produces the next token
    loops = cfg.natural_loops(tz)
    need(len(loops) >= 1, "no loop in tokenize")
    h, body = max(loops.items(), key=lambda x: len(x[1]))
    eoi = [b for b in body if tz.term(b)["k"] == "call" and callee(tz.term(b)).endswith("combinators::eoi")]
    tok = [b for b in body if tz.term(b)["k"] == "call" and callee(tz.term(b)) == TK + "token"]
    ok = bool(eoi) and bool(tok) and all(cfg.dominates(tz, eoi[0], t) for t in tok)
    r.inst("tokenize:eoi-before-token", tz.where(h), ok, "end of input is tested before each token" if ok else "token is called without testing for end of input")
    return r


def r78(F):
    r = RuleResult("R78", "jumps only go forward",
                   "every jump-carrying opcode is built at a patch site of the translator (offset = len_b - len_a >= 0, R3) or with a "
                   "non-negative constant; op_jump only adds; OpPointer::jump is only called with the current index or through op_jump: "
                   "within one VM::run the pointer strictly increases between fetches", floor=10)
    JUMPS = ("Jump", "JumpIfTrue", "JumpIfFalse", "SelectJump", "And", "Or", "Func", "Module", "InitThunk", "NewScope")
    from .. import flatten
    te = F.fn(TR.T + "translate_expr")
    lin = Linear(te)
    patch = {rp["bb"] for rp in TR.replaces(te)}
    for name, fn in sorted(F.fns.items()):
        if fn.derived:
            continue
        for b, j, pl, rv, m in fn.assigns():
            if rv["k"] == "agg" and rv.get("adt") == TR.OP and rv.get("variant") in JUMPS:
                op = rv["ops"][0]
                if "int" in op:
                    ok = int(op["int"]) >= 0
                    r.inst("%s:%s:const" % (name.split("::")[-1], rv["variant"]), fn.where(b), ok, "constant offset %s" % op["int"] if ok else "negative jump offset %s: the VM loops" % op["int"])
                elif name == te.name or (name.startswith(TR.T) and flatten.sole_caller(F, name) == te.name):
                    # feeds a replace (a piece of translate_expr moved into a private helper is held to the same: within the helper)
                    view = te if name == te.name else fn
                    feeds = any(TR.agg_def(view, op_local(rp["term"]["args"][2]), rp["bb"]) is rv or (rp["agg"] is rv) for rp in TR.replaces(view))
                    r.inst("%s:%s:patched" % (te.name.split("::")[-1], rv["variant"]), fn.where(b), feeds, "offset computed at a patch site (R3: len_b - len_a)" if feeds else "jump opcode built outside a patch site")
                elif name.startswith("<ucglib::build::opcode::Op as") or name.startswith("ucglib::build::opcode::debug") or name.startswith("ucglib::build::opcode::display"):
                    continue
                else:
                    r.inst("%s:%s" % (name.split("::")[-1], rv["variant"]), fn.where(b), False, "jump-carrying opcode built with a computed offset outside the translator's patch sites")
    cg = callgraph.get(F)
    callers = cg.callers("ucglib::build::opcode::pointer::OpPointer::jump")
    allowed = {VM + "op_jump", VM + "op_func", VM + "op_module", VM + "op_copy"}
    # a piece split off one of these handlers (a private helper whose only caller is the handler) is still that handler
    from .. import flatten

    def home(c):
        cur = c
        for _ in range(3):
            if cur in allowed:
                return cur
            if "::{closure" in cur:
                cur = cur[:cur.index("::{closure")]
                continue
            up = flatten.sole_caller(F, cur)
            if up is None:
                break
            cur = up
        return cur
    callers = sorted({home(c) for c in callers})
    ok = set(callers) <= allowed
    r.inst("OpPointer::jump:callers", "src/build/opcode", ok, "called only by %s" % sorted(x.split("::")[-1] for x in callers) if ok else "OpPointer::jump called from %s" % sorted(set(callers) - allowed))
    for h in ("op_func", "op_module"):
        fn = F.fn(VM + h)
        o = Origins(fn)
        for b, t in fn.calls():
            if callee(t).endswith("OpPointer::jump"):
                labs = o.at(t["args"][1], b)
                ok = ("param", 2) in labs and not [l for l in labs if l[0] == "bin"]
                r.inst("%s:jump-to-current" % h, fn.where(b), ok, "jumps a cloned pointer to the current index" if ok else "%s jumps to a computed index" % h)
    return r


def lsp_entries(F):
    names = ["ucglib::lsp::run_server", "ucglib::lsp::main_loop", "ucglib::lsp::handle_request", "ucglib::lsp::handle_notification",
             "ucglib::lsp::analysis::analyze"]
    names += [n for n in F.fns if n.startswith("ucglib::lsp::workspace::WorkspaceIndex::") and n.split("::")[-1] in ("index_all", "update_from_content", "update_from_disk")]
    for n in names:
        need(n in F.fns, "lsp entry point %s not found" % n)
    return names



# ------------------------------------------------------------------ R98 recursion through a name table
LOOKUP_PASS = ("::clone", "::cloned", "::as_ref", "::unwrap", "::deref", "::borrow", "::as_deref", "::copied", "::unwrap_or_default",
               "Box::new", "Rc::new")
SEARCHES = ("find", "any", "position", "contains", "contains_key", "binary_search", "get")
MARKS = ("alloc::vec::Vec::push", "BTreeSet::insert", "HashSet::insert", "BTreeMap::insert", "HashMap::insert")


def _lookup_taint(fn):
    """locals holding (a copy, clone, reference or payload of) the result of a map lookup by key"""
    T = {}
    for b, t in fn.calls():
        c = callee(t)
        if c.endswith("::get") and ("BTreeMap" in c or "HashMap" in c):
            T[t["dest"]["l"]] = b
    changed = True
    while changed:
        changed = False
        for b, j, pl, rv, m in fn.assigns():
            if pl["l"] in T:
                continue
            src = None
            if rv["k"] in ("use", "cast"):
                p = op_place(rv["ops"][0])
                src = p["l"] if p else None
            elif rv["k"] in ("ref", "rawptr"):
                src = rv["place"]["l"]
            if src in T:
                T[pl["l"]] = T[src]
                changed = True
        for b, t in fn.calls():
            if t["dest"]["l"] in T or not t["args"]:
                continue
            if any(callee(t).endswith(x) for x in LOOKUP_PASS):
                p = op_place(t["args"][0])
                if p and p["l"] in T:
                    T[t["dest"]["l"]] = T[p["l"]]
                    changed = True
    return T


def r98(F):
    r = RuleResult("R98", "recursion that follows a name through a table is cut before it descends",
                   "for every recursive call (caller and callee in one cycle of the call graph, reachable from an entry point) that is "
                   "handed a value looked up by name in a map: an in-progress mark (push/insert into a collection that the function also "
                   "searches first) dominates the call, so a cyclic name graph (mutually recursive constraints) cannot recurse forever; "
                   "recursion on sub-parts of finite values needs no mark and is not examined", floor=1, exhaustive=True)
    CG = callgraph.get(F)
    reach = {n for n in CG.reachable_from(entries(F)) if n in F.fns}
    comps = callgraph.recursive_sccs(CG, reach)
    r.note("%d recursive cycles among %d reachable functions" % (len(comps), len(reach)))
    for comp in comps:
        cs = set(comp)
        for n in comp:
            for fnn in F.with_closures(n):
                fn = F.fns[fnn] if isinstance(fnn, str) else fnn
                T = None
                for b, t in fn.calls():
                    if not (set(CG.targets(t)) & cs):
                        continue
                    if T is None:
                        T = _lookup_taint(fn)
                    hit = [ai for ai, a in enumerate(t["args"]) if op_place(a) is not None and op_place(a)["l"] in T]
                    if not hit:
                        continue
                    lb = T[op_place(t["args"][hit[0]])["l"]]
                    marks = [mb for mb, mt in fn.calls() if any(callee(mt).endswith(x) or x in callee(mt) for x in MARKS)
                             and mb != b and cfg.dominates(fn, mb, b)]
                    searches = [sb for sb, st in fn.calls() if callee(st).split("::")[-1] in SEARCHES and sb != lb]
                    ok = any(any(cfg.dominates(fn, sb, mb) for sb in searches) for mb in marks)
                    short = fn.name.split("::")[-1]
                    ord_ = sum(1 for i in r.instances if i["key"].startswith("R98:%s->" % short))
                    r.inst("%s->%s:#%d" % (short, callee(t).split("::")[-1], ord_), fn.where(b), ok,
                           "the looked-up value (%s) is descended into only after an in-progress mark at %s" % (fn.where(lb), fn.where(marks[0])) if ok else
                           "%s recurses into a value looked up by name (%s) and records the visit only afterwards (or never): names that refer "
                           "to each other recurse until the stack overflows" % (short, fn.where(lb)))
    # the in-progress marks only work if every recursive call of such a cycle hands on the one memo it was given: a fresh memo at
    # some boundary hides the marks of the outer levels
    for comp in comps:
        cs = set(comp)
        members = [F.fns[n] for n in comp]
        marked = any(i["key"].startswith("R98:%s->" % m.name.split("::")[-1]) for m in members for i in r.instances)
        if not marked:
            continue
        for fn in members:
            memo_params = [k for k in range(1, fn.nargs + 1) if fn.local_ty(k).startswith("&mut alloc::vec::Vec<(")]
            if not memo_params:
                continue
            mty = fn.local_ty(memo_params[0])
            o = None
            for b, t in fn.calls():
                if not (set(CG.targets(t)) & cs):
                    continue
                for ai, a in enumerate(t["args"]):
                    l = op_local(a)
                    if l is None or fn.local_ty(l) != mty:
                        continue
                    o = o or Origins(fn)
                    labs = o.at(a, b)
                    ok = any(x == ("param", memo_params[0]) for x in labs) and not any(x[0] == "call" and x[1].endswith("Vec::new") for x in labs)
                    short = fn.name.split("::")[-1]
                    ordn = sum(1 for i in r.instances if i["key"].startswith("R98:memo:%s->" % short))
                    r.inst("memo:%s->%s:#%d" % (short, callee(t).split("::")[-1], ordn), fn.where(b), ok,
                           "the memo handed in is handed on" if ok else
                           "%s starts this recursive call with a memo of its own: the in-progress marks of the enclosing calls are not "
                           "visible below it and mutually recursive constraints recurse forever again" % short)
    return r


# ------------------------------------------------------------------ R13p printer indentation
def r13p(F):
    from .c05 import arm_sentences
    from .. import printer
    r = RuleResult("R13p", "printer indentation never goes below the level it started at",
                   "`curr_indent -= indent_size` is a usize subtraction; by abstract interpretation of every render arm (all node shapes, "
                   "every layout decision, printer helper methods interpreted in place with their &mut flags) the running balance of "
                   "`+=`/`-=` on curr_indent never drops below the arm's entry level (this backs the class `balanced` of the R13 table)",
                   floor=32, exhaustive=True)
    for enum, fnm in (("Expression", "render_expr"), ("Statement", "render_stmt"), ("Value", "render_value")):
        for v, (sents, ln, runs, unknown, bound, underflows) in sorted(arm_sentences(F, fnm).items()):
            need(not unknown or underflows, "%s::%s: the printer arm uses constructs the interpreter does not model: %s" % (enum, v, unknown))
            ok = not underflows and not unknown
            r.inst("%s::%s" % (enum, v), "src/ast/printer/mod.rs:%d" % ln, ok,
                   "balance stays >= 0 on all %d explored paths" % runs if ok else
                   ("the arm uses constructs the interpreter does not model: %s" % unknown if unknown else
                    "on the path writing `%s` the `curr_indent -= indent_size` at line %s undoes an indent that was never made: "
                    "usize underflow (panic in dev builds, a huge indent otherwise)" % (printer.show_syms(underflows[0][1]), underflows[0][0])))
    return r


# ------------------------------------------------------------------ R81c consistent stack effect of a handler
STACK_EFFECT_BY_DESIGN = {
    "op_and": "short circuit: a false left operand stays on the stack and the right operand is jumped over",
    "op_or": "short circuit: a true left operand stays on the stack and the right operand is jumped over",
    "op_select_jump": "a matching field consumes the selector value too, a non-matching one keeps it for the next comparison",
    "op_module": "the optional out-expression pointer of the module is an operand only when the module has one",
}


def _stack_effects(F):
    """{function: set of possible (pushes - pops) on its Ok paths | None when not analysable (stack traffic inside a loop)}"""
    VMP = VM
    memo = {}

    def summary(n, stack=()):
        if n in memo:
            return memo[n]
        if n in stack:
            return None
        fn = F.fns[n]
        S = cfg.succs(fn)
        loops = cfg.natural_loops(fn)
        back = set(cfg.back_edges(fn))
        inloop = set().union(*loops.values()) if loops else set()
        unknown = False

        def delta(b):
            t = fn.term(b)
            if t["k"] != "call":
                return {0}
            c = callee(t)
            if c == VMP + "push":
                return {1}
            if c == VMP + "pop":
                return {-1}
            if c.startswith(VMP) and c in F.fns and c != n:
                return summary(c, stack + (n,))
            return {0}
        inset = {0: {0}}
        for b in cfg.rpo(fn):
            if b not in inset:
                continue
            dl = delta(b)
            if dl is None:
                unknown = True
                dl = {0}
            if b in inloop and dl != {0}:
                unknown = True
            out = {x + y for x in inset[b] for y in dl}
            if len(out) > 12:
                unknown = True
            for nx in S[b]:
                if (b, nx) not in back:
                    inset.setdefault(nx, set()).update(out)
        res = set()
        for b, j, pl, rv, m in fn.assigns():
            if pl["l"] == 0 and not pl["p"] and rv["k"] == "agg" and rv.get("variant") == "Ok":
                res |= inset.get(b, set())
        for b, t in fn.calls():
            if t["dest"]["l"] == 0 and not t["dest"]["p"] and callee(t).startswith(VMP):
                dl = delta(b)
                if dl is None:
                    unknown = True
                else:
                    res |= {x + y for x in inset.get(b, set()) for y in dl}
        memo[n] = None if unknown else res
        return memo[n]
    out = {}
    for n in sorted(F.fns):
        if n.startswith(VMP) and "{closure" not in n and not F.fns[n].derived:
            out[n] = summary(n)
    return out


def r81c(F):
    r = RuleResult("R81c", "every successful path of a VM handler leaves the same number of values",
                   "for each VM::op_* handler and the helpers it calls: pushes minus pops (VM::push / VM::pop, summaries of callees "
                   "included) is the same on every path that returns Ok -- a path that returns Ok without the push its siblings make "
                   "leaves the next opcode to pop a value that is not there (the unreachable!() in VM::pop).  Handlers whose paths "
                   "differ by design are listed by name with the reason; handlers with stack traffic inside a loop are not decided",
                   floor=25, exhaustive=True)
    fx = _stack_effects(F)
    undecided = []
    for n, s in sorted(fx.items()):
        short = n.split("::")[-1]
        if not (short.startswith("op_") or short.startswith("do_")):
            continue
        if s is None:
            undecided.append(short)
            continue
        if not s:
            continue
        if short in STACK_EFFECT_BY_DESIGN:
            r.inst(short, F.fns[n].where(), True, "effects %s by design: %s" % (sorted(s), STACK_EFFECT_BY_DESIGN[short]), nontrivial=False)
            continue
        ok = len(s) == 1
        r.inst(short, F.fns[n].where(), ok, "net effect %+d on every Ok path" % next(iter(s)) if ok else
               "%s returns Ok with net stack effects %s on different paths: on the path that pushes less, the opcode that follows pops "
               "the wrong value or hits unreachable!() in VM::pop (`int([1])`)" % (short, sorted(s)))
    r.note("not decided (stack traffic inside a loop): %s" % ", ".join(undecided))
    return r


# ------------------------------------------------------------------ R76x re-parsing of nested constructs
def r76x(F):
    from collections import Counter
    from .. import grammar
    r = RuleResult("R76x", "a nested construct is parsed once per position",
                   "the alternatives the parser tries at one position (expression -> op_expression | non_op_expression -> range_expression "
                   "| grouped_expression | ...) enter each bracketed construct (grouped expression, list, tuple) at most once: every "
                   "alternative that starts by parsing the construct and then fails on what follows makes the next alternative parse it "
                   "again, and the construct contains an expression -- m entries per position mean m^depth parses of the innermost one "
                   "(R76 shows progress, this rule bounds the work)", floor=3, exhaustive=True)
    G = grammar.full_grammar(F)

    def first_calls(term, stack=()):
        k = term[0]
        c = Counter()
        if k == "ref":
            n = term[1]
            c[n] += 1
            if n in G and n not in stack and len(stack) < 60:
                c += first_calls(G[n][0], stack + (n,))
            return c
        if k == "seq":
            for b, t in term[1]:
                if t[0] in ("eps", "peek"):
                    continue
                c += first_calls(t, stack)
                if not grammar.nullable(t, G, {}):
                    break
            return c
        if k == "alt":
            for t in term[1]:
                c += first_calls(t, stack)
            return c
        if k in ("opt", "rep", "rep1"):
            return first_calls(term[1], stack)
        if k == "sep":
            return first_calls(term[2], stack)
        return c
    need("expression" in G, "grammar has no rule `expression`")
    c = first_calls(("ref", "expression"))
    # bracketed constructs: rules whose body is an opening token followed (somewhere) by an expression
    containers = []
    for n, (term, ln) in G.items():
        if term[0] != "seq":
            continue
        steps = [t for b, t in term[1] if t[0] not in ("eps", "peek")]
        if not steps or steps[0][0] != "tok" or steps[0][2] not in ("(", "[", "{"):
            continue
        refs = []
        grammar.walk(term, lambda t: refs.append(t[1]) if t[0] == "ref" else None)
        if any(x in ("expression", "field_list", "statement") for x in refs):
            containers.append(n)
    need(len(containers) >= 3, "bracketed constructs not found in the grammar (%s)" % containers)
    for n in sorted(containers):
        m = c.get(n, 0)
        if m == 0:
            continue
        r.inst("entries:%s" % n, "src/parse/mod.rs:%s" % G[n][1], m <= 1,
               "entered once per position" if m <= 1 else
               "`%s` can be entered %d times at one position of one `expression` call (op_expression then non_op_expression, "
               "range_expression then the construct itself): parse time grows like %d^depth -- ten nested parentheses take a minute"
               % (n, m, m))
    return r


RULES = [r13, r13p, r80, r81c, r82, r83, r97, r76, r76x, r77, r78, r98]
