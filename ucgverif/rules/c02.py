"""C02 — operator chains group by the published precedence table, left to right.  R5 R6 R7 R8 R9."""
from .. import cfg, util, docs, translator as TR
from ..core import RuleResult, need, AnchorError
from ..facts import callee, op_local, op_place, syn_macros, syn_walk, syn_fn
from ..origins import Origins, calls_in

BET = "ucglib::ast::BinaryExprType"
P = "ucglib::parse::precedence::"
ALIASES = {"=~": "~"}   # the reference spells regex match `=~`, the tokenizer only knows `~`


def recogniser_table(F):
    """{spelling: variant} from the operator recognisers of parse/precedence.rs (syntax tree)"""
    out = {}
    items = F.syn["parse/precedence.rs"]["items"]
    for m in syn_macros(items, "make_fn"):
        def walk(toks):
            # inside one do_each!( _ => punct!("x"), (Element::Op(BinaryExprType::V)) )
            lit = None
            for i, tk in enumerate(toks):
                if tk.get("i") in ("punct", "word") and i + 2 < len(toks) and toks[i + 1].get("p") == "!" and "g" in toks[i + 2]:
                    ls = [x.get("s") for x in toks[i + 2]["t"] if "s" in x]
                    if ls:
                        lit = ls[0]
            def find_variant(ts):
                for i, tk in enumerate(ts):
                    if tk.get("i") == "BinaryExprType" and i + 2 < len(ts) and ts[i + 1].get("p") == "::" and "i" in ts[i + 2]:
                        return ts[i + 2]["i"]
                    if "g" in tk:
                        v = find_variant(tk["t"])
                        if v:
                            return v
                return None
            if lit is not None:
                v = find_variant(toks)
                if v:
                    out[lit] = v
                    return
            for tk in toks:
                if "g" in tk:
                    # descend into either!( do_each!(..), .. ) groups
                    if any(x.get("i") == "do_each" for x in tk["t"]) or any(x.get("i") in ("punct", "word") for x in tk["t"]):
                        # split on do_each occurrences
                        ts = tk["t"]
                        idx = [i for i, x in enumerate(ts) if x.get("i") == "do_each"]
                        if idx:
                            for i in idx:
                                if i + 2 < len(ts) and "g" in ts[i + 2]:
                                    walk(ts[i + 2]["t"])
                        else:
                            walk(ts)
                    else:
                        walk(tk["t"])
        walk(m["tokens"])
    return out


def code_levels(F):
    fn = F.fn(BET + "::precedence_level")
    sw = [(b, fn.term(b)) for b in range(len(fn.blocks)) if fn.term(b)["k"] == "switch" and fn.term(b).get("enum") == BET]
    need(len(sw) == 1, "precedence_level does not match on self exactly once")
    sb, st = sw[0]
    out = {}
    for v in st["all_variants"]:
        e = cfg.switch_edge(st, variant=v)
        vals = set()
        for b in cfg.reachable(fn, e):
            for s in fn.stmts(b):
                if s[0] == "assign" and s[1]["l"] == 0 and not s[1]["p"] and s[2]["k"] == "use" and "int" in s[2]["ops"][0]:
                    vals.add(int(s[2]["ops"][0]["int"]))
        need(len(vals) == 1, "precedence_level(%s) is not a single constant: %s" % (v, vals))
        out[v] = vals.pop()
    wild = st["otherwise"] in [cfg.switch_edge(st, variant=v) for v in st["all_variants"] if v not in [x.get("variant") for x in st["targets"]]]
    return out, fn


def r5(F):
    r = RuleResult("R5", "code precedence table = reference table",
                   "operator by operator, BinaryExprType::precedence_level equals the row of the table in expressions.md "
                   "(spelling -> variant taken from the parser's own recognisers)", floor=18, exhaustive=True)
    levels, fn = code_levels(F)
    rec = recogniser_table(F)
    need(len(rec) >= 18, "operator recognisers not found in parse/precedence.rs (%d)" % len(rec))
    table = docs.precedence_table(F.repo)
    seen = set()
    for op, lvl in table:
        sp = ALIASES.get(op, op)
        v = rec.get(sp)
        if v is None:
            r.inst("row:%s" % op, "docsite/site/content/reference/expressions.md", False, "documented operator `%s` has no recogniser in the parser" % op)
            continue
        seen.add(v)
        ok = levels.get(v) == lvl
        r.inst("row:%s" % op, fn.where(), ok, "%s (%s): level %d" % (op, v, lvl) if ok else
               "`%s` (%s): code says %s, the reference says %d: chains mixing it with its neighbours group differently from the documentation" % (op, v, levels.get(v), lvl))
    for v in sorted(set(levels) - seen):
        r.inst("variant:%s" % v, fn.where(), False, "operator %s has a precedence level (%d) but no row in the reference table" % (v, levels[v]))
    return r


def _ref_target(fn, operand):
    """`&_y` -> y for an operand whose local is assigned a single shared reference"""
    l = op_local(operand)
    if l is None:
        return None
    ds = [(b, rv) for b, j, pl, rv, m in fn.assigns() if pl["l"] == l and not pl["p"]]
    if len(ds) == 1 and ds[0][1]["k"] == "ref" and not ds[0][1]["place"]["p"]:
        return ds[0][1]["place"]["l"]
    return None


def r6(F):
    r = RuleResult("R6", "climbing comparisons",
                   "parse_op continues on level(lookahead) >= min_precedence, recurses on level(lookahead) > level(op) (strict: equal "
                   "levels group left to right) with a minimum above level(op); parse_precedence starts at 0", floor=4)
    fn = F.fn(P + "parse_op")
    names = fn.var_names()
    def named(l):
        return names.get(l, set())
    pl_calls = {}
    for b, t in fn.calls():
        if callee(t) == BET + "::precedence_level":
            tgt = _ref_target(fn, t["args"][0])
            pl_calls[t["dest"]["l"]] = (b, tgt, named(tgt) if tgt is not None else set())
    need(len(pl_calls) >= 2, "precedence_level calls not found in parse_op (%d)" % len(pl_calls))
    # a level hoisted into a local (`let op_level = op.precedence_level();`) is still that level
    for l0 in list(pl_calls):
        for c in util.copies_of(fn, l0, allow_not=False):
            pl_calls.setdefault(c, pl_calls[l0])
    cmps = []
    for b, j, pl, rv, m in fn.assigns():
        if rv["k"] == "bin" and rv["op"] in ("Gt", "Ge", "Lt", "Le", "Eq", "Ne") and rv["ty"] == "u32":
            a, c = rv["ops"]
            cmps.append((b, pl["l"], rv["op"], a, c))
    def side(opnd):
        l = op_local(opnd)
        if l in pl_calls:
            return ("level", pl_calls[l][2])
        if l is not None and (l == 3 or "min_precedence" in named(l) or 3 in util.copies_of(fn, 3, allow_not=False) and l in util.copies_of(fn, 3, allow_not=False)):
            return ("min",)
        return ("other",)
    outer = inner = None
    for b, dest, op, a, c in cmps:
        sa, sc = side(a), side(c)
        # normalise to (lookahead <op> other)
        if sa[0] == "level" and "lookahead_op" in sa[1]:
            lhs, rhs, nop = sa, sc, op
        elif sc[0] == "level" and "lookahead_op" in sc[1]:
            lhs, rhs, nop = sc, sa, {"Gt": "Lt", "Lt": "Gt", "Ge": "Le", "Le": "Ge"}.get(op, op)
        else:
            continue
        if rhs[0] == "min":
            outer = (b, dest, nop)
        elif rhs[0] == "level" and "op" in rhs[1]:
            inner = (b, dest, nop)
    if outer is None or inner is None:
        raise AnchorError("the two precedence comparisons of parse_op were not recognised (outer: %s, inner: %s; comparisons: %s)" % (outer, inner, [(c[2]) for c in cmps]))
    b, dest, op = outer
    ok = op == "Ge"
    r.inst("parse_op:outer", fn.where(b), ok, "continues while level(lookahead) >= min_precedence" if ok else
           "outer comparison is `%s`: an operator exactly at the minimum level is %s" % (op, "skipped" if op == "Gt" else "mishandled"))
    # its true edge leads into the body (Binary aggregate), the false edge leaves
    binaggs = [bb for bb, j, pl, rv, m in fn.assigns() if rv["k"] == "agg" and rv.get("adt") == "ucglib::ast::BinaryOpDef"]
    need(binaggs, "BinaryOpDef is not built in parse_op")
    sws = util.bool_switches(fn, dest)
    need(sws, "outer comparison result is not tested")
    okp = all(cfg.dominates(fn, tt, binaggs[0]) for sb, ft, tt in sws)
    r.inst("parse_op:outer-polarity", fn.where(sws[0][0]), okp, "true edge builds the binary node" if okp else "outer loop polarity inverted")
    b, dest, op = inner
    ok = op == "Gt"
    r.inst("parse_op:inner", fn.where(b), ok, "recurses only while level(lookahead) > level(op) (strict)" if ok else
           "inner comparison is `%s`: operators of equal level recurse to the right, so `a - b - c` groups as a - (b - c)" % op)
    rec = [(bb, t) for bb, t in fn.calls() if callee(t) == P + "parse_op"]
    need(len(rec) == 1, "recursive call not found in parse_op")
    rb, rt = rec[0]
    sws = util.bool_switches(fn, dest)
    need(sws, "inner comparison result is not tested")
    okp = all(cfg.dominates(fn, tt, rb) for sb, ft, tt in sws)
    r.inst("parse_op:inner-polarity", fn.where(sws[0][0]), okp, "true edge recurses" if okp else "inner loop polarity inverted")
    # the recursive minimum
    a3 = rt["args"][2]
    l = op_local(a3)
    okm = False
    how = "?"
    if l in pl_calls and "lookahead_op" in pl_calls[l][2]:
        okm = True      # level(lookahead) > level(op) holds on this edge
        how = "level(lookahead)"
    else:
        o = Origins(fn)
        labs = o.at(a3, rb)
        if ("bin", "Add") in labs or ("bin", "AddWithOverflow") in labs:
            consts = [x for x in labs if x[0] == "const" and x[1] == "int"]
            srcs = [pl_calls[x][2] for x in pl_calls if ("call", BET + "::precedence_level", pl_calls[x][0]) in labs]
            okm = any("op" in s for s in srcs) and any(c[2] == "1" for c in consts)
            how = "level(op) + 1"
        elif l in pl_calls:
            how = "level(%s)" % sorted(pl_calls[l][2])
    r.inst("parse_op:recursive-minimum", fn.where(rb), okm, "recursive call starts at %s (> level(op))" % how if okm else
           "recursive minimum is %s, not above level(op): equal levels are absorbed on the right" % how)
    pp = F.fn(P + "parse_precedence")
    calls = [(b, t) for b, t in pp.calls() if callee(t) == P + "parse_op"]
    need(len(calls) == 1, "parse_precedence does not call parse_op once")
    ok0 = calls[0][1]["args"][2].get("int") == "0"
    r.inst("parse_precedence:start", pp.where(calls[0][0]), ok0, "starts at minimum 0 (below every level)" if ok0 else "parse_precedence does not start at 0")
    return r


def r7(F):
    r = RuleResult("R7", "grouping never depends on the operands",
                   "parse_op, parse_precedence and parse_expression never branch on an Expression and hand expressions only to "
                   "clone / Box::new / pos / the recursive call", floor=3)
    ALLOWED = ("::clone", "Box::new", "ucglib::ast::Expression::pos", P + "parse_op", "::as_ref", "::deref", "drop_in_place", "::branch")
    for name in (P + "parse_op", P + "parse_precedence", P + "parse_expression"):
        fn = F.fn(name)
        bad = []
        for b in range(len(fn.blocks)):
            if fn.is_cleanup(b):
                continue
            t = fn.term(b)
            if t["k"] == "switch" and (t.get("enum") or "").startswith("ucglib::ast::") and t["enum"] not in (BET,):
                bad.append("switch on %s" % t["enum"].split("::")[-1])
            if t["k"] == "call":
                for a in t["args"]:
                    l = op_local(a)
                    if l is None:
                        continue
                    ty = fn.local_ty(l)
                    core = ty.replace("&mut ", "").replace("&", "")
                    if core in ("ucglib::ast::Expression", "alloc::boxed::Box<ucglib::ast::Expression>"):
                        c = callee(t)
                        if not c.endswith(ALLOWED) and c not in ALLOWED:
                            bad.append("call %s" % c)
        r.inst(name.split("::")[-1], fn.where(), not bad, "no branch on an operand" if not bad else "grouping can depend on the operands: %s" % sorted(set(bad)))
    return r


def printer_table(F):
    """{variant: spelling} from the Binary arm of the printer"""
    out = {}
    def visit(node):
        if node.get("k") == "match":
            arms = node["arms"]
            if arms and all(a["pat"].replace(" ", "").replace("&", "").startswith("BinaryExprType::") for a in arms):
                for a in arms:
                    if a["body"].get("k") == "lit":
                        for p in a["pat"].replace(" ", "").replace("&", "").split("|"):
                            out[p.split("::")[-1]] = a["body"]["v"]
    syn_walk(F.syn["ast/printer/mod.rs"]["items"], visit)
    return out


def r8(F):
    r = RuleResult("R8", "reader and writer operator tables are inverse",
                   "for each of the 18 operators: the spelling the printer emits for the variant is recognised by the parser as the "
                   "same variant", floor=18, exhaustive=True)
    rec = recogniser_table(F)
    pr = printer_table(F)
    need(len(pr) >= 18, "printer operator table not found (%d)" % len(pr))
    variants = F.variants(BET)
    for v in variants:
        sp = pr.get(v)
        if sp is None:
            r.inst("op:%s" % v, "src/ast/printer/mod.rs", False, "printer has no spelling for %s" % v)
            continue
        back = rec.get(sp.strip())
        ok = back == v
        r.inst("op:%s" % v, "src/ast/printer/mod.rs", ok, "%r parses back to %s" % (sp.strip(), v) if ok else
               "printer writes %r for %s, which the parser reads as %s" % (sp.strip(), v, back))
    return r


def r9(F):
    r = RuleResult("R9", "every operator is classifiable",
                   "the five operator classifiers of the precedence parser accept all 18 operators, pairwise disjoint, so every operator "
                   "collected by parse_operand_list can be consumed by parse_op", floor=18, exhaustive=True)
    accept = {}
    for c in ("parse_dot_operator", "parse_sum_operator", "parse_product_operator", "parse_compare_operator", "parse_bool_operator"):
        fn = F.fn(P + c)
        sw = [(b, fn.term(b)) for b in range(len(fn.blocks)) if fn.term(b)["k"] == "switch" and fn.term(b).get("enum") == BET and not fn.is_cleanup(b)]
        need(len(sw) >= 1, "%s does not match on the operator" % c)
        completes = {b for b, j, pl, rv, m in fn.assigns() if pl["l"] == 0 and not pl["p"] and rv["k"] == "agg" and rv.get("variant") == "Complete"}
        for v in F.variants(BET):
            from .. import variants as VA
            reach = VA.reach_variant(F, fn, sw[0][0], BET, v, preds={})
            if reach & completes:
                accept.setdefault(v, []).append(c)
    # parse_operator_element tries all five
    pe = F.fn(P + "parse_operator_element")
    tried = {callee(t).split("::")[-1] for b, t in pe.calls() if callee(t).startswith(P + "parse_")}
    for v in F.variants(BET):
        cs = [c for c in accept.get(v, []) if c in tried]
        ok = len(cs) == 1
        r.inst("op:%s" % v, pe.where(), ok, "accepted by %s" % cs[0] if ok else
               ("operator %s is accepted by no classifier: a chain containing it aborts the parse (or hits the panic in op_expression)" % v if not cs
                else "operator %s accepted by several classifiers: %s" % (v, cs)))
    return r


def r6o(F):
    r = RuleResult("R6o", "every operand of a chain is a single non-operator expression",
                   "parse_operand_list, which cuts an operator chain into operands and operators for the climber, parses each operand "
                   "with non_op_expression and nothing wider: an operand parsed with `expression` swallows the rest of the chain, which "
                   "then reaches the climber as one operand and groups to the right whatever the levels are", floor=1)
    fn = F.fn(P + "parse_operand_list")
    cs = [(b, callee(t)) for b, t in fn.calls() if callee(t).startswith("ucglib::parse::")]
    operands = [(b, c) for b, c in cs if c.split("::")[-1] in ("non_op_expression", "expression", "op_expression", "parse_expression", "parse_precedence")]
    need(any(c.endswith("::non_op_expression") for b, c in operands), "parse_operand_list does not call non_op_expression")
    wide = [(b, c) for b, c in operands if not c.endswith("::non_op_expression")]
    r.inst("operand-parser", fn.where(wide[0][0]) if wide else fn.where(), not wide,
           "operands are parsed with non_op_expression only" if not wide else
           "an operand is parsed with %s: `a in b == c` reaches the climber as `a in <b == c>`" % wide[0][1].split("::")[-1])
    return r


RULES = [r5, r6, r6o, r7, r8, r9]
