"""C14 — `out` writes one artifact: right name, same bytes as `convert`, all or nothing.  R49 R50 R51 R52 (+R87b table)."""
from .. import cfg, util
from ..core import RuleResult, need
from ..facts import callee, op_place, op_local
from ..origins import Origins, calls_in

OUT = "ucglib::build::opcode::runtime::Builtins::out"
CONVERT = "ucglib::build::opcode::runtime::Builtins::convert"
DYN_CONVERT = "ucglib::convert::traits::Converter::convert"
CREATORS = ("std::fs::File::create", "std::fs::OpenOptions::open", "std::fs::write", "std::fs::File::create_new",
            "std::fs::File::options")


def _out(F):
    """Builtins::out with its private helpers spliced in (a lock helper, a sink helper, an accessor used only here)"""
    return F.fn(OUT, flat=True)


def _lock_ops(fn):
    """(tests, sets) on the one-output-per-file lock: (block, call, locked-edge-is-true?) / blocks.  Either the accessors of
    Environment or, when those were spliced in or replaced, the set operations on the `out_lock` field itself; an `insert`
    whose result is tested is test and set in one (false = already there = locked)"""
    o = Origins(fn)
    tests, sets = [], []
    for b, t in fn.calls():
        c = callee(t)
        last = c.split("::")[-1]
        if c.endswith("Environment::get_out_lock_for_path"):
            tests.append((b, t, True))
        elif c.endswith("Environment::set_out_lock_for_path"):
            sets.append(b)
        elif last in ("contains", "insert", "get") and ("BTreeSet" in c or "HashSet" in c) and t["args"] and \
                "out_lock" in {l[1] for l in o.at(t["args"][0], b) if l[0] == "field"}:
            if last == "insert":
                sets.append(b)
                if util.bool_switches(fn, t["dest"]["l"]):
                    tests.append((b, t, False))
            else:
                tests.append((b, t, True))
    return tests, sets


def _creation_sites(F, fn):
    """blocks of fn that create the artifact: a creator call, or a call of a local helper that contains one"""
    out = []
    for b, t in fn.calls():
        c = callee(t)
        if c in CREATORS:
            out.append((b, fn, b))
        elif c.startswith("ucglib::build::opcode::runtime::") and c in F.fns and c != fn.name:
            h = F.fn(c)
            for hb, ht in h.calls():
                if callee(ht) in CREATORS:
                    out.append((b, h, hb))
    return out


def r49t(F):
    r = RuleResult("R49t", "the artifact is opened truncating",
                   "the file Builtins::out writes is created with File::create, or through OpenOptions with truncate(true) (or "
                   "create_new): otherwise a shorter output overwrites an older, longer artifact in place and keeps its stale tail",
                   floor=1)
    fn = _out(F)
    sites = _creation_sites(F, fn)
    need(sites, "no file creation reachable from Builtins::out")
    for b, hf, hb in sites:
        ok, why = opens_truncating(hf, hb, "the artifact", "rebuilding after the output shrank")
        r.inst("Builtins::out:open", hf.where(hb), ok, why)
    return r


def opens_truncating(hf, hb, what="the file", when="writing a shorter text"):
    """the creator call in block hb of hf empties an existing file: File::create / fs::write, or OpenOptions with truncate(true)"""
    c = callee(hf.term(hb))
    if c in ("std::fs::File::create", "std::fs::File::create_new", "std::fs::write"):
        return True, "%s truncates" % c.split("::")[-1]
    tr = [(x, t) for x, t in hf.calls() if callee(t) in ("std::fs::OpenOptions::truncate", "std::fs::OpenOptions::create_new")
          and len(t["args"]) == 2 and t["args"][1].get("int") == "1" and cfg.dominates(hf, x, hb)]
    ap = [(x, t) for x, t in hf.calls() if callee(t) == "std::fs::OpenOptions::append" and t["args"][1].get("int") == "1"]
    ok = bool(tr) and not ap
    return ok, ("OpenOptions with truncate(true)" if ok else
                "%s is opened with OpenOptions without truncate(true): %s leaves the old tail in the file" % (what, when))


def r49(F):
    r = RuleResult("R49", "convert before create",
                   "in Builtins::out every path to the creation of the artifact has passed a successful return of "
                   "Converter::convert, so a failed conversion neither creates nor truncates a file", floor=2)
    fn = _out(F)
    conv = [b for b, t in fn.calls() if callee(t) == DYN_CONVERT]
    create = sorted({b for b, hf, hb in _creation_sites(F, fn)})
    need(conv, "no Converter::convert call in Builtins::out")
    need(create, "no file creation call in Builtins::out")
    for cb in create:
        before = cfg.reachable(fn, 0, removed=set(conv))
        ok = cb not in before
        r.inst("Builtins::out:create", fn.where(cb), ok,
               "every path to the creation passes Converter::convert" if ok else
               "the artifact is created (truncated) on a path that has not run the converter yet: a failing conversion "
               "leaves an empty artifact and destroys an earlier one")
    # the Err outcome of convert must not reach a creation (path-sensitive from the call's continuation: the result may be matched
    # directly, tested with `?`, or handed back by a spliced helper first)
    for vb in conv:
        t = fn.term(vb)
        need(not t["dest"]["p"] and t.get("t") is not None, "result of Converter::convert is stored in a projected place")
        reach = cfg.reachable_ps(fn, t["t"], init={(t["dest"]["l"], "Err")})
        okreach = cfg.reachable_ps(fn, t["t"], init={(t["dest"]["l"], "Ok")})
        if not (set(create) & okreach):
            r.inst("Builtins::out:convert-Err", fn.where(vb), True, "no creation behind this conversion (see Builtins::out:create)", nontrivial=False)
            continue
        ok = not (reach & set(create))
        r.inst("Builtins::out:convert-Err", fn.where(vb), ok,
               "the Err outcome of the conversion cannot reach a file creation" if ok else
               "a failed conversion still reaches the creation of the artifact")
    return r


def r50(F):
    r = RuleResult("R50", "out lock protocol",
                   "the second-out test precedes taking the lock, its locked edge returns an error without converting or "
                   "writing, and every conversion/creation happens with the lock taken", floor=4)
    fn = _out(F)
    gets, sets = _lock_ops(fn)
    conv = [b for b, t in fn.calls() if callee(t) == DYN_CONVERT]
    create = sorted({b for b, hf, hb in _creation_sites(F, fn)})
    need(gets and sets, "lock calls not found in Builtins::out")
    err_blocks = util.result_blocks(fn, "Err")
    for b, t, locked_true in gets:
        sw = util.bool_switches(fn, t["dest"]["l"])
        need(sw, "the result of the lock test is not tested")
        for sb, ft, tt in sw:
            le = tt if locked_true else ft
            # path-sensitive: a lock helper hands `Err(..)` back and the hook propagates it with `?`
            reach = cfg.reachable_ps(fn, le)
            ok = not (reach & ((set(sets) - {b}) | set(conv) | set(create))) and cfg.must_pass_ps(fn, le, err_blocks, cfg.exits(fn))
            r.inst("Builtins::out:locked-edge", fn.where(sb), ok,
                   "a second out returns Err without converting or writing" if ok else
                   "the locked edge does not end in an error before any conversion/write")
    for sb in sets:
        dom = [g for g, _, _ in gets if cfg.dominates(fn, g, sb)]
        r.inst("Builtins::out:set-after-test", fn.where(sb), bool(dom),
               "lock taken only after the test" if dom else "lock taken on a path that has not tested it")
    for xb in conv + create:
        before = cfg.reachable_ps(fn, 0, removed=set(sets))
        ok = xb not in before
        r.inst("Builtins::out:work-under-lock", fn.where(xb), ok,
               "conversion/creation only with the lock taken" if ok else "conversion/creation reachable without taking the lock")
    return r


def r51(F):
    r = RuleResult("R51", "artifact name provenance",
                   "the created path derives from the VM's source path through with_extension(file_ext()) of the selected converter",
                   floor=1)
    fn = _out(F)
    o = Origins(fn)
    for b, t in fn.calls():
        if callee(t) in CREATORS:
            labs = set()
            for a in t["args"]:
                labs |= o.of_operand(a)
            cs = calls_in(labs)
            ok = "std::path::Path::with_extension" in cs and "ucglib::convert::traits::Converter::file_ext" in cs and ("param", 2) in labs
            strs = sorted(l[2] for l in labs if l[0] == "const" and l[1] == "str")
            # no literal may be mixed into the name
            ok = ok and not [s for s in strs if s not in ("/dev/stdout",)]
            r.inst("Builtins::out:name", fn.where(b), ok,
                   "path = <source path>.with_extension(converter.file_ext())" if ok else
                   "created path does not derive from the source path via with_extension(file_ext()) only",
                   {"calls": sorted(cs)[:12], "literals": strs})
    # with_extension's receiver derives from the `path` parameter, its argument from file_ext of the SAME converter as convert
    conv_recv = None
    for b, t in fn.calls():
        if callee(t) == DYN_CONVERT:
            conv_recv = o.of_operand(t["args"][0])
    for b, t in fn.calls():
        if callee(t) == "ucglib::convert::traits::Converter::file_ext":
            recv = o.of_operand(t["args"][0])
            same = conv_recv is not None and calls_in(recv) & {"ucglib::convert::ConverterRegistry::get_converter"} and \
                calls_in(conv_recv) & {"ucglib::convert::ConverterRegistry::get_converter"}
            r.inst("Builtins::out:ext-of-selected-converter", fn.where(b), bool(same),
                   "file_ext and convert are called on the converter returned by get_converter" if same else
                   "file_ext is not taken from the converter that performs the conversion")
    return r


def r52(F):
    r = RuleResult("R52", "same conversion in out and convert",
                   "both hooks obtain the converter from converter_registry.get_converter(<popped format name>), call "
                   "Converter::convert on Val::from(<popped value>) and do not transform the produced bytes "
                   "(except the lossy UTF-8 view in convert)", floor=6)
    table = {}
    for name in (OUT, CONVERT):
        fn = F.fn(name, flat=True)
        o = Origins(fn)
        short = name.split("::")[-1]
        getc = [(b, t) for b, t in fn.calls() if callee(t) == "ucglib::convert::ConverterRegistry::get_converter"]
        conv = [(b, t) for b, t in fn.calls() if callee(t) == DYN_CONVERT]
        need(len(getc) == 1 and len(conv) == 1, "expected one get_converter and one convert call in %s" % name)
        # format name comes from a popped Str
        labs = o.of_operand(getc[0][1]["args"][1])
        ok = "alloc::vec::Vec::pop" in calls_in(labs) and ("variant", "Str") in labs
        r.inst("%s:format-name" % short, fn.where(getc[0][0]), ok,
               "format name is the popped Str operand" if ok else "format name does not come from the popped Str operand")
        # receiver of convert is what get_converter returned
        labs = o.of_operand(conv[0][1]["args"][0])
        ok = "ucglib::convert::ConverterRegistry::get_converter" in calls_in(labs)
        r.inst("%s:receiver" % short, fn.where(conv[0][0]), ok,
               "convert is called on the registry's converter" if ok else "convert receiver is not the registry's converter")
        # the value: Rc::new(Val::from(popped))
        labs = o.at(conv[0][1]["args"][1], conv[0][0])
        cs = calls_in(labs)
        ok = "alloc::vec::Vec::pop" in cs and "alloc::rc::Rc::new" in cs and any("Into" in c or "From" in c for c in cs)
        # the lowering Value -> Val itself (whichever of its From impls is used: by Rc, by reference) is the plain value
        lowering = lambda c: "core::convert::From<" in c and "ucglib::build::ir::Val" in c and c.endswith("::from")
        other = sorted(c for c in cs if not (c.startswith("alloc::") or c.startswith("core::") or c.startswith("<") or lowering(c)))
        r.inst("%s:value" % short, fn.where(conv[0][0]), ok and not other,
               "value is Rc::new(Val::from(<popped value>))" if ok and not other else
               "value handed to the converter is not the plain popped value (extra calls: %s)" % other, {"calls": sorted(cs)})
        table[short] = sorted(cs)
        # what happens to the bytes afterwards: every call the data passes through between the buffer handed to the
        # converter and the sink (stack.push of the string / write_all to the artifact)
        sinks = []
        after = cfg.reachable(fn, conv[0][0]) - {conv[0][0]}
        for b, t in fn.calls():
            if b not in after:
                continue
            c = callee(t)
            if short == "convert" and c == "alloc::vec::Vec::push" and fn.local_ty(op_local(t["args"][0]) or 0).startswith("&mut alloc::vec::Vec<(alloc::rc::Rc<ucglib::build::opcode::Value>"):
                sinks.append((b, t["args"][1]))
            if short == "out" and c.endswith("::write_all"):
                sinks.append((b, t["args"][1]))
        need(sinks, "no sink (stack.push / write_all) after the conversion in %s" % name)
        PURE = ("::into", "::from", "::as_ref", "::as_str", "::as_slice", "::as_bytes", "::deref", "::deref_mut", "::borrow",
                "::borrow_mut", "::clone", "::into_owned", "::to_owned", "::to_string", "::from_utf8_lossy", "Rc::new", "Box::new",
                "Vec::new", "Vec::pop", "::get_converter", "::convert", "::file_ext", "::with_extension", "::to_path_buf",
                "::stdout", "::branch", "::from_residual", "File::create", "::must_use")
        TRANSFORM = ("trim", "replace", "uppercase", "lowercase", "push", "insert", "truncate", "split", "strip", "lines",
                     "chars", "format", "remove", "retain", "extend", "drain", "repeat", "escape")
        for sb, arg in sinks:
            cs2 = calls_in(o.at(arg, sb))
            bad, unknown = [], []
            for c in sorted(cs2):
                last = c.split("::")[-1]
                if any(c.endswith(p_) for p_ in PURE):
                    continue
                if any(w in last for w in TRANSFORM):
                    bad.append(c)
                else:
                    unknown.append(c)
            if unknown:
                r.error("unrecognised call(s) on the byte path of %s: %s (classify as pure or transforming)" % (name, unknown))
            r.inst("%s:bytes-untouched" % short, fn.where(sb), not bad,
                   "bytes reach the sink through conversions only" if not bad else "bytes are transformed by %s before the sink" % bad,
                   {"calls": sorted(cs2)})
    return r


def r87b(F):
    r = RuleResult("R87b", "converter registry table",
                   "ConverterRegistry::make_registry registers each documented format name with a converter; file_ext per "
                   "converter is a literal (table recorded in the evidence)", floor=8, exhaustive=True)
    fn = F.fn("ucglib::convert::ConverterRegistry::make_registry")
    o = Origins(fn)
    names = {}
    def conv_ty(op):
        # converter type: from the unsize cast's source type
        tys = sorted(l[2] for l in o.of_operand(op) if l[0] == "cast" and "Box<" in l[2] and "dyn" not in l[2])
        return tys[0] if len(tys) == 1 else None
    dynamic = False
    for b, t in fn.calls():
        if callee(t) == "ucglib::convert::ConverterRegistry::register":
            nm = t["args"][1].get("str")
            if nm is None:
                dynamic = True        # registered from a table: the (name, converter) pairs are built as tuples
                continue
            names[nm] = conv_ty(t["args"][2]) or "?"
    if dynamic:
        for b, j, pl, rv, m in fn.assigns():
            if rv["k"] == "agg" and rv.get("adt") == "(tuple)" and len(rv["ops"]) == 2:
                strs = [rv["ops"][0]["str"]] if rv["ops"][0].get("str") is not None else \
                    sorted(l[2] for l in o.at(rv["ops"][0], b) if l[0] == "const" and l[1] == "str")
                ty = conv_ty(rv["ops"][1])
                if ty is not None and len(strs) == 1:
                    names[strs[0]] = ty
        need(names, "make_registry registers from a table this rule cannot read")
    exts = {}
    for n, f in F.fns.items():
        if n.endswith("as ucglib::convert::traits::Converter>::file_ext"):
            lit = util.str_consts(f)
            exts[n.split(" as ")[0].lstrip("<")] = lit[0] if lit else None
    expected = {"json", "env", "flags", "exec", "yaml", "yamlmulti", "toml", "xml"}
    for nm in sorted(expected | set(names)):
        ty = names.get(nm)
        tyn = ty.replace("alloc::boxed::Box<", "").rstrip(">") if ty else None
        ext = exts.get(tyn)
        ok = nm in names and nm in expected and ext is not None
        r.inst("registry:%s" % nm, fn.where(), ok,
               "%s -> %s -> .%s" % (nm, tyn, ext) if ok else "format %s: registered=%s documented=%s ext=%s" % (nm, nm in names, nm in expected, ext))
    return r


def r50r(F):
    from .. import callgraph
    r = RuleResult("R50r", "the out lock is released only where a file's evaluation starts",
                   "Environment::reset_out_lock_for_path is called from FileBuilder::build and from the import hook only: any caller that "
                   "also runs for nested VMs of the same file (VM::run, function calls, module instantiation, callbacks, format scopes) "
                   "would clear the lock between two `out` statements of one file", floor=2, exhaustive=True)
    CG = callgraph.get(F)
    target = [n for n in F.fns if n.endswith("Environment::reset_out_lock_for_path")]
    need(len(target) == 1, "Environment::reset_out_lock_for_path not found")
    allowed = {"ucglib::build::FileBuilder::build", "ucglib::build::opcode::runtime::Builtins::import"}
    callers = CG.callers(target[0])
    need(callers, "reset_out_lock_for_path is never called")
    for c in callers:
        ok = c in allowed
        r.inst("caller:%s" % "::".join(c.split("::")[-2:]), F.fn(c).where() if c in F.fns else c, ok,
               "start of a file's evaluation" if ok else
               "%s releases the one-output-per-file lock: it also runs for nested evaluations of the same file, so a second `out` after a "
               "function call or module instantiation is accepted and overwrites the artifact" % c.split("::")[-1])
    return r


def r51s(F):
    r = RuleResult("R51s", "the artifact is named after the path the user gave",
                   "the path build_file hands to FileBuilder::build (from which the out hook derives the artifact's name) is the "
                   "command-line argument joined onto the current directory, not a canonicalised path: canonicalize / read_link resolve "
                   "symbolic links, and the artifact of `prod.ucg -> ../shared/base.ucg` would appear as shared/base.json", floor=1)
    cands = [n for n in F.fns if n in ("ucg::build_file",)]
    need(cands, "ucg::build_file not found")
    fn = F.fn(cands[0])
    o = Origins(fn)
    builds = [(b, t) for b, t in fn.calls() if callee(t).endswith("FileBuilder::build")]
    need(builds, "build_file does not call FileBuilder::build")
    for b, t in builds:
        cs = calls_in(o.at(t["args"][1], b))
        resolving = sorted(c for c in cs if c.split("::")[-1] in ("canonicalize", "read_link", "realpath"))
        r.inst("build_file:path", fn.where(b), not resolving,
               "cwd.join(argument)" if not resolving else
               "the path of the file to build passes through %s: the artifact is named after the link target, not after the file the "
               "user named" % ", ".join(x.split("::")[-1] for x in resolving))
    return r


def r49w(F):
    r = RuleResult("R49w", "a successful out statement writes the artifact",
                   "in Builtins::out every path from the successful conversion to Ok writes the converted bytes to the created file; a "
                   "path that skips the write (an `is it current already` shortcut) is accepted only behind an equality test between the "
                   "new contents and the whole old file (fs::read / read_to_end / read_to_string) -- comparing only the first "
                   "contents.len() bytes treats an old artifact that merely starts with the new output as current", floor=1)
    fn = _out(F)
    conv = [b for b, t in fn.calls() if callee(t) == DYN_CONVERT]
    need(conv, "no Converter::convert call in Builtins::out")
    sites = _creation_sites(F, fn)
    create = sorted({b for b, hf, hb in sites})
    writes = {b for b, t in fn.calls() if callee(t).split("::")[-1] in ("write_all", "write", "write_fmt") and "io::Write" in callee(t) or callee(t) == "std::fs::write"}
    need(create and writes, "Builtins::out: creation / write of the artifact not found")
    oks = sorted(util.result_blocks(fn, "Ok"))
    # the file branch: Ok blocks reachable from a creation
    file_oks = [ob for ob in oks if any(cfg.reaches(fn, cb, ob) for cb in create)]
    need(file_oks, "Builtins::out: no Ok return behind the creation of the artifact")
    # can Ok be reached from the conversion's success without a write, on a path that does not go to stdout?
    t0 = fn.term(conv[0])
    need(not t0["dest"]["p"] and t0.get("t") is not None, "Builtins::out: result of the conversion is stored in a projected place")
    after_ok = cfg.reachable_ps(fn, t0["t"], removed=writes, init={(t0["dest"]["l"], "Ok")})
    skipping = [ob for ob in oks if ob in after_ok]
    if not skipping:
        r.inst("out:writes", fn.where(create[0]), True, "every path that reaches the file branch creates and writes the artifact")
        return r
    # a skip exists: it must be guarded by a whole-file comparison, in the hook or in a helper it calls
    fns = [fn] + [F.fn(callee(t)) for b, t in fn.calls() if callee(t).startswith("ucglib::build::opcode::runtime::") and callee(t) in F.fns and callee(t) != fn.name]
    whole = False
    for f2 in fns:
        names = {callee(t2).split("::")[-1] for b2, t2 in f2.calls()}
        if "read_exact" in names or "take" in names:
            continue          # reads a fixed number of bytes: a prefix comparison
        o2 = Origins(f2)
        for b, t in f2.calls():
            if callee(t).split("::")[-1] in ("eq", "ne"):
                labs = set()
                for a in t["args"]:
                    labs |= o2.at(a, b)
                if any(c.split("::")[-1] in ("read", "read_to_end", "read_to_string") for c in calls_in(labs)):
                    whole = True
    r.inst("out:writes", fn.where(skipping[0]), whole,
           "the write is skipped only when the whole old file equals the new contents" if whole else
           "Builtins::out can return Ok without writing the artifact and the shortcut is not a comparison with the whole old file: an "
           "old artifact that merely starts with the new (shorter) output is kept as it is")
    return r


def _r48k(F):
    from .c16 import r48k
    return r48k(F)


RULES = [r49, r49t, r49w, r50, r50r, _r48k, r51, r51s, r52, r87b]
