"""C17 — errors point at the statement that causes them.  R36 R37 R38 R39 R92."""
from .. import cfg, util, callgraph, translator as TR
from ..access import field_accesses
from ..core import RuleResult, need
from ..facts import callee, op_local, op_place, syn_walk
from ..origins import Origins, calls_in, results_in

VM = "ucglib::build::opcode::vm::VM::"
OPSMAP = "ucglib::build::opcode::translate::OpsMap"
ERR_NEW = "ucglib::build::opcode::error::Error::new"
POS_NEW = "ucglib::ast::Position::new"
FCALL = VM + "fcall_impl"


def r36(F):
    r = RuleResult("R36", "opcode / position pairing",
                   "OpsMap.ops and OpsMap.pos are written only by OpsMap::push (both), replace (ops, in place) and with_ops (both): "
                   "the two vectors stay the same length, so ops.pos() always belongs to the current op", floor=4)
    for field, allowed in (("ops", {"push": "alloc::vec::Vec::push", "replace": "index_mut", "with_ops": "assign"}),
                           ("pos", {"push": "alloc::vec::Vec::push", "with_ops": "assign"})):
        acc = field_accesses(F, OPSMAP, field)
        writers = {}
        for a in acc:
            if a[0] == "assign":
                writers.setdefault(a[1], set()).add("assign")
            elif a[0] == "mutref":
                for c, _ in a[3]:
                    writers.setdefault(a[1], set()).add(c)
        bad = []
        for w, how in writers.items():
            short = w.split("::")[-1]
            if not w.startswith(OPSMAP + "::") or short not in allowed:
                bad.append((w, sorted(how)))
                continue
            for h in how:
                if allowed[short] not in h:
                    bad.append((w, h))
        r.inst("OpsMap.%s:writers" % field, "src/build/opcode/translate.rs", not bad, "written only by %s" % sorted(x.split("::")[-1] for x in writers) if not bad else
               "OpsMap.%s is written outside the paired API: %s" % (field, bad))
    push = F.fn(OPSMAP + "::push")
    pushes = [callee(t) for b, t in push.calls()]
    ok = pushes.count("alloc::vec::Vec::push") == 2 and util.must_pass(push, 0, [b for b, t in push.calls()][:1], exits=cfg.exits(push))
    o = Origins(push)
    fields = set()
    for b, t in push.calls():
        if callee(t) == "alloc::vec::Vec::push":
            fields |= {l[1] for l in o.at(t["args"][0], b) if l[0] == "field"}
    ok = ok and {"ops", "pos"} <= fields
    r.inst("OpsMap::push:both", push.where(), ok, "pushes one op and one position" if ok else "OpsMap::push does not push to both vectors")
    rep = F.fn(OPSMAP + "::replace")
    grow = [callee(t) for b, t in rep.calls() if callee(t).endswith(("Vec::push", "Vec::insert", "Vec::remove", "Vec::truncate", "Vec::pop"))]
    r.inst("OpsMap::replace:in-place", rep.where(), not grow, "replace overwrites in place" if not grow else "replace changes the length (%s)" % grow)
    return r


def r37(F):
    r = RuleResult("R37", "position provenance in the translator",
                   "every position handed to OpsMap::push derives from the AST node being translated (a parameter of the translate_* "
                   "function); no synthetic Position::new in the translator", floor=100)
    for name in TR.TRANSLATE_FNS:
        fn = F.fn(name)
        ps = TR.pushes(fn)
        if not ps:
            continue
        o = Origins(fn)
        # AST-carrying parameters: everything except `ops` and `root`
        ast_params = {i for i in range(1, fn.nargs + 1) if "OpsMap" not in fn.local_ty(i) and "std::path::Path" not in fn.local_ty(i)
                      and fn.local_ty(i) != "bool"}
        for p in ps:
            labs = o.at(p["pos"], p["bb"])
            params = {l[1] for l in labs if l[0] == "param"}
            synthetic = POS_NEW in results_in(labs)
            ok = bool(params & ast_params) and not synthetic
            r.inst("%s:%s%s" % (name.split("::")[-1], p["op"], ":" + p["hook"] if p["hook"] else ""), fn.where(p["bb"]), ok,
                   "position from the AST node" if ok else
                   "Op::%s is emitted with a position that does not come from the AST node (%s): its errors point elsewhere" % (p["op"], "Position::new" if synthetic else "no AST parameter"))
    return r


_O = {}


def _origins(fn):
    return Origins(fn)


def r38(F):
    r = RuleResult("R38", "call frames",
                   "on the Err edge of every VM::fcall_impl call and of the module-body run in op_copy, Error::push_call_stack is "
                   "passed before the error leaves the function", floor=11)
    cg = callgraph.get(F)
    xs = util.expanded_call_sites(F, cg, FCALL)
    vias = {(n, b): via for n, b, via in xs}
    sites = [(n, b) for n, b, via in xs]
    need(len(sites) >= 10, "fcall_impl call sites not found (%d)" % len(sites))
    fw = util.forwarders(F, FCALL)
    for n, b in sorted(sites):
        fn = F.fn(n)
        t = fn.term(b)
        pcs = {bb for bb, tt in fn.calls() if callee(tt).endswith("Error::push_call_stack")}
        ees = util.err_edges(fn, t["dest"]["l"])
        need(ees, "result of fcall_impl is neither matched nor propagated with `?` at %s" % fn.where(b))
        ok = bool(pcs) and all(util.must_pass(fn, ee, pcs, exits=cfg.exits(fn)) for ee in ees[:1])
        via = vias.get((n, b))
        if not ok and via is not None:
            # the helper the call goes through records the frame itself, with a position handed in by this caller
            g, gb = fw[via]
            gp = {bb for bb, tt in g.calls() if callee(tt).endswith("Error::push_call_stack")}
            ge = util.err_edges(g, g.term(gb)["dest"]["l"])
            og = Origins(g)
            if gp and ge and all(util.must_pass(g, ee, gp, exits=cfg.exits(g)) for ee in ge[:1]):
                pidx = [l[1] for pb in gp for l in og.at(g.term(pb)["args"][1], pb) if l[0] == "param"]
                if pidx:
                    oc = Origins(fn)
                    labs = oc.at(t["args"][pidx[0] - 1], b)
                    ok = not any(l[0] == "call" and (l[1] == FCALL or l[1] in fw) for l in labs)
        r.inst("%s->fcall_impl" % n.split("::")[-1], fn.where(b), ok, "Err edge records the calling position" if ok else
               "an error from inside the called function leaves %s without the caller's position (no VIA line)" % n.split("::")[-1])
        # the recorded position is a position of the call (the handler's pos parameter, a popped operand), never one that came
        # back from an earlier callback (a loop-carried result position points into the callee's body)
        o = None
        for pb in sorted(pcs):
            if o is None:
                o = _origins(fn)
            if not any(cfg.reaches(fn, ee, pb) or ee == pb for ee in ees):
                continue
            labs = o.at(fn.term(pb)["args"][1], pb)
            from_result = any(l[0] == "call" and l[1] == FCALL for l in labs)
            # in the runtime hooks (map / filter / reduce / ...) the frame is the position of the functional operator, which the hook
            # receives as a parameter; a position taken from the operand (an element's own position) points at the statement that
            # wrote the list, not at the one that calls
            if not from_result and n.startswith("ucglib::build::opcode::runtime::"):
                pos_params = {k for k in range(1, fn.nargs + 1) if fn.local_ty(k).replace("&", "").strip() == "ucglib::ast::Position"}
                params = {l[1] for l in labs if l[0] == "param"}
                from_elem = any(l[0] == "call" and l[1].split("::")[-1] in ("next", "zip", "get", "index", "enumerate") for l in labs)
                if pos_params and (not (params & pos_params) or from_elem):
                    from_result = True
            key = "%s->fcall_impl:frame-position" % n.split("::")[-1]
            if any(i["key"].startswith("R38:" + key) and not i["ok"] for i in r.instances):
                continue
            r.inst(key, fn.where(pb), not from_result,
                   "the frame records a position of the call" if not from_result else
                   "the position recorded for the frame is not (only) the position of the call: it can come back from an earlier callback or "
                   "belong to an element of the operand, so the VIA line points into a function body or at the statement that wrote the "
                   "list, and the calling statement is not listed")
    # the value a call produces is positioned at the call
    of = F.fn(VM + "op_fcall")
    oo = _origins(of)
    pushes = [(b, t) for b, t in of.calls() if callee(t) == VM + "push"]
    need(pushes, "op_fcall does not push the call result")
    for b, t in pushes:
        labs = oo.at(t["args"][2], b)
        from_result = any(l[0] == "call" and l[1] == FCALL for l in labs)
        r.inst("op_fcall:result-position", of.where(b), not from_result,
               "the result of a call carries the position of the call" if not from_result else
               "the result of a call keeps the position it had inside the callee: a later type error on it is reported in the "
               "statement that defines the function")
    # ... and so is the value a functional operator produces: the push a hook can return from without calling back again is its
    # result, and its position is not one that came back from a callback (pushes that feed the next callback may carry one)
    for n in sorted({n_ for n_, b_ in sites if n_.startswith("ucglib::build::opcode::runtime::") and "{closure" not in n_}):
        fn = F.fn(n)
        fblocks = {b_ for b_, t_ in fn.calls() if callee(t_) == FCALL or callee(t_) in fw}
        exits = set(cfg.exits(fn))
        k_ = 0
        for b, t in fn.calls():
            c = callee(t)
            if not (c.endswith("Vec::push") or (c.endswith("::push") and "Vec<" in c)) or len(t["args"]) < 2:
                continue
            recv = op_place(t["args"][0])
            rty = fn.local_ty(recv["l"]).replace(" ", "") if recv is not None else ""
            if "Vec<(alloc::rc::Rc<ucglib::build::opcode::Value>,ucglib::ast::Position)>" not in rty:
                continue        # not the operand stack
            if not (cfg.reachable(fn, t.get("t", b), removed=fblocks) & exits):
                continue        # feeds a later callback
            el = op_local(t["args"][1])
            posops = [rv["ops"][1] for b2, j2, pl2, rv, m2 in fn.assigns() if pl2["l"] == el and not pl2["p"] and rv["k"] == "agg" and len(rv.get("ops", ())) == 2]
            if not posops:
                continue
            src = set()
            for po in posops:
                src |= util.source_calls(fn, po, pass_through=util.PASS_THROUGH + ("::branch",))
            from_result = any(c_[0] == FCALL or c_[0] in fw for c_ in src if c_[0] != "param")
            r.inst("%s:result-position#%d" % (n.split("::")[-1], k_), fn.where(b), not from_result,
                   "the operator's result carries a position of the operator expression" if not from_result else
                   "the result keeps a position that came back from the callback: a later fault on it is reported inside the "
                   "function that was called, not at the statement that uses the result")
            k_ += 1
    oc = F.fn(VM + "op_copy")
    runs = [(b, t) for b, t in oc.calls() if callee(t) == VM + "run"]
    pcs = {bb for bb, tt in oc.calls() if callee(tt).endswith("Error::push_call_stack")}
    decorated = 0
    for b, t in runs:
        sws = util.enum_switches(oc, t["dest"]["l"])
        sws = [x for x in sws if all(cfg.dominates(oc, x[0], y[0]) for y in sws) and oc.term(x[0]).get("enum") == "core::result::Result"]
        if not sws:
            continue
        ee = cfg.switch_edge(sws[0][1], variant="Err")
        if pcs and util.must_pass(oc, ee, pcs, exits=cfg.exits(oc)):
            decorated += 1
    r.inst("op_copy:module-body-run", oc.where(), decorated >= 1, "module body run is decorated with the instantiation position" if decorated >= 1 else "module body errors carry no instantiation position")
    return r


def r39(F):
    r = RuleResult("R39", "error position provenance in the VM",
                   "every Error::new in vm.rs / runtime.rs takes its position from a popped operand, the handler's pos parameter or the "
                   "op pointer; Position::new(0,0,0) only in the listed places", floor=55)
    LISTED_SYNTHETIC = {
        "ucglib::build::opcode::vm::VM::get_binding": "position of the synthetic env tuple (not an error position)",
        "ucglib::build::opcode::environment::Environment::get_env_vars_tuple": "positions of environment variables",
        "ucglib::build::opcode::environment::Environment::get_ops_for_path::{closure#0}": "no parent directory / type error without position",
        "ucglib::build::opcode::environment::Environment::add_ops_for_path_and_content::{closure#0}": "no parent directory (stdlib)",
        "ucglib::build::opcode::pointer::OpPointer::jump": "internal FAULT",
        "ucglib::build::opcode::pointer::OpPointer::op": "internal FAULT",
        "ucglib::build::opcode::pointer::OpPointer::pos": "internal FAULT",
        "ucglib::build::opcode::pointer::OpPointer::idx": "internal FAULT",
        "ucglib::build::opcode::convert::<impl core::convert::From<&ucglib::build::ir::Val> for ucglib::build::opcode::Value>::from":
            "values converted from IR data (includes, converter round trips) have no source position",
    }
    n = 0
    for name, fn in sorted(F.fns.items()):
        if fn.derived or fn.file not in ("src/build/opcode/vm.rs", "src/build/opcode/runtime.rs"):
            continue
        sites = [(b, t) for b, t in fn.calls() if callee(t) == ERR_NEW]
        if not sites:
            continue
        o = Origins(fn)
        for b, t in sites:
            labs = o.at(t["args"][1], b)
            synthetic = POS_NEW in results_in(labs)
            params = {l[1] for l in labs if l[0] == "param"}
            from_stack = any(c.endswith(("VM::pop", "Vec::pop", "::last")) for c in results_in(labs))
            from_ptr = any(c.endswith("OpPointer::pos") for c in results_in(labs))
            ok = not synthetic and (bool(params) or from_stack or from_ptr)
            n += 1
            r.inst("%s:Error::new" % name.split("::")[-1], fn.where(b), ok, "position from %s" % ("an operand" if from_stack else "a parameter / the op pointer") if ok else
                   "an error is created with a position that does not come from the program (%s)" % ("Position::new" if synthetic else "no source"))
    # who builds synthetic positions at all
    cg = callgraph.get(F)
    users = {n_ for n_, b in cg.call_sites(POS_NEW) if F.fn(n_).file.startswith("src/build/")}
    from .. import flatten
    # a private helper split off a listed function (or one of its closures) is still that function
    users = {flatten.home(F, u, set(LISTED_SYNTHETIC)) for u in users}
    extra = sorted(u for u in users if not any(u == k or u.startswith(k + "::{closure#") for k in LISTED_SYNTHETIC))
    r.inst("Position::new:users", "src/build", not extra, "synthetic positions only in the %d listed places" % len(users) if not extra else "Position::new used in %s" % extra)
    return r


def r92(F):
    r = RuleResult("R92", "position wiring",
                   "Position::from(&OffsetStrIter) fills line / column / offset from line() / column() / get_offset(); "
                   "BuildError::from(parser error) passes line, column, offset in this order; Display prints line then column; "
                   "From<BuildError> for opcode::Error keeps the position", floor=6)
    pf = F.fn("ucglib::iter::<impl core::convert::From<&'a ucglib::iter::OffsetStrIter<'a>> for ucglib::ast::Position>::from")
    o = Origins(pf)
    agg = [(b, rv) for b, j, pl, rv, m in pf.assigns() if rv["k"] == "agg" and rv.get("adt") == "ucglib::ast::Position"]
    want = {"line": "::line", "column": "::column", "offset": "::get_offset"}
    via_new = None
    if len(agg) != 1:
        # built with Position::new(line, column, offset) instead of a struct literal: which argument fills which field is read off
        # Position::new's own struct literal
        pn0 = [(bb, t) for bb, t in pf.calls() if callee(t) == POS_NEW]
        nf = F.fns.get(POS_NEW)
        if len(pn0) == 1 and nf is not None:
            na = [(bb, rv_) for bb, j, pl, rv_, m in nf.assigns() if rv_["k"] == "agg" and rv_.get("adt") == "ucglib::ast::Position"]
            if len(na) == 1:
                on = Origins(nf)
                fmap = {}
                for fld in want:
                    ps = {l[1] for l in on.at(na[0][1]["ops"][na[0][1]["fields"].index(fld)], na[0][0]) if l[0] == "param"}
                    if len(ps) == 1:
                        fmap[fld] = next(iter(ps)) - 1
                if len(fmap) == 3:
                    via_new = (pn0[0], fmap)
    need(len(agg) == 1 or via_new is not None, "Position aggregate not found")
    if via_new is None:
        b, rv = agg[0]
    for fld, suf in want.items():
        if via_new is not None:
            (b, t_), fmap = via_new
            labs = o.at(t_["args"][fmap[fld]], b)
        else:
            labs = o.at(rv["ops"][rv["fields"].index(fld)], b)
        cs = results_in(labs)
        ok = any(c.endswith(suf) for c in cs) and not any(c.endswith(s2) for f2, s2 in want.items() if f2 != fld for c in cs)
        r.inst("Position::from:%s" % fld, pf.where(b), ok, "%s <- %s()" % (fld, suf[2:]) if ok else "Position.%s is not filled from %s()" % (fld, suf[2:]))
    # BuildError::from(&Error<C>) : Position::new(line(), column(), get_offset())
    cands = [f for n, f in F.fns.items() if n == "<ucglib::error::BuildError as core::convert::From<&'a abortable_parser::Error<C>>>::from"]
    need(cands, "BuildError::from(&parser error) not found")
    bf = cands[0]
    ob = Origins(bf)
    pn = [(bb, t) for bb, t in bf.calls() if callee(t) == POS_NEW]
    if len(pn) != 1:
        # the position is taken in a helper of src/error.rs (the conversion split into functions): the one place in that file
        # that builds a Position from line() / column() / get_offset()
        alt = []
        for n2, f2 in F.fns.items():
            if f2.file == bf.file and not f2.derived and n2 != bf.name:
                o2 = None
                for bb2, t2 in f2.calls():
                    if callee(t2) == POS_NEW:
                        o2 = o2 or Origins(f2)
                        if any(c.endswith(("::line", "::column", "::get_offset")) for a in t2["args"] for c in results_in(o2.at(a, bb2))):
                            alt.append((f2, o2, bb2, t2))
        if len(alt) == 1:
            bf, ob, bb_, t_ = alt[0]
            pn = [(bb_, t_)]
    need(len(pn) == 1, "Position::new not called once in BuildError::from")
    bb, t = pn[0]
    order = []
    for a in t["args"]:
        cs = results_in(ob.at(a, bb))
        order.append("line" if any(c.endswith("::line") for c in cs) else "column" if any(c.endswith("::column") for c in cs) else "offset" if any(c.endswith("::get_offset") for c in cs) else "?")
    ok = order == ["line", "column", "offset"]
    r.inst("BuildError::from:order", bf.where(bb), ok, "Position::new(line, column, offset)" if ok else "arguments of Position::new are %s: line and column are crossed in every syntax error" % order)
    # Display for Position: syntax tree
    lits = []
    def visit(n):
        if n.get("k") == "impl" and n.get("self", "").replace(" ", "") == "Position" and "Display" in (n.get("trait") or ""):
            def v2(m):
                if m.get("k") == "macro" and m.get("name") == "write" and m.get("args") and len(m["args"]) > 1 and m["args"][1].get("k") == "lit":
                    lits.append((m["args"][1]["v"], [a.get("name") if a.get("k") == "field" else None for a in m["args"][2:]]))
            syn_walk(n, v2)
    syn_walk(F.syn["ast/mod.rs"]["items"], visit)
    lc = [x for x in lits if "line" in x[0] and "column" in x[0]]
    need(lc, "Display for Position not found")
    lit, args = lc[0]
    ok = lit.index("line") < lit.index("column") and args == ["line", "column"]
    r.inst("Position::fmt", "src/ast/mod.rs", ok, "prints `line: {} column: {}` with (line, column)" if ok else "Display for Position crosses line and column (%r %s)" % (lit, args))
    # From<BuildError> for opcode::Error keeps pos
    cands = [f for n, f in F.fns.items() if n == "<ucglib::build::opcode::error::Error as core::convert::From<ucglib::error::BuildError>>::from"]
    need(cands, "From<BuildError> for opcode::Error not found")
    ef = cands[0]
    oe = Origins(ef)
    agg = [(b2, rv2) for b2, j, pl, rv2, m in ef.assigns() if rv2["k"] == "agg" and rv2.get("adt") == "ucglib::build::opcode::error::Error"]
    need(agg, "Error aggregate not found")
    b2, rv2 = agg[0]
    labs = oe.at(rv2["ops"][rv2["fields"].index("pos")], b2)
    ok = ("field", "pos") in labs and ("param", 1) in labs and not [l for l in labs if l[0] == "agg" and l[2] == "None"]
    r.inst("opcode::Error::from(BuildError):pos", ef.where(b2), ok, "pos carried over" if ok else "the position of a parse / type error is dropped on conversion")
    return r


def r39c(F):
    r = RuleResult("R39c", "a type mismatch is anchored where the operands meet",
                   "Shape::narrow positions its TypeErr at the right-hand shape, and the shape of a symbol carries the position of its "
                   "definition; at every narrow call of the checker the right-hand shape is therefore re-anchored at the node being "
                   "checked (with_pos), built here from the node's own position, or the escaping TypeErr is rebuilt with a position of "
                   "the node (or dropped)", floor=8, exhaustive=True)
    NARROW = ("ucglib::ast::Shape::narrow", "ucglib::ast::Shape::narrow_cached")
    SHAPE = "ucglib::ast::Shape"
    n = 0
    for name, fn in sorted(F.fns.items()):
        if "typecheck" not in name or "::test" in name or fn.derived:
            continue
        sites = [(b, t) for b, t in fn.calls() if callee(t) in NARROW]
        if not sites:
            continue
        o = Origins(fn)
        closures = [F.fns[c] if isinstance(c, str) else c for c in F.closures_of(name)]
        for k, (b, t) in enumerate(sites):
            right = o.at(t["args"][1], b)
            if "{closure" in name:
                # the right-hand shape may be read from a variable the closure captured: what the enclosing function put there
                cap = util.capture_operands(F, fn)
                if cap is not None:
                    pf, pb, pops = cap
                    po = Origins(pf)
                    for k_ in util.captures_used(fn, t["args"][1]):
                        if isinstance(k_, int) and k_ < len(pops):
                            right = set(right) | set(po.at(pops[k_], pb))
                    closures = closures + [F.fns[c] if isinstance(c, str) else c for c in F.closures_of(pf.name)]
            rc = calls_in(right)
            how = None
            if "ucglib::ast::Shape::with_pos" in rc:
                how = "right-hand shape re-anchored with with_pos"
            elif any(c.endswith(("Iterator::collect", "Iterator::map")) for c in rc) and \
                    any(callee(t3) == "ucglib::ast::Shape::with_pos" for cf in closures for b3, t3 in cf.calls()):
                how = "right-hand shapes are re-anchored with with_pos when they are collected"
            elif not any(c.endswith("derive_shape") or c.endswith("BTreeMap::get") or "resolve_import" in c for c in rc) and \
                    not any(l[0] == "field" and l[1] in ("args", "items", "ret") for l in right):
                how = "right-hand shape is built here from the node's position"
            else:
                res = t["dest"]["l"]
                cps = set(util.copies_of(fn, res, allow_not=False))
                sws = [(sb, st) for sb, st in util.enum_switches(fn, res) if cfg.switch_edge(st, variant="TypeErr") is not None]
                # the result handed to a closure of this function that rebuilds it
                cnames = {cf.name for cf in closures}
                for b2, t2 in fn.calls():
                    is_closure_call = callee(t2) in cnames or callee(t2).split("::")[-1] in ("call", "call_mut", "call_once")
                    if is_closure_call and cfg.reaches(fn, b, b2) and any(("call", callee(t), b) in o.at(a, b2) for a in t2["args"]):
                        for cf in closures:
                            oc = Origins(cf)
                            for b3, j3, pl3, rv3, m3 in cf.assigns():
                                if rv3["k"] == "agg" and rv3.get("adt") == SHAPE and rv3.get("variant") == "TypeErr" and len(rv3["ops"]) == 2:
                                    if any(c.endswith("::pos") for c in calls_in(oc.at(rv3["ops"][0], b3))):
                                        how = "the result goes through a closure that rebuilds a TypeErr at a position of the node"
                if how is None and sws:
                    verdicts = []
                    for sb, st in sws:
                        te = cfg.switch_edge(st, variant="TypeErr")
                        reg = cfg.reachable(fn, te)
                        aggs = [(b2, rv) for b2, j, pl, rv, m in fn.assigns() if b2 in reg and rv["k"] == "agg" and rv.get("adt") == SHAPE
                                and rv.get("variant") == "TypeErr" and len(rv["ops"]) == 2 and cfg.dominates(fn, te, b2)]
                        if aggs:
                            verdicts.append(all(any(c.endswith("::pos") for c in calls_in(o.at(rv["ops"][0], b2))) for b2, rv in aggs))
                            continue
                        escapes = False
                        for b2, j, pl, rv, m in fn.assigns():
                            if b2 in reg and cfg.dominates(fn, te, b2) and rv["k"] == "use" and op_local(rv["ops"][0]) in cps and \
                                    (pl["l"] == 0 or pl["p"]):
                                escapes = True
                        for b2, t2 in fn.calls():
                            if b2 in reg and cfg.dominates(fn, te, b2) and any(op_local(a) in cps for a in t2["args"]) and \
                                    not callee(t2).endswith(("drop_in_place", "::type_name")):
                                escapes = True
                        # pattern-bound parts of the result used to record the error
                        for b2, t2 in fn.calls():
                            if b2 in reg and cfg.dominates(fn, te, b2) and ("with_pos" in callee(t2) or callee(t2).endswith("Vec::push")) and \
                                    any(("call", callee(t), b) in o.at(a, b2) for a in t2["args"]):
                                # `result.with_pos(node.pos())` re-anchors the error itself
                                if callee(t2) == "ucglib::ast::Shape::with_pos" and len(t2["args"]) > 1 and \
                                        any(c.endswith("::pos") for c in calls_in(o.at(t2["args"][1], b2))):
                                    continue
                                escapes = True
                        verdicts.append(not escapes)
                        if not escapes and not aggs:
                            how = "no TypeErr from this narrowing leaves with the position of the right-hand shape (dropped or re-anchored)"
                    if verdicts and all(verdicts) and how is None:
                        how = "the escaping TypeErr is rebuilt at a position of the node"
                    if not all(verdicts):
                        how = None
                elif how is None:
                    # no match on the result: re-anchored as a whole with with_pos(node position)?
                    for b2, t2 in fn.calls():
                        if callee(t2) == "ucglib::ast::Shape::with_pos" and t2["args"] and op_local(t2["args"][0]) in cps and len(t2["args"]) > 1 and \
                                any(c.endswith("::pos") for c in calls_in(o.at(t2["args"][1], b2))):
                            how = "the result is re-anchored with with_pos at a position of the node"
            n += 1
            short = name.split("::")[-1] if not name.startswith("<") else name.split(" as ")[0].split("::")[-1] + "::" + name.split("::")[-1]
            r.inst("%s:narrow#%d" % (short, k), fn.where(b), how is not None, how or
                   "a TypeErr from this narrowing escapes with the position of the right-hand shape, which for a symbol is the "
                   "position of its definition: the diagnostic points at another statement than the faulty one")
    return r


VALUE_VARIANTS = {"P", "C", "T", "F", "M", "S", "List", "Tuple", "Module", "Func"}


def _stored_position_source(F, fn, op, depth=3):
    """does the position operand come out of a value's payload (a downcast to a Value / Composite variant) without passing
    through the stack (`VM::pop` hands out the position an entry was pushed with)?  Backward over copies, references, and the
    arguments of calls that only pass data on; stops at `pop` results, parameters and constants.  -> the offending place or None"""
    seen = set()
    work = []
    pl0 = op_place(op)
    if pl0 is None:
        return None
    work.append(pl0)
    calls_by_dest = {}
    for b, t in fn.calls():
        if not t["dest"]["p"]:
            calls_by_dest.setdefault(t["dest"]["l"], []).append((b, t))
    assigns_by_local = {}
    for b, j, pl, rv, meta in fn.assigns():
        assigns_by_local.setdefault(pl["l"], []).append((b, pl, rv))
    while work:
        pl = work.pop()
        vs = [e["v"] for e in pl["p"] if isinstance(e, dict) and "v" in e and e["v"] in VALUE_VARIANTS]
        if vs:
            return "%s as %s" % ("/".join(sorted(fn.var_names().get(pl["l"], ())) or ["_%d" % pl["l"]]), "/".join(vs))
        l = pl["l"]
        if l in seen:
            continue
        seen.add(l)
        for b, t in calls_by_dest.get(l, ()):
            c = callee(t)
            if c.endswith(("VM::pop", "OpPointer::pos", "Vec<T, A>::pop")) or c.endswith("::pop"):
                continue
            # an element lookup hands out part of its receiver; the index only chooses which
            args = t["args"][:1] if c.split("::")[-1].rstrip(">") in ("get", "index", "get_mut", "nth", "get_unchecked") else t["args"]
            for a in args:
                ap = op_place(a)
                if ap is not None:
                    work.append(ap)
        for b, dpl, rv in assigns_by_local.get(l, ()):
            if rv["k"] in ("use", "ref", "cast", "agg", "addr", "copy_for_deref"):
                for o_ in rv.get("ops", ()):
                    ap = op_place(o_)
                    if ap is not None:
                        work.append(ap)
                if "place" in rv and isinstance(rv["place"], dict):
                    work.append(rv["place"])
    return None


def r39s(F):
    r = RuleResult("R39s", "stack positions are positions of the expression being evaluated",
                   "every VM::push in vm.rs / runtime.rs takes its position from a popped entry, the handler's pos parameter or the op "
                   "pointer - never out of the position list stored inside a value (where the value was written, not where it is used)",
                   floor=40)
    n = 0
    for name, fn in sorted(F.fns.items()):
        if fn.derived or fn.file not in ("src/build/opcode/vm.rs", "src/build/opcode/runtime.rs"):
            continue
        sites = [(b, t) for b, t in fn.calls() if callee(t).endswith("VM::push")]
        per = {}
        for b, t in sites:
            bad = _stored_position_source(F, fn, t["args"][2]) if len(t["args"]) > 2 else None
            short = name.split("::")[-1] if "{closure" not in name else name.split("::")[-2] + "::closure"
            k = per.get(short, 0)
            per[short] = k + 1
            n += 1
            r.inst("%s:push#%d" % (short, k), fn.where(b), bad is None,
                   "position from the stack / the op" if bad is None else
                   "the pushed position is read out of the value itself (%s): a fault in what uses it is reported where the value was written" % bad)
    return r


RULES = [r36, r37, r38, r39, r92, r39c, r39s]
