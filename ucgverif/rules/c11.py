"""C11 — tokens carry exact text and location; layout does not matter.  R71 R72 R73 R74 R86 (R77 shared with C04)."""
from .. import cfg, util
from ..core import RuleResult, need
from ..facts import callee, op_local, op_place, syn_macros
from ..origins import Origins, calls_in

TK = "ucglib::tokenizer::"
POS_FROM = "ucglib::iter::<impl core::convert::From<&'a ucglib::iter::OffsetStrIter<'a>> for ucglib::ast::Position>::from"


def recognisers(F):
    """[(fn name, kind, literals, needs_separator)] in the order `token` tries them.
    kind: lit | word (keyword followed by ws/comment) | class:<name>"""
    fn = F.fn(TK + "token")
    order = cfg.rpo(fn)
    seq = []
    for b in order:
        t = fn.term(b)
        if t["k"] == "call" and callee(t).startswith(TK) and not fn.is_cleanup(b):
            seq.append(callee(t))
    need(len(seq) >= 50, "recognisers not found in tokenizer::token (%d)" % len(seq))
    # literals and WS flag from the unexpanded do_text_token_tok! invocations
    synlit = {}
    for m in syn_macros(F.syn["tokenizer/mod.rs"]["items"], "make_fn"):
        toks = m["tokens"]
        name = toks[0].get("i")
        for i, tk in enumerate(toks):
            if tk.get("i") == "do_text_token_tok" and i + 2 < len(toks) and "g" in toks[i + 2]:
                inner = toks[i + 2]["t"]
                lits = [x.get("s") for x in inner if "s" in x]
                idents = [x.get("i") for x in inner if "i" in x]
                if lits:
                    synlit[name] = (lits[0], "WS" in idents)
    out = []
    for c in seq:
        short = c[len(TK):]
        f = F.fns.get(c)
        if short in synlit:
            lit, ws = synlit[short]
            # cross-check with the MIR constant handed to str::bytes
            if f is not None:
                consts = set(util.str_consts(f))
                need(lit in consts, "literal %r of %s not found in its MIR body" % (lit, short))
            out.append((short, "word" if ws else "lit", [lit], ws))
        elif short == "strtok":
            out.append((short, "lit", ['"'], False))
        elif short == "comment":
            out.append((short, "lit", ["//"], False))
        elif short == "booleantok":
            out.append((short, "lit", ["true", "false"], False))
        elif short == "barewordtok":
            out.append((short, "class:word", [], False))
        elif short == "digittok":
            out.append((short, "class:digit", [], False))
        elif short == "whitespace":
            out.append((short, "class:ws", [], False))
        elif short == "end_of_input":
            out.append((short, "class:eoi", [], False))
        else:
            need(False, "unclassified recogniser %s in tokenizer::token" % short)
    return out


def _class_matches(kind, lit):
    """could the class recogniser consume (a prefix of) the literal?"""
    if kind == "class:word":
        return lit[:1].isalpha() and lit[:1].isascii()
    if kind == "class:digit":
        return lit[:1].isdigit()
    if kind == "class:ws":
        return lit[:1].isspace()
    return False


def r71(F):
    r = RuleResult("R71", "longest match",
                   "for every ordered pair of the recognisers tried by `token`: an earlier recogniser never matches a proper prefix of "
                   "what a later one is meant to match (keywords require a following separator, so `in` does not shadow `include`; "
                   "word recognisers precede the bareword class; `//` precedes `/`)", floor=1500, exhaustive=True)
    rec = recognisers(F)
    n = len(rec)
    bad_pairs = 0
    for i in range(n):
        for j in range(i + 1, n):
            ni, ki, li, wi = rec[i]
            nj, kj, lj, wj = rec[j]
            verdict = None
            if ki in ("lit", "word") and kj in ("lit", "word"):
                for a in li:
                    for b in lj:
                        if b.startswith(a) and b != a:
                            # a keyword needs a separator after it: it cannot match inside a longer word
                            if wi and (b[len(a):len(a) + 1].isalnum() or b[len(a):len(a) + 1] in "_-"):
                                continue
                            verdict = "`%s` (%s) is tried before `%s` (%s) and matches its prefix: `%s` is never produced" % (a, ni, b, nj, b)
                        if a == b:
                            verdict = "`%s` is recognised twice (%s, %s)" % (a, ni, nj)
            elif ki.startswith("class:") and kj in ("lit", "word"):
                for b in lj:
                    if _class_matches(ki, b):
                        verdict = "%s is tried before %s and swallows `%s`" % (ni, nj, b)
            ok = verdict is None
            if not ok:
                bad_pairs += 1
            r.inst("pair:%s<%s" % (ni, nj), "src/tokenizer/mod.rs", ok, "no shadowing" if ok else verdict, nontrivial=(ki != "class:eoi" and kj != "class:eoi"))
    # the operators the property names, against each of their one-character prefixes
    names = {l: nme for nme, k, ls, w in rec for l in ls}
    pos = {nme: i for i, (nme, k, ls, w) in enumerate(rec)}
    for op in ("==", "=>", ">=", "<=", "..", "::", "&&", "||", "%%", "!=", "!~"):
        ok = op in names
        pre = op[0]
        if ok and pre in names:
            ok = pos[names[op]] < pos[names[pre]]
        r.inst("operator:%s" % op, "src/tokenizer/mod.rs", ok, "`%s` tried before `%s`" % (op, pre) if ok else "`%s` is not recognised before its prefix `%s`" % (op, pre))
    return r


def r72(F):
    r = RuleResult("R72", "bytes are not widened into text",
                   "nowhere in the crate (tokenizer, format-template parser, printer, converters, ..) does a u8 -> char cast reach "
                   "String::push / Vec<char>::push / String::insert: a multi-byte UTF-8 sequence must not become several Latin-1 "
                   "characters", floor=2)
    SINKS = ("alloc::string::String::push", "alloc::vec::Vec::push", "alloc::string::String::insert", "alloc::string::String::extend")
    n_cast = 0
    for name, fn in sorted(F.fns.items()):
        if fn.derived or not fn.file.startswith("src/") or "::test" in name or "/test" in fn.file:
            continue
        casts = [(b, pl["l"]) for b, j, pl, rv, m in fn.assigns() if rv["k"] == "cast" and rv["from"] == "u8" and rv["to"] == "char"]
        if not casts:
            continue
        n_cast += len(casts)
        o = Origins(fn)
        sinks = [(b, t) for b, t in fn.calls() if callee(t) in SINKS]
        bad = []
        for b, t in sinks:
            for a in t["args"][1:]:
                labs = o.at(a, b)
                if any(l[0] == "cast" and l[2] == "u8" and l[3] == "char" for l in labs):
                    bad.append(b)
        r.inst("%s:u8-as-char" % name.split("::")[-1], fn.where(bad[0] if bad else casts[0][0]), not bad,
               "%d cast(s) used for comparison / classification only" % len(casts) if not bad else
               "a byte cast to char is pushed into the token text: \"é\" becomes \"Ã©\"")
    # the mirror image: a count of characters used as a count of bytes.  The tokenizer's input iterator yields bytes; advancing it
    # (nth / skip / take / seek) by `chars().count()` of a piece of the source stops short on every multi-byte character
    for name, fn in sorted(F.fns.items()):
        if fn.derived or fn.file != "src/tokenizer/mod.rs":
            continue
        o = None
        for b, t in fn.calls():
            last = callee(t).split("::")[-1]
            if last in ("nth", "skip", "take", "seek", "advance_by", "nth_back") and len(t["args"]) >= 2:
                o = o or Origins(fn)
                labs = o.at(t["args"][1], b)
                via_chars = any(c.endswith("Chars<'a> as core::iter::traits::iterator::Iterator>::count") or
                                (c.endswith("::count") and "Chars" in c) for c in calls_in(labs)) or \
                    (any(c.endswith("::count") for c in calls_in(labs)) and any(c.endswith("<impl str>::chars") for c in calls_in(labs)))
                if via_chars:
                    r.inst("%s:char-count-as-byte-offset" % name.split("::")[-1], fn.where(b), False,
                           "the byte iterator is advanced by a number of characters (chars().count()): after \"é\" the next token is "
                           "scanned from inside the literal")
    r.note("%d u8->char casts inspected" % n_cast)
    # the string recogniser was analysed even if it has no cast left
    eq = F.fn(TK + "escapequoted")
    pushes = [b for b, t in eq.calls() if callee(t) in SINKS]
    r.inst("escapequoted:analysed", eq.where(), True, "%d accumulation sites" % len(pushes), nontrivial=False)
    return r


def r72s(F):
    r = RuleResult("R72s", "the tokenizer sees the file as it is on disk",
                   "in the file loader (Environment::get_ops_for_path, add_ops_for_path_and_content, and the language server's "
                   "analyze) the text handed to parse / tokenize is what was read, passed through nothing that rewrites it (replace, "
                   "trim, lines, to_lowercase, ..): a multi-line string literal in a CRLF file keeps its carriage returns and every "
                   "token offset is an offset into the file", floor=2)
    REWRITERS = ("replace", "replacen", "trim", "trim_start", "trim_end", "trim_matches", "to_lowercase", "to_uppercase", "lines", "split",
                 "split_whitespace", "escape_default", "escape_debug", "repeat", "truncate", "retain", "strip_prefix", "strip_suffix",
                 "from_utf8_lossy", "to_ascii_lowercase", "to_ascii_uppercase", "remove", "insert", "insert_str", "push", "push_str")
    PARSE = ("ucglib::parse::parse", "ucglib::tokenizer::tokenize")
    n = 0
    for name, fn in sorted(F.fns.items()):
        if fn.derived or not fn.file.startswith("src/") or "::test" in name or fn.file.startswith("src/parse") or fn.file.startswith("src/tokenizer"):
            continue
        sites = [(b, t) for b, t in fn.calls() if callee(t) in PARSE]
        if not sites:
            continue
        o = Origins(fn)
        for b, t in sites:
            labs = o.at(t["args"][0], b)
            cs = calls_in(labs)
            from_file = any(c.endswith(("read_to_string", "fs::read")) for c in cs)
            rew = sorted({c.split("::")[-1] for c in cs if c.split("::")[-1] in REWRITERS and ("str" in c or "String" in c or "string" in c)})
            if not from_file:
                continue            # text that does not come from a file (a template's embedded expression, the repl's line)
            n += 1
            r.inst("%s:source-unmodified" % name.split("::")[-1].replace("{closure#0}", name.split("::")[-2]), fn.where(b), not rew,
                   "the text read from the file reaches the parser unchanged" if not rew else
                   "the source text passes through %s before it is tokenized: token text and offsets no longer describe the file "
                   "(a string literal spanning CRLF lines loses its carriage returns)" % ", ".join(rew))
    return r


def r73(F):
    r = RuleResult("R73", "positions are captured before consumption",
                   "every Token built in the tokenizer takes pos from Position::from(&i) where i derives from the recogniser's input "
                   "parameter through clones only (no consuming call on it before)", floor=55)
    CLONES = ("::clone",)
    for name, fn in sorted(F.fns.items()):
        if fn.derived or fn.file != "src/tokenizer/mod.rs" or "{closure" in name:
            continue
        aggs = [(b, rv) for b, j, pl, rv, m in fn.assigns() if rv["k"] == "agg" and rv.get("adt") == "ucglib::ast::Token"]
        if not aggs:
            continue
        o = Origins(fn)
        for b, rv in aggs:
            idx = rv["fields"].index("pos")
            labs = o.at(rv["ops"][idx], b)
            cs = calls_in(labs)
            frm = [c for c in cs if c == POS_FROM]
            if name == TK + "tokenize":
                # the synthetic END token sits where the input ends: position of the loop's iterator after the last token
                ok = bool(frm)
                r.inst("tokenize:END", fn.where(b), ok, "END token positioned at the remaining input" if ok else "END token without a position from the input")
                continue
            consuming = sorted(c for c in cs if c.endswith(("::next", "::consume", "text_token")) or c.startswith(TK))
            ok = bool(frm) and ("param", 1) in labs and not consuming
            r.inst("%s:pos" % name.split("::")[-1], fn.where(b), ok,
                   "pos = Position::from(&<clone of input>)" if ok else
                   "token position is taken after input was consumed (%s)" % (consuming or "not from the input parameter"))
    return r


def r74(F):
    r = RuleResult("R74", "layout tokens are dropped",
                   "in tokenize every push of a token into the output is guarded by a test excluding WS (and, without a comment map, "
                   "COMMENT); comments are diverted before the push when a map is supplied", floor=2)
    fn = F.fn(TK + "tokenize")
    o = Origins(fn)
    pushes = []
    for b, t in fn.calls():
        if callee(t) == "alloc::vec::Vec::push":
            l = op_local(t["args"][0])
            if l is not None and "alloc::vec::Vec<ucglib::ast::Token>" in fn.local_ty(l) and ("out" in {n for x in o.alias[l] | {l} for n in fn.var_names().get(x, ())}):
                pushes.append((b, t))
    need(len(pushes) >= 3, "pushes to `out` not found (%d)" % len(pushes))
    TT = "ucglib::ast::TokenType"
    # edges a WS token (resp. COMMENT without a map) can take: at every switch on TokenType only that variant's edge;
    # at `typ != WS` / `typ == WS` comparisons only the matching edge
    def reach_for(variant):
        only = {}
        for b in range(len(fn.blocks)):
            t = fn.term(b)
            if t["k"] == "switch" and t.get("enum") == TT and not fn.is_cleanup(b):
                only[b] = {cfg.switch_edge(t, variant=variant)}
        for b, t in fn.calls():
            c = callee(t)
            if c in ("core::cmp::PartialEq::ne", "core::cmp::PartialEq::eq") or c.endswith(("TokenType as core::cmp::PartialEq>::ne", "TokenType as core::cmp::PartialEq>::eq")):
                consts = {l[2] for a in t["args"] for l in o.at(a, b) if l[0] == "const" and l[1] == "variant"}
                if consts and all(x.startswith(TT + "::") for x in consts):
                    same = (TT + "::" + variant) in consts
                    is_ne = c.endswith("::ne")
                    truth = (not same) if is_ne else same
                    for sb, ft, tt in util.bool_switches(fn, t["dest"]["l"]):
                        only[sb] = {tt if truth else ft}
        # path-sensitive on flags set to constants (`let is_ws = matches!(tok.typ, WS); .. if is_ws { continue }`)
        return cfg.reachable_ps(fn, 0, edge_ok=lambda a, b2: a not in only or b2 in only[a])
    ws_reach = reach_for("WS")
    need(len(ws_reach) > 10, "tokenize body not traversed")
    def synthetic(b, t):
        """the token pushed here is built in tokenize itself (the END marker): a struct literal, or Token::new with a constant type"""
        labs = o.at(t["args"][1], b)
        if [x for x in labs if x[0] == "agg" and x[1] == "ucglib::ast::Token"]:
            return True
        made = [x for x in labs if x[0] == "call" and x[1].startswith("ucglib::ast::Token::new")]
        if len(made) != 1:
            return False
        mt = fn.term(made[0][2])
        if mt["k"] != "call" or len(mt["args"]) < 2:
            return False
        tl = o.at(mt["args"][1], made[0][2])
        kinds = {x[2] for x in tl if x[0] == "agg" and x[1] == TT} | {str(x[2]).split("::")[-1] for x in tl if x[0] == "const" and x[1] == "variant"}
        return kinds == {"END"} and not [x for x in tl if x[0] == "call"]
    for b, t in pushes:
        if synthetic(b, t):
            r.inst("tokenize:push-END", fn.where(b), True, "synthetic END token", nontrivial=False)
            continue
        ok = b not in ws_reach
        r.inst("tokenize:push", fn.where(b), ok, "a WS token never reaches this push" if ok else "a whitespace token can reach the output: layout changes the token sequence")
    # comments: without a map they are dropped; with a map they are diverted to the comment group
    cm_reach = reach_for("COMMENT")
    group_push = [b for b, t in fn.calls() if callee(t) == "alloc::vec::Vec::push" and b not in [p[0] for p in pushes]]
    for b, t in pushes:
        if synthetic(b, t):
            continue
        ok = b not in cm_reach
        r.inst("tokenize:push-comment", fn.where(b), ok, "a COMMENT token never reaches this push" if ok else "a comment token can reach the output")
    return r


def r86(F):
    r = RuleResult("R86", "escape table",
                   "in escapequoted, on the escaped edge, exactly n -> LF, r -> CR, t -> TAB (the escapes types.md documents) and every "
                   "other byte stands for itself; an unescaped quote ends the literal", floor=4, exhaustive=True)
    fn = F.fn(TK + "escapequoted")
    sw = [(b, fn.term(b)) for b in range(len(fn.blocks)) if fn.term(b)["k"] == "switch" and fn.term(b).get("ty") in ("char", "u8") and not fn.is_cleanup(b)]
    if len(sw) > 1:
        # `match (escape, c)`: one switch on the character per value of the flag - the one under `escape == true` is the table
        esc = set(fn.locals_named("escape"))
        need(esc, "escapequoted: several switches on the character and no `escape` flag to tell them apart")
        esc_copies = set()
        for e in esc:
            esc_copies |= set(util.copies_of(fn, e, allow_not=False))
        true_edges = []
        for b in range(len(fn.blocks)):
            t = fn.term(b)
            if t["k"] != "switch" or t.get("ty") != "bool" or fn.is_cleanup(b):
                continue
            pl_ = op_place(t["on"])
            if pl_ is None:
                continue
            src = None
            if not pl_["p"] and pl_["l"] in esc_copies:
                src = pl_["l"]
            elif len(pl_["p"]) == 1 and isinstance(pl_["p"][0], dict) and "f" in pl_["p"][0]:
                # a component of the matched tuple
                for bb, j, pl2, rv2, m2 in fn.assigns():
                    if pl2["l"] == pl_["l"] and not pl2["p"] and rv2["k"] == "agg" and rv2.get("adt") == "(tuple)":
                        k_ = int(pl_["p"][0]["f"])
                        if k_ < len(rv2["ops"]) and op_local(rv2["ops"][k_]) in esc_copies:
                            src = pl_["l"]
            if src is not None:
                zero = [x["t"] for x in t["targets"] if str(x["val"]) == "0"]
                true_edges.append(t["otherwise"] if zero else [x["t"] for x in t["targets"] if str(x["val"]) == "1"][0])
        sw = [(b, t) for b, t in sw if any(cfg.dominates(fn, te_, b) for te_ in true_edges)]
    need(len(sw) == 1, "switch on the escaped character not found")
    sb, st = sw[0]
    table = {}
    o = Origins(fn)
    pushes = [(b, t) for b, t in fn.calls() if callee(t) in ("alloc::vec::Vec::push", "alloc::string::String::push")]
    for x in st["targets"]:
        ch = chr(int(x["val"]))
        reg = {b for b in range(len(fn.blocks)) if cfg.dominates(fn, x["t"], b)}
        vals = set()
        for b, t in pushes:
            if b in reg:
                a = t["args"][1]
                if "int" in a:
                    vals.add(int(a["int"]))
        table[ch] = vals
    want = {"n": {10}, "r": {13}, "t": {9}}
    import os, re
    doc = open(os.path.join(F.repo, "docsite/site/content/reference/types.md")).read()
    documented = set(re.findall(r"\* '\\(\w)' is", doc))
    need(documented, "documented escapes not found in types.md")
    for ch in sorted(set(want) | set(table) | documented):
        ok = table.get(ch) == want.get(ch) and ch in documented
        r.inst("escape:\\%s" % ch, fn.where(sb), ok, "\\%s -> byte %s (documented)" % (ch, sorted(want[ch])) if ok else
               "escape \\%s: code pushes %s, expected %s, documented: %s" % (ch, sorted(table.get(ch, [])), sorted(want.get(ch, [])), ch in documented))
    # default: the byte itself is pushed (operand derives from the loop byte, not a constant)
    other = [(b, t) for b, t in pushes if "int" not in t["args"][1]]
    ok = len(other) == 1 and not [c for c in calls_in(o.at(other[0][1]["args"][1], other[0][0])) if not c.endswith(("::next", "::clone"))] \
        and not [l for l in o.at(other[0][1]["args"][1], other[0][0]) if l[0] in ("bin", "un", "cast")]
    r.inst("escape:other", fn.where(other[0][0]) if other else fn.where(), ok, "any other byte is kept as it is" if ok else "non-escape bytes are transformed")
    # unescaped quote ends the literal: a comparison with 34 whose true edge (and !escape) returns Complete
    completes = {b for b, j, pl, rv, m in fn.assigns() if pl["l"] == 0 and not pl["p"] and rv["k"] == "agg" and rv.get("variant") == "Complete"}
    q = [(b, pl["l"]) for b, j, pl, rv, m in fn.assigns() if rv["k"] == "bin" and rv["op"] == "Eq" and any(x.get("int") == "34" for x in rv["ops"])]
    need(q, "comparison with '\"' not found")
    okq = False
    for b, l in q:
        for sb2, ft, tt in util.bool_switches(fn, l):
            if cfg.reachable(fn, tt) & completes and not (cfg.reachable(fn, ft, removed={sb}) & completes and False):
                okq = True
    r.inst("escape:quote-ends", fn.where(q[0][0]), okq, "an unescaped \" completes the literal" if okq else "closing quote not recognised")
    return r


def r74l(F):
    r = RuleResult("R74l", "the parser never decides on where a token stands",
                   "no function of the parser compares token positions (line / column / offset): the program parsed from a token "
                   "sequence is a function of the tokens alone, so white space and comments between tokens cannot change it "
                   "(`1 . 5` and `1.5` are the same three tokens)", floor=40, exhaustive=True)
    n = 0
    bad = []
    for name, fn in sorted(F.fns.items()):
        if not name.startswith("ucglib::parse::") or fn.derived or "::test" in name:
            continue
        n += 1
        o = None
        for b, j, pl, rv, m in fn.assigns():
            if rv["k"] == "bin" and rv["op"] in ("Eq", "Ne", "Lt", "Le", "Gt", "Ge") and rv.get("ty") in ("usize", "u32", "u64", "isize", "i64"):
                o = o or Origins(fn)
                labs = set()
                for x in rv["ops"]:
                    labs |= o.at(x, b)
                fs = {l[1] for l in labs if l[0] == "field"} & {"offset", "line", "column"}
                if fs:
                    bad.append((name, fn.where(b), sorted(fs)))
    for name, where, fs in bad:
        r.inst("compares:%s" % name.split("::")[-1], where, False,
               "%s compares the %s of tokens: what is parsed depends on the layout (a float written `1 . 5` or across a line break "
               "parses differently from `1.5`)" % (name.split("::")[-1], "/".join(fs)))
    r.inst("parser-functions", "src/parse/", not bad, "%d parser functions, none compares a position" % n if not bad else "%d site(s) compare positions" % len(bad))
    r.floor = 1
    return r



def r73c(F):
    r = RuleResult("R73c", "line and column come from the underlying iterator and two constants",
                   "OffsetStrIter adds offsets fixed at construction to the line / column of the abortable_parser iterator it wraps. A "
                   "field of its own that takes part in line() / column() and is written while the input is consumed is a second "
                   "counter: unless it is set back at a line break, the column of everything after the first line carries what "
                   "accumulated before (who-may-write on the wrapper's fields)", floor=2)
    from ..access import field_accesses
    ADT = "ucglib::iter::OffsetStrIter"
    fields = []
    for n, fn in F.fns.items():
        if "OffsetStrIter" not in n or fn.derived:
            continue
        for b, j, pl, rv, m in fn.assigns():
            if rv["k"] == "agg" and rv.get("adt") == ADT:
                for f in rv.get("fields") or []:
                    if f not in fields:
                        fields.append(f)
    need(fields, "OffsetStrIter is never constructed (struct not found)")
    readers = ("::column", "::line")
    for f in fields:
        if f == "contained":
            continue
        acc = field_accesses(F, ADT, f)
        writers = sorted({a[1] for a in acc if a[0] in ("assign", "mutref")})
        in_pos = any(a[0] in ("read", "ref") and a[1].endswith(readers) for a in acc)
        if not writers or not in_pos:
            r.inst("OffsetStrIter.%s:constant" % f, "src/iter.rs", True,
                   "fixed at construction" if not writers else "written in %s but not part of line() / column()" % [w.split("::")[-1] for w in writers],
                   nontrivial=in_pos)
            continue
        # a counter of its own: is it set back to a constant under a comparison with a line break?
        reset = False
        for w in writers:
            wf = F.fns[w]
            cmp10 = [b for b, j, pl, rv, m in wf.assigns() if rv["k"] == "bin" and rv["op"] in ("Eq", "Ne") and any(o_.get("int") == "10" for o_ in rv["ops"])]
            sw10 = [b for b in range(len(wf.blocks)) if wf.term(b)["k"] == "switch" and any(str(x["val"]) == "10" for x in wf.term(b)["targets"])]
            for b, j, pl, rv, m in wf.assigns():
                if any(isinstance(e, dict) and e.get("f") == f for e in pl["p"]) and rv["k"] == "use" and "int" in rv["ops"][0] and \
                        any(cfg.dominates(wf, cb, b) for cb in cmp10 + sw10):
                    reset = True
        need(not reset, "OffsetStrIter.%s is a counter of its own with a reset at a line break: whether the reset is right is not decided here" % f)
        r.inst("OffsetStrIter.%s:constant" % f, "src/iter.rs", False,
               "`%s` takes part in line() / column() and is written in %s while the input is consumed, with no reset at a line break: "
               "the column of a token after the first line depends on what came before that line" % (f, [w.split("::")[-1] for w in writers]))
    return r

RULES = [r71, r72, r73, r74, r86, r74l, r72s, r73c]
