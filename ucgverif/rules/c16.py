"""C16 — a file builds the same alone, in any batch, in any order.  R48 (state inventory), R57 shared with C13."""
from .. import cfg, util
from ..access import field_accesses
from ..core import RuleResult, need
from ..facts import callee, op_local, op_place, place_fields
from .c13 import r57
from ..origins import Origins, calls_in

ENV = "ucglib::build::opcode::environment::Environment"
CTOR = "ucglib::build::opcode::environment::Environment::new_with_vars"
IO_WRITE = ("::write_fmt", "::write_all", "::write", "::flush", "::write_str")
CLONE = ("::clone",)

# the memo caches: allowed mutators, and the discipline rule that backs the class
MEMO = {
    "val_cache": {"mut": ("alloc::collections::btree::map::BTreeMap::insert",),
                  "ro": ("alloc::collections::btree::map::BTreeMap::get",)},
    "op_cache": {"mut": ("ucglib::build::opcode::cache::Ops::entry",), "ro": ()},
    "shape_cache": {"mut": (), "ro": ("<alloc::rc::Rc<T, A> as core::clone::Clone>::clone",)},
}
# per-file state: where a file's evaluation starts, and the call that starts it
PER_FILE_ENTRIES = {
    "assert_results": [("ucglib::build::FileBuilder::build", "ucglib::build::FileBuilder::eval_ops")],
    "out_lock": [("ucglib::build::FileBuilder::build", "ucglib::build::FileBuilder::eval_ops"),
                 ("ucglib::build::opcode::runtime::Builtins::import", "ucglib::build::opcode::vm::VM::run")],
}
RESET_CALLEES = ("::remove", "::clear", "::take")


def _resetters(F, field, acc):
    """functions that put `field` back to a fresh state: whole-field assignment outside the constructor,
    or &mut field handed to remove/clear; closed under wrappers that always call one"""
    rs = set()
    for a in acc:
        if a[0] == "assign" and a[1] != CTOR:
            rs.add(a[1])
        if a[0] == "mutref":
            if any(c.endswith(RESET_CALLEES) for c, _ in a[3]):
                rs.add(a[1])
    changed = True
    while changed:
        changed = False
        for n, fn in F.fns.items():
            if n in rs or fn.derived:
                continue
            blocks = [b for b, t in fn.calls() if callee(t) in rs]
            if blocks and util.must_pass(fn, 0, blocks, exits=cfg.exits(fn)):
                rs.add(n)
                changed = True
    return rs


def _reset_before(F, fn_name, eval_callee, field, resetters):
    fn = F.fn(fn_name)
    tb = [b for b, t in fn.calls() if callee(t) == eval_callee]
    need(tb, "no call of %s in %s" % (eval_callee, fn_name))
    rb = {b for b, t in fn.calls() if callee(t) in resetters}
    for b, j, pl, rv, meta in fn.assigns():
        fs = place_fields(pl)
        if fs and fs[-1] == field:
            rb.add(b)
    if not rb:
        return False, fn, tb
    r_ = cfg.reachable(fn, 0, removed=rb)
    return not (set(tb) & r_), fn, tb


def r48(F):
    r = RuleResult("R48", "inventory of state that outlives one file",
                   "every field of the Environment shared by all files of an invocation is immutable after construction, "
                   "a write-only sink, a memo cache written only by insert-if-absent after a successful computation, or "
                   "reset on every path from a per-file entry to the file's evaluation", floor=10, exhaustive=True)
    adt = F.adt(ENV)
    fields = [f["name"] for f in adt["variants"][0]["fields"]]
    ftypes = {f["name"]: f["ty"] for f in adt["variants"][0]["fields"]}
    for field in fields:
        acc = field_accesses(F, ENV, field)
        interior = "RefCell" in ftypes[field] or "Cell<" in ftypes[field] or "Mutex" in ftypes[field]
        muts = [a for a in acc if a[0] in ("assign", "mutref") and a[1] != CTOR]
        mut_callees = sorted({c for a in muts if a[0] == "mutref" for c, _ in a[3]})
        ro_callees = sorted({c for a in acc if a[0] == "ref" for c, _ in a[3]})
        assigns = [a for a in muts if a[0] == "assign"]
        detail = {"type": ftypes[field], "mutating_calls": mut_callees, "shared_calls": ro_callees,
                  "assigned_in": sorted({a[1] for a in assigns})}
        where = "src/build/opcode/environment.rs"
        if field in PER_FILE_ENTRIES:
            rs = _resetters(F, field, acc)
            oks = []
            for fn_name, ev in PER_FILE_ENTRIES[field]:
                ok, fn, tb = _reset_before(F, fn_name, ev, field, rs)
                oks.append(ok)
                r.inst("Environment.%s:reset@%s" % (field, fn_name.split("::")[-2] + "::" + fn_name.split("::")[-1]), fn.where(tb[0]), ok,
                       "per-file state reset before the file is evaluated" if ok else
                       "per-file state `%s` is not reset on the path to the file's evaluation (resetters: %s)" % (field, sorted(rs) or "none"),
                       detail)
            continue
        if field in MEMO:
            spec = MEMO[field]
            # any method of the cache type may be the mutator of the op cache: which of them insert, and how, is decided by R48m
            bad_mut = [c for c in mut_callees if c not in spec["mut"] and not (field == "op_cache" and c.startswith("ucglib::build::opcode::cache::Ops::"))]
            ok = not assigns and not bad_mut
            if interior:
                bad_ro = [c for c in ro_callees if c not in spec["ro"]]
                ok = ok and not bad_ro
                detail["interior_mutability"] = True
            r.inst("Environment.%s:memo-writers" % field, where, ok,
                   "memo cache: mutated only through %s" % (list(spec["mut"]) or "its own insert discipline") if ok else
                   "memo cache `%s` is mutated by %s / assigned in %s" % (field, bad_mut, detail["assigned_in"]), detail)
            continue
        if not muts and not interior:
            r.inst("Environment.%s:immutable" % field, where, True, "no writer outside the constructor", detail)
            continue
        if not assigns and all(c.endswith(IO_WRITE) for c in mut_callees) and all(c.endswith(CLONE) for c in ro_callees) and not interior:
            r.inst("Environment.%s:sink" % field, where, True, "write-only sink (io::Write calls and clone only)", detail)
            continue
        # anything else is cross-file state nobody classified: it must at least be reset per file
        rs = _resetters(F, field, acc)
        oks = []
        for fn_name, ev in PER_FILE_ENTRIES["out_lock"]:
            ok, fn, tb = _reset_before(F, fn_name, ev, field, rs)
            oks.append(ok)
        r.inst("Environment.%s:unclassified" % field, where, all(oks),
               "mutable shared state, reset at every per-file entry" if all(oks) else
               "mutable state `%s` outlives a file and is neither a sink, a memo cache nor reset per file" % field, detail)
    return r


def r48m(F):
    r = RuleResult("R48m", "memo discipline of the three caches",
                   "op cache: insert only on the vacant edge after the computation succeeded; value cache: updated only on "
                   "the miss path after a successful run, keyed like the lookup; shape cache: inserted only after the "
                   "imported file checked without errors; none of them is ever shrunk", floor=7)
    # --- op cache: every function of the cache module that inserts (the Entry API today; get + insert would do as well)
    CACHE = "ucglib::build::opcode::cache::"
    inserters = [f for n, f in sorted(F.fns.items()) if n.startswith(CACHE) and not f.derived and
                 any(callee(t).endswith(("VacantEntry::insert", "BTreeMap::insert", "VacantEntry::insert_entry")) for b, t in f.calls())]
    need(inserters, "no function of the op cache module inserts into the map")
    for fn in inserters:
        o = Origins(fn)
        ins = [b for b, t in fn.calls() if callee(t).endswith(("VacantEntry::insert", "BTreeMap::insert", "VacantEntry::insert_entry"))]
        # the edges on which the key is known to be absent
        miss = []
        for b in range(len(fn.blocks)):
            t = fn.term(b)
            if t["k"] != "switch" or fn.is_cleanup(b):
                continue
            if (t.get("enum") or "").endswith("btree::map::entry::Entry"):
                miss.append(cfg.switch_edge(t, variant="Vacant"))
            elif t.get("enum") == "core::option::Option" and "src" in t:
                labs = o.at(t["src"], b)
                if any(c.endswith(("BTreeMap::get", "BTreeMap::get_mut")) for c in calls_in(labs)):
                    miss.append(cfg.switch_edge(t, variant="None"))
        for b, t in fn.calls():
            if callee(t).endswith("BTreeMap::contains_key"):
                for sb, ft, tt in util.bool_switches(fn, t["dest"]["l"]):
                    miss.append(ft)
        need(miss, "%s: no test whether the key is cached already (Entry / get / contains_key)" % fn.name)
        ok = all(any(cfg.dominates(fn, m, b) for m in miss) for b in ins)
        r.inst("op_cache:insert-on-vacant", fn.where(ins[0]), ok, "insert only where the key was found absent" if ok else "op cache overwritten when the key is present")
        # computation f() precedes insert and its Err edge does not reach insert
        calls_f = [b for b, t in fn.calls() if "FnOnce" in callee(t) or "call_once" in callee(t)]
        need(calls_f, "closure call not found in %s" % fn.name)
        fb = calls_f[0]
        t0 = fn.term(fb)
        need(not t0["dest"]["p"] and t0.get("t") is not None, "%s: result of the computation stored in a projected place" % fn.name)
        on_err = cfg.reachable_ps(fn, t0["t"], init={(t0["dest"]["l"], "Err")})
        ok = not (on_err & set(ins)) and all(cfg.dominates(fn, fb, b) for b in ins)
        r.inst("op_cache:failures-not-cached", fn.where(fb), ok, "a failed parse/check/translate is not cached" if ok else "the op cache is written on the failure path")
    # Ops.ops never shrunk
    acc = field_accesses(F, "ucglib::build::opcode::cache::Ops", "ops")
    mc = sorted({c for a in acc if a[0] == "mutref" for c, _ in a[3]})
    GROW = ("BTreeMap::entry", "BTreeMap::insert", "BTreeMap::get", "BTreeMap::get_mut", "BTreeMap::contains_key")
    ok = all(c.endswith(GROW) for c in mc) and not [a for a in acc if a[0] == "assign"]
    r.inst("op_cache:never-shrunk", "src/build/opcode/cache.rs", ok, "Ops.ops only reached through %s" % ", ".join(sorted({c.split("::")[-1] for c in mc})) if ok else "Ops.ops mutated by %s" % mc)
    # --- value cache
    upd = "ucglib::build::opcode::environment::Environment::update_path_val"
    getc = "ucglib::build::opcode::environment::Environment::get_cached_path_val"
    callers = [(n, b, t) for n, f in F.fns.items() if not f.derived for b, t in f.calls() if callee(t) == upd]
    need(callers, "update_path_val has no caller")
    for n, b, t in callers:
        f = F.fn(n)
        ok_site = n == "ucglib::build::opcode::runtime::Builtins::import"
        # dominated by the None edge of a cache lookup and by a successful VM::run
        looks = [bb for bb, tt in f.calls() if callee(tt) == getc]
        miss = False
        for lb in looks:
            for sbb, stt in util.enum_switches(f, f.term(lb)["dest"]["l"]):
                ne = cfg.switch_edge(stt, variant="None")
                if cfg.dominates(f, ne, b):
                    miss = True
        runs = [bb for bb, tt in f.calls() if callee(tt) == "ucglib::build::opcode::vm::VM::run"]
        after_run = any(cfg.dominates(f, rb_, b) for rb_ in runs)
        ok_run = False
        for rb_ in runs:
            brs = [bb for bb, tt in f.calls() if callee(tt).endswith("Try>::branch") and op_local(tt["args"][0]) == f.term(rb_)["dest"]["l"]]
            for bb in brs:
                for sbb, stt in util.enum_switches(f, f.term(bb)["dest"]["l"]):
                    ce = cfg.switch_edge(stt, variant="Continue")
                    if cfg.dominates(f, ce, b):
                        ok_run = True
        ok = ok_site and miss and after_run and ok_run
        r.inst("val_cache:update@%s" % n.split("::")[-1], f.where(b), ok,
               "value cached only on the miss path after a successful run" if ok else
               "value cache updated outside the miss-path/after-success discipline (site ok: %s, miss edge: %s, after run: %s, run succeeded: %s)" % (ok_site, miss, after_run, ok_run))
    # --- shape cache (Checker.shape_cache)
    rf = F.fn("ucglib::ast::typecheck::Checker::resolve_import")
    ins = [b for b, t in rf.calls() if callee(t).endswith("BTreeMap::insert")]
    need(len(ins) == 1, "expected one shape cache insert in resolve_import")
    res = [b for b, t in rf.calls() if callee(t) == "ucglib::ast::typecheck::Checker::result"]
    need(res, "child_checker.result() not found")
    ok = False
    for sbb, stt in util.enum_switches(rf, rf.term(res[0])["dest"]["l"]):
        oke = cfg.switch_edge(stt, variant="Ok")
        erre = cfg.switch_edge(stt, variant="Err")
        ok = cfg.dominates(rf, oke, ins[0]) and ins[0] not in cfg.reachable(rf, erre)
    r.inst("shape_cache:insert-after-success", rf.where(ins[0]), ok,
           "shape cached only when the imported file checked without errors" if ok else "shape cache written on the error path")
    acc = []
    for fld_owner in ("ucglib::ast::typecheck::Checker",):
        acc += field_accesses(F, fld_owner, "shape_cache")
    users = sorted({a[1] for a in acc})
    callees_ = sorted({c for a in acc if a[0] in ("ref", "mutref") for c, _ in a[3]})
    ok = all(c.endswith(("::clone", "RefCell::borrow", "RefCell::borrow_mut", "::deref")) for c in callees_)
    r.inst("shape_cache:users", "src/ast/typecheck/mod.rs", ok,
           "shape cache used by %s" % users if ok else "shape cache handed to %s" % callees_, {"users": users, "callees": callees_})
    # nothing removes from any BTreeMap<PathBuf, Shape>
    removers = []
    for n, f in F.fns.items():
        if f.derived:
            continue
        for b, t in f.calls():
            c = callee(t)
            if c.endswith(("BTreeMap::remove", "BTreeMap::clear", "BTreeMap::retain", "BTreeMap::pop_first", "BTreeMap::pop_last")):
                tys = " ".join(t.get("targs", []))
                argty = f.local_ty(op_local(t["args"][0])) if op_local(t["args"][0]) is not None else ""
                if "BTreeMap<std::path::PathBuf, ucglib::ast::Shape>" in argty or \
                        "BTreeMap<alloc::rc::Rc<str>, alloc::rc::Rc<ucglib::build::opcode::Value>>" in argty:
                    removers.append((n, c))
    r.inst("caches:never-shrunk", "src", not removers, "no remove/clear on the value or shape cache maps" if not removers else "cache shrunk in %s" % removers)
    return r


def r48s(F):
    r = RuleResult("R48s", "no hidden process-wide state",
                   "every `static` / thread_local in the crate is immutable (no `static mut`, no interior mutability), so the "
                   "Environment inventory of R48 is complete", floor=1, exhaustive=True)
    from ..facts import syn_walk
    found = []
    for file, d in F.syn.items():
        if file.endswith("test.rs") or file.startswith("benches/"):
            continue

        def visit(n, file=file):
            if n.get("k") == "static":
                found.append((file, n))
            if n.get("k") == "macro" and n.get("name") in ("thread_local", "lazy_static"):
                found.append((file, {"name": n["name"] + "!", "ty": "macro", "mut": True, "ln": n["ln"]}))
        # skip cfg(test) modules
        def walk_items(items):
            for it in items:
                if it.get("k") == "mod" and it.get("cfg_test"):
                    continue
                syn_walk(it, visit)
        walk_items(d["items"])
    for file, n in found:
        ty = n.get("ty", "")
        bad = n.get("mut") or any(w in ty for w in ("Cell", "Mutex", "RwLock", "Atomic", "OnceCell"))
        r.inst("static:%s:%s" % (file, n.get("name")), "src/%s:%s" % (file, n.get("ln")), not bad,
               "immutable static (%s)" % ty if not bad else "mutable process-wide state `%s: %s` outlives every file" % (n.get("name"), ty))
    return r


def r48k(F):
    r = RuleResult("R48k", "one key per file for the out lock",
                   "get_out_lock_for_path, set_out_lock_for_path and reset_out_lock_for_path derive the key they look up / insert / "
                   "remove from their path argument by the same conversions: a lock taken under one spelling of a path and released "
                   "under another stays set for the next evaluation of the file", floor=3, exhaustive=True)
    ENV = "ucglib::build::opcode::environment::Environment::"
    NEUTRAL = ("::as_ref", "::into", "::borrow", "::deref", "::to_path_buf", "::to_owned", "::clone", "::from", "::as_path")
    sig = {}
    for name, ops in (("get_out_lock_for_path", ("contains", "get")), ("set_out_lock_for_path", ("insert",)), ("reset_out_lock_for_path", ("remove", "take"))):
        fn = F.fn(ENV + name)
        o = Origins(fn)
        sites = [(b, t) for b, t in fn.calls() if callee(t).split("::")[-1] in ops and ("Set" in callee(t) or "Map" in callee(t))]
        need(len(sites) == 1, "%s: the set operation on out_lock was not found" % name)
        b, t = sites[0]
        cs = {c for c in calls_in(o.at(t["args"][1], b)) if not c.endswith(NEUTRAL)}
        sig[name] = (fn, b, frozenset(cs))
    # ... and inside the import hook, which knows the file under its normalised path, every lock call uses that path
    imp = F.fn("ucglib::build::opcode::runtime::Builtins::import")
    oi = Origins(imp)
    for b, t in imp.calls():
        c = callee(t)
        if c.endswith(("Environment::reset_out_lock_for_path", "Environment::get_out_lock_for_path", "Environment::set_out_lock_for_path")):
            labs = oi.at(t["args"][1], b)
            okn = "ucglib::path::normalize" in calls_in(labs)
            r.inst("import-hook:%s" % c.split("::")[-1], imp.where(b), okn,
                   "called with the normalised path" if okn else
                   "the import hook calls %s with the path as it was written, while the lock of a built file is kept under the folded "
                   "path: an import spelled with `..` does not release the lock and the importer fails with \"one output per file\""
                   % c.split("::")[-1])
    ref = sig["set_out_lock_for_path"][2]
    for name, (fn, b, cs) in sorted(sig.items()):
        ok = cs == ref
        r.inst(name, fn.where(b), ok,
               "key = the path as given%s" % (" through " + ", ".join(sorted(x.split("::")[-1] for x in cs)) if cs else "") if ok else
               "%s derives its key through {%s} but set_out_lock_for_path through {%s}: `ucg build ../main.ucg ../lib.ucg` (lib imported "
               "by main and built again) fails with \"one output per file\"" % (name, ", ".join(sorted(x.split("::")[-1] for x in cs)) or "-",
                                                                                 ", ".join(sorted(x.split("::")[-1] for x in ref)) or "-"))
    return r


from .c09 import r26l as _r26l, r68 as _r68

RULES = [r48, r48m, r48s, r57, r48k, _r26l, _r68]
