"""C03 — JSON/YAML/TOML output decodes back to the value.  R10 R11 R12 R64 R70."""
from .. import cfg, util, variants
from ..core import RuleResult, need
from ..facts import callee, op_local, op_place, syn_walk
from ..origins import Origins, calls_in

VAL = "ucglib::build::ir::Val"
CONV = {
    "json": "ucglib::convert::json::JsonConverter::",
    "yaml": "ucglib::convert::yaml::YamlConverter::",
    "toml": "ucglib::convert::toml::TomlConverter::",
}
FILES = ("src/convert/json.rs", "src/convert/yaml.rs", "src/convert/toml.rs", "src/convert/yamlmulti.rs")
# which Val variants a format cannot represent (must be an error, never dropped or defaulted)
MUST_ERR = {"json": {"Constraint"}, "yaml": {"Constraint"}, "toml": {"Constraint", "Empty"}}


def r10(F):
    r = RuleResult("R10", "no lossy numeric conversion in the serialising converters",
                   "no int<->float or narrowing integer cast is applied to a Val::Int / Val::Float payload on its way to the "
                   "serializer (numbers must keep their numeric value)", floor=3)
    n = 0
    for name, fn in sorted(F.fns.items()):
        if fn.derived or fn.file not in FILES:
            continue
        o = None
        for b, j, pl, rv, m in fn.assigns():
            if rv["k"] != "cast" or rv["cast"] not in ("IntToFloat", "FloatToInt", "IntToInt", "FloatToFloat"):
                continue
            o = o or Origins(fn)
            labs = o.at(rv["ops"][0], b)
            from_val = ("variant", "Int") in labs or ("variant", "Float") in labs
            if not from_val:
                continue
            n += 1
            lossy = rv["cast"] in ("IntToFloat", "FloatToInt") or \
                (rv["cast"] == "IntToInt" and rv["from"] in ("i64", "u64", "i128", "u128") and rv["to"] not in ("i64", "i128", "u128")) or \
                (rv["cast"] == "FloatToFloat" and rv["from"] == "f64" and rv["to"] == "f32")
            r.inst("%s:cast:%s->%s" % (name.split("::")[-2] + "::" + name.split("::")[-1], rv["from"], rv["to"]), fn.where(b), not lossy,
                   "value-preserving cast" if not lossy else
                   "a Val number is converted %s -> %s before serialisation: integers above 2^53 change value (9007199254740993 -> 9007199254740992.0)" % (rv["from"], rv["to"]))
    # the conversion functions themselves were analysed even when they contain no cast
    for k, p in CONV.items():
        fn = F.fn(p + "convert_value")
        casts = [1 for b, j, pl, rv, m in fn.assigns() if rv["k"] == "cast" and rv["cast"] in ("IntToFloat", "FloatToInt")]
        r.inst("%s:convert_value:analysed" % k, fn.where(), True, "%d numeric cast(s) in the body" % len(casts), nontrivial=False)
    return r


def r11(F):
    r = RuleResult("R11", "representability table",
                   "per converter and Val variant: every path returns Err exactly for the variants the format cannot represent "
                   "(Constraint everywhere, NULL in TOML); every other variant has a path that produces a value; a float that "
                   "serde_json cannot represent (non-finite) is an error", floor=27, exhaustive=True)
    preds = variants.predicates(F, VAL)
    for k, p in CONV.items():
        fn = F.fn(p + "convert_value")
        oks = util.result_blocks(fn, "Ok")
        errs = util.result_blocks(fn, "Err")
        # `?` forwards an Err through from_residual
        errs |= {b for b, t in fn.calls() if callee(t).endswith("::from_residual")}
        # an arm may also hand on the Result of a call (a helper's, or a combinator chain ending in ok_or_else / map_err):
        # that can be either
        feed = util.feeders_of(fn, 0)
        either = {b for b, t in fn.calls() if t["dest"]["l"] in feed and not t["dest"]["p"] and not callee(t).endswith("::from_residual")}
        for v in F.variants(VAL):
            reach = variants.reach_variant(F, fn, 0, VAL, v, preds)
            can_ok = bool(reach & oks)
            can_err = bool(reach & errs)
            if reach & either and not (reach & (oks | errs)):
                if v in MUST_ERR[k]:
                    need(False, "%s::convert_value: the %s arm returns the result of a call; whether it can be Ok is not visible here" % (k, v))
                can_ok = True
            if v in MUST_ERR[k]:
                ok = can_err and not can_ok
                r.inst("%s:%s" % (k, v), fn.where(), ok, "always an error" if ok else
                       "%s cannot represent %s but the converter can return a value for it (silently altered output)" % (k, v))
            else:
                ok = can_ok
                r.inst("%s:%s" % (k, v), fn.where(), ok, "converted" + (" (or error from a nested value)" if can_err else "") if ok else
                       "%s never produces a value for %s" % (k, v))
    # scalar kinds: the value built for a scalar is of the serializer's matching kind, and only of that kind (a string that looks
    # like a date is still a string: `"1979-05-27"` written as a TOML datetime decodes as a date, not as the string)
    KIND = {"Str": {"String"}, "Boolean": {"Bool", "Boolean"}, "Int": {"Number", "Integer"}, "Float": {"Number", "Float"}, "Empty": {"Null"}}
    for k, p in CONV.items():
        fn = F.fn(p + "convert_value")
        for v, want in KIND.items():
            reach = variants.reach_variant(F, fn, 0, VAL, v, preds)
            built = {rv.get("variant") for b, j, pl, rv, m in fn.assigns() if b in reach and rv["k"] == "agg" and
                     (rv.get("adt") or "").endswith("value::Value")}
            if not built:
                continue            # produced through the serializer (to_value) or refused
            okk = built <= want
            r.inst("%s:%s:kind" % (k, v), fn.where(), okk, "%s -> %s" % (v, "/".join(sorted(built))) if okk else
                   "%s can write a %s as %s: the decoded value is of another type than the one written in ucg" % (k, v, sorted(built - want)))
    # json: Number::from_f64 None -> Err
    fn = F.fn(CONV["json"] + "convert_value")
    errs = {b for b, j, pl, rv, m in fn.assigns() if pl["l"] == 0 and not pl["p"] and rv["k"] == "agg" and rv.get("variant") == "Err"}
    ff = [(b, t) for b, t in fn.calls() if callee(t).endswith("Number::from_f64")]
    need(ff, "serde_json::Number::from_f64 not used in JsonConverter::convert_value")
    from .. import translator as TR
    for b, t in ff:
        arm = [v for v in F.variants(VAL) if b in TR.arm_blocks(fn, VAL, v)]
        for sb, st in util.enum_switches(fn, t["dest"]["l"]):
            ne = cfg.switch_edge(st, variant="None")
            ok = util.must_pass(fn, ne, errs, exits=cfg.exits(fn))
            r.inst("json:non-finite-float:%s" % "/".join(arm), fn.where(sb), ok, "from_f64 == None -> Err" if ok else "a float JSON cannot represent does not end in an error")
    return r


def r64(F):
    r = RuleResult("R64", "container totality and order",
                   "in convert_list / convert_tuple / convert_env of the three converters every iteration either fails the whole "
                   "conversion or adds the converted element; lists grow by Vec::push from a forward iterator (order preserved)",
                   floor=9)
    ADD = ("alloc::vec::Vec::push", "::or_insert", "Mapping::insert", "::insert")
    for k, p in CONV.items():
        for f in ("convert_list", "convert_tuple", "convert_env"):
            fn = F.fn(p + f)
            loops = cfg.natural_loops(fn)
            if not loops:
                # iterator pipeline instead of a loop: map + collect into a Result keeps every element or fails as a whole;
                # an adaptor that can skip an item (flat_map/filter_map over a Result swallow the Err and the element) does not
                its = {}
                for b, t in fn.calls():
                    c = callee(t)
                    if "::Iterator::" in c or c.startswith("core::iter::"):
                        its.setdefault(c.split("::")[-1], []).append(b)
                need("collect" in its or "for_each" in its or "try_fold" in its, "neither a loop nor an iterator pipeline in %s%s" % (p, f))
                skipping = sorted(set(its) & {"flat_map", "filter_map", "flatten", "filter", "take", "skip", "step_by", "take_while",
                                               "skip_while", "map_while", "last", "nth", "find", "find_map"})
                cb = (its.get("collect") or its.get("try_fold") or its.get("for_each"))[0]
                dest_ty = fn.local_ty(fn.term(cb)["dest"]["l"])
                into_result = dest_ty.startswith("core::result::Result") or "try_fold" in its
                ok = not skipping and "map" in its and into_result
                r.inst("%s:%s:every-element" % (k, f), fn.where(cb), ok,
                       "map + collect into a Result: every element is converted or the conversion fails" if ok else
                       ("the pipeline uses %s: an element whose conversion fails is skipped and its error is lost" % ", ".join(skipping) if skipping else
                        "the pipeline does not collect into a Result: a failed element does not fail the conversion"))
                if f == "convert_list":
                    rev = sorted(set(its) & {"rev"})
                    r.inst("%s:convert_list:order" % k, fn.where(cb), not rev, "forward pipeline" if not rev else "list order not preserved (%s)" % rev)
                continue
            need(len(loops) == 1, "expected one loop in %s%s" % (p, f))
            h, body = next(iter(loops.items()))
            nexts = [b for b in body if fn.term(b)["k"] == "call" and callee(fn.term(b)).endswith("::next")]
            need(nexts, "iterator not found in %s%s" % (p, f))
            some = None
            for sb, st in util.enum_switches(fn, fn.term(nexts[0])["dest"]["l"]):
                some = cfg.switch_edge(st, variant="Some")
            need(some is not None, "Some edge not found")
            adds = {b for b, t in fn.calls() if callee(t).endswith(ADD) and b in body}
            # a path Some-edge -> header that avoids every add = element dropped
            dropped = h in cfg.reachable(fn, some, removed=adds)
            iteration = cfg.reachable(fn, some, removed={h})
            early_ok = [b for b, j, pl, rv, m in fn.assigns() if b in iteration and pl["l"] == 0 and not pl["p"] and rv["k"] == "agg" and rv.get("variant") == "Ok"]
            ok = bool(adds) and not dropped and not early_ok
            r.inst("%s:%s:every-element" % (k, f), fn.where(h), ok,
                   "each iteration adds the element or fails the conversion" if ok else
                   "an element can be skipped (%s) or the loop left with success (%s)" % (dropped, bool(early_ok)))
            if f == "convert_list":
                cs = {callee(t) for b, t in fn.calls()}
                rev = sorted(c for c in cs if c.endswith(("::rev", "Vec::insert", "::reverse", "::sort", "::swap")))
                pushes = [c for c in cs if c == "alloc::vec::Vec::push"]
                ok = not rev and bool(pushes)
                r.inst("%s:convert_list:order" % k, fn.where(h), ok, "forward iteration, append only" if ok else "list order not preserved (%s)" % rev)
    return r


def r12(F):
    r = RuleResult("R12", "multi-document framing",
                   "MultiYamlConverter::convert_list writes a document start marker before every document", floor=1)
    fn = F.fn("ucglib::convert::yamlmulti::MultiYamlConverter::convert_list")
    loops = cfg.natural_loops(fn)
    need(len(loops) == 1, "expected one loop in MultiYamlConverter::convert_list")
    h, body = next(iter(loops.items()))
    docs = [b for b, t in fn.calls() if callee(t) == "ucglib::convert::yaml::YamlConverter::write"]
    need(docs, "YamlConverter::write not called")
    markers = set()
    for b, t in fn.calls():
        strs = [a.get("str") for a in t["args"] if "str" in a]
        if any(s.startswith("---") for s in strs):
            markers.add(b)
    # the marker constant must flow into a write on the output before each document
    writes = {b for b, t in fn.calls() if callee(t).endswith(("::write_fmt", "::write_all", "::write_str"))}
    o = Origins(fn)
    mw = set()
    for b in writes:
        labs = set()
        for a in fn.term(b)["args"]:
            labs |= o.at(a, b)
        if any(l[0] == "const" and l[1] == "str" and str(l[2]).startswith("---") for l in labs):
            mw.add(b)
    for d in docs:
        nexts = [b for b in body if fn.term(b)["k"] == "call" and callee(fn.term(b)).endswith("::next")]
        some = None
        for sb, st in util.enum_switches(fn, fn.term(nexts[0])["dest"]["l"]):
            some = cfg.switch_edge(st, variant="Some")
        ok = bool(mw) and d not in cfg.reachable(fn, some, removed=mw)
        r.inst("yamlmulti:marker-before-document", fn.where(d), ok, "`---` written before every document" if ok else
               "documents are written back to back without `---`: two tuples are read back as one merged mapping")
    return r


VERBATIM = ("::deref", "::as_ref", "::borrow", "::as_str", "::clone", "::as_bytes", "::to_string", "::to_owned", "::into", "::branch",
            "::from_residual", "::must_use", "Arguments::new", "Argument::new_display", "::format")


def r12b(F):
    r = RuleResult("R12b", "the YAML text is the serializer's document, nothing more and nothing less",
                   "YamlConverter::write hands the value to serde_yaml and writes exactly what it produced: no write follows "
                   "to_writer, and a document obtained with to_string reaches the output unchanged (no trim / replace on the way, "
                   "no second write): the end of a YAML document is significant -- a blank line added after it becomes content of a "
                   "trailing `|+` block scalar, trimming it removes content of one", floor=1)
    fn = F.fn("ucglib::convert::yaml::YamlConverter::write")
    ser = [(b, t) for b, t in fn.calls() if callee(t).startswith("serde_yaml::") and ("to_writer" in callee(t) or "to_string" in callee(t))]
    need(len(ser) == 1, "YamlConverter::write: serializer call not found")
    sb, st = ser[0]
    after = cfg.reachable(fn, st["t"])
    writes = [(b, t) for b, t in fn.calls() if b in after and callee(t).endswith(("::write_fmt", "::write_all", "::write_str", "::write"))]
    if "to_writer" in callee(st):
        r.inst("yaml:no-trailing-write", fn.where(sb), not writes,
               "the document ends with the serializer's own newline" if not writes else
               "%d write(s) after serde_yaml::to_writer (first at %s): the YAML text is no longer the serializer's document" % (len(writes), fn.where(writes[0][0])))
        return r
    o = Origins(fn)
    ok = len(writes) == 1
    why = "the serialised document is written once, unchanged"
    if not writes:
        ok, why = False, "the serialised document is never written"
    elif len(writes) > 1:
        why = "%d writes after serde_yaml::to_string: something is added to the document" % len(writes)
    else:
        b, t = writes[0]
        labs = set()
        for a in t["args"][1:]:
            labs |= o.at(a, b)
        cs = calls_in(labs)
        if callee(st) not in cs:
            ok, why = False, "what is written does not come from the serialiser"
        else:
            extra = sorted(c for c in cs if c != callee(st) and not c.endswith(VERBATIM))
            tmpl = None
            if callee(t).endswith("write_fmt"):
                # writeln!/write! with literal text around the placeholder adds to the document
                for bb, tt in fn.calls():
                    if callee(tt) == "core::fmt::Arguments::new" and cfg.dominates(fn, bb, b):
                        from .c05 import template_of
                        tmpl = template_of(fn, bb)
            if extra:
                ok, why = False, "the document passes through %s before it is written: its end is significant" % ", ".join(x.split("::")[-1] for x in extra)
            elif tmpl is not None and tmpl.replace(b"\x00", b"") != b"":
                ok, why = False, "the document is written with extra text %r around it" % tmpl.replace(b"\x00", b"{}").decode()
    r.inst("yaml:no-trailing-write", fn.where(sb), ok, why)
    return r


def r64v(F):
    r = RuleResult("R64v", "the value handed to the converters keeps every field and element",
                   "the lowering of a VM value to the converters' Val (impl From<&Value> for Val) copies every field of a tuple and "
                   "every element of a list: each loop iteration pushes (no skip by name or kind), in order", floor=2)
    cands = [n for n in F.fns if n.startswith("ucglib::build::opcode::convert::") and "From<&" in n and "for ucglib::build::ir::Val" in n and n.endswith("::from")]
    need(len(cands) == 1, "impl From<&Value> for Val not found (%s)" % cands)
    fn = F.fn(cands[0])
    loops = cfg.natural_loops(fn)
    if len(loops) < 2:
        # written as iterator pipelines: map + collect keeps every item, the skipping adaptors do not
        its = {}
        for b, t in fn.calls():
            c = callee(t)
            if "::Iterator::" in c or c.startswith("core::iter::"):
                its.setdefault(c.split("::")[-1], []).append(b)
        need("collect" in its and "map" in its, "neither the two loops nor iterator pipelines in From<&Value> for Val")
        skipping = sorted(set(its) & {"flat_map", "filter_map", "flatten", "filter", "take", "skip", "step_by", "take_while", "skip_while", "map_while"})
        r.inst("lowering:pipelines:every-item", fn.where(its["collect"][0]), not skipping,
               "map + collect: every item is kept" if not skipping else
               "the lowering pipeline uses %s: an item can be skipped while a value is lowered for output" % ", ".join(skipping))
        r.floor = 1
        return r
    for k, (h, body) in enumerate(sorted(loops.items())):
        nexts = [b for b in body if fn.term(b)["k"] == "call" and callee(fn.term(b)).endswith("::next")]
        need(nexts, "iterator not found in a loop of From<&Value> for Val")
        some = None
        for sb, st in util.enum_switches(fn, fn.term(nexts[0])["dest"]["l"]):
            some = cfg.switch_edge(st, variant="Some")
        need(some is not None, "Some edge not found")
        adds = {b for b, t in fn.calls() if callee(t) == "alloc::vec::Vec::push" and b in body}
        dropped = h in cfg.reachable(fn, some, removed=adds)
        ok = bool(adds) and not dropped
        r.inst("lowering:loop#%d:every-item" % k, fn.where(h), ok,
               "every iteration pushes the converted item" if ok else
               "an item can be skipped while a value is lowered for output: a field or element silently disappears from every format")
    return r


def r70(F):
    r = RuleResult("R70", "output only through the serializers",
                   "no Val payload is hand-formatted into the output of the json/yaml/toml/yamlmulti converters: formatted writes "
                   "carry only serializer results or constants", floor=3)
    ser = ("toml::ser::to_string_pretty", "toml::ser::to_string")
    for k, p in list(CONV.items()) + [("yamlmulti", "ucglib::convert::yamlmulti::MultiYamlConverter::")]:
        for name, fn in sorted(F.fns.items()):
            if not name.startswith(p) or fn.derived:
                continue
            o = None
            for b, t in fn.calls():
                c = callee(t)
                if c.startswith("core::fmt::rt::Argument::new_"):
                    mac = t.get("macros") or []
                    if not any(m in ("write", "writeln") for m in mac):
                        continue
                    o = o or Origins(fn, opaque=ser)
                    labs = o.at(t["args"][0], b)
                    payload = [l for l in labs if l[0] == "variant" and l[1] in ("Int", "Float", "Str", "Boolean")]
                    r.inst("%s:%s:formatted-write" % (k, name.split("::")[-1]), fn.where(b), not payload,
                           "argument is a serializer result" if not payload else "a %s payload is formatted by hand into the output" % payload[0][1])
        w = F.fn(p + "write") if (p + "write") in F.fns else None
        if w is not None:
            cs = {callee(t) for b, t in w.calls()}
            sers = sorted(c for c in cs if c.startswith(("serde_json::ser::", "serde_yaml::ser::", "toml::ser::")))
            r.inst("%s:serializer" % k, w.where(), bool(sers), "delegates to %s" % sers if sers else "no serializer entry point called in %swrite" % p)
    return r



def r12c(F):
    r = RuleResult("R12c", "the convert expression hands on the converter's text unaltered",
                   "`convert <fmt> <expr>` evaluates to exactly what the converter wrote into its buffer: the string pushed by "
                   "Builtins::convert comes from from_utf8 / from_utf8_lossy of that buffer through conversions only - no trim, "
                   "replace or slice in between (a trailing line break can be content: a YAML block scalar ends in it)", floor=1)
    name = "ucglib::build::opcode::runtime::Builtins::convert"
    need(name in F.fns, "Builtins::convert not found")
    fn = F.fn(name, flat=True)
    PRIM = "ucglib::build::opcode::Primitive"
    aggs = [(b, rv) for b, j, pl, rv, m in fn.assigns() if rv["k"] == "agg" and rv.get("adt") == PRIM and rv.get("variant") == "Str"]
    need(aggs, "Builtins::convert builds no Primitive::Str")
    n = 0
    for b, rv in aggs:
        src = util.source_calls(fn, rv["ops"][0], pass_through=util.PASS_THROUGH + ("::into_owned", "::as_slice", "::into_boxed_str", "::into_string",
                                                                                  "::as_bytes", "::as_mut_slice", "::branch"))
        names = sorted({c[0] for c in src if c[0] != "param"})
        own = [c for c in names if c in F.fns and c.startswith(("ucglib::", "<ucglib::")) and "from_utf8" not in c]
        need(not own, "Builtins::convert: the text passes through %s, a function of the crate this rule does not look into" % own[:1])
        if not names and any(c[0] == "param" for c in src):
            continue        # a string handed in by the caller (not the converted text)
        decoded = [c for c in names if "from_utf8" in c]
        other = [c.split("::")[-1] for c in names if "from_utf8" not in c]
        ok = bool(decoded) and not other
        r.inst("convert:text-verbatim#%d" % n, fn.where(b), ok,
               "the pushed string is the decoded buffer" if ok else
               "the converted text goes through %s before it is pushed: `convert yaml {body = \"a\\n\"}` no longer decodes to the value" % (other or ["an unidentified source"]))
        n += 1
    need(n, "Builtins::convert: the string built from the converter's buffer was not found")
    return r

from . import c14 as _c14

from . import c11 as _c11

RULES = [r10, r11, r12, r12b, r12c, r64, r64v, r70, _c14.r49t, _c11.r72]
