"""C05 — formatting never changes meaning or loses comments.  R14 R14v R15 R16 R16m R17 R79 (+R8 of C02)."""
import re

from .. import cfg, util, grammar, gfields, printer
from ..core import RuleResult, need, AnchorError
from ..facts import callee, syn_items, syn_walk
from . import c02

PR = "src/ast/printer/mod.rs"

# which parser rule builds which AST variant (confirmed by reading; R14v re-checks that the rule names the variant)
EXPR_RULE = {
    "Binary": "op_expression", "Cast": "cast_expression", "Call": "call_expression", "Copy": "copy_expression",
    "Debug": "trace_expression", "Fail": "fail_expression", "Convert": "convert_expression", "Format": "format_expression",
    "Func": "func_expression", "FuncOp": "func_op_expression", "Grouped": "grouped_expression", "Import": "import_expression",
    "Include": "include_expression", "Module": "module_expression", "Not": "not_expression", "Range": "range_expression",
    "Select": "alt_select_expression", "Simple": "simple_expression", "Constraint": "constraint_expression",
}
STMT_RULE = {"Let": "let_statement", "Expression": "expression_statement", "Assert": "assert_statement",
             "Output": "out_statement", "Constraint": "constraint_statement"}
VALUE_RULE = {"List": "list_value", "Tuple": "tuple"}


def _comps(p):
    return [c for c in p.split(".") if c != ""]


def path_compat(p, paths):
    """printer field path against the set of AST field paths a grammar leaf flows into"""
    ps = {x for x in paths if x not in ("pos",) and not x.startswith("pos.")}
    named = {x for x in ps if x != ""}
    if not named:
        return True
    a = _comps(p)
    if not a:
        return True
    for x in named:
        b = _comps(x)
        n = min(len(a), len(b))
        if a[:n] == b[:n] or a[-n:] == b[-n:]:
            return True
    return False


def sym_class(s):
    # a value child (render_value of a symbol) and a raw token field are the same thing at the token level
    if s[0] == "S":
        return "F" if s[1] == "value" else "S:" + s[1]
    return s[0]


def leaf_class(lf):
    return "F" if lf["cls"] in ("W", "S:value") else lf["cls"]


def _range_arm_without_bounds(trace):
    for a, b in zip(trace, trace[1:]):
        if a[0] == "opt" and b[0] == "opt" and a[1].endswith("start") and b[1].endswith("end") and not a[2] and not b[2]:
            return True
    return False


def _verify_range_arm(I, G):
    g, _ = gfields.Instance(I.F, G).inst(G["constraint_range_arm"][0], "constraint_range_arm")
    return all(any(x[0] == "leaf" for x in f) for f in forms(g, 2))


# node shapes the printer can be handed by a program but never by the parser; each entry is re-verified against the grammar
UNPRODUCIBLE = {
    "Expression::Constraint": (_range_arm_without_bounds, _verify_range_arm,
                               "a range arm with neither bound: every sentence form of constraint_range_arm carries a start or an end"),
}


class Matcher:
    def __init__(self, leaves):
        self.leaves = leaves

    def sym_ok(self, g, s):
        if g[0] == "lit":
            return s == ("t", g[1])
        lf = self.leaves[g[1]]
        if s[0] in ("t", "?"):
            return False
        if leaf_class(lf) != sym_class(s):
            return False
        return path_compat(s[-1], lf["paths"])

    def ends(self, g, seq, i, memo):
        key = (id(g), i)
        if key in memo:
            return memo[key]
        memo[key] = frozenset()
        k = g[0]
        if k in ("lit", "leaf"):
            r = frozenset({i + 1}) if i < len(seq) and self.sym_ok(g, seq[i]) else frozenset()
        elif k == "eps":
            r = frozenset({i})
        elif k == "seq":
            cur = {i}
            for x in g[1]:
                nxt = set()
                for j in cur:
                    nxt |= self.ends(x, seq, j, memo)
                cur = nxt
                if not cur:
                    break
            r = frozenset(cur)
        elif k == "alt":
            out = set()
            for x in g[1]:
                out |= self.ends(x, seq, i, memo)
            r = frozenset(out)
        elif k == "opt":
            r = frozenset({i}) | self.ends(g[1], seq, i, memo)
        elif k in ("rep", "rep1"):
            out = {i} if k == "rep" else set()
            cur = {i}
            seen = set()
            while cur:
                nxt = set()
                for j in cur:
                    for e in self.ends(g[1], seq, j, memo):
                        if e not in seen and e > j:
                            nxt.add(e)
                seen |= nxt
                out |= nxt
                cur = nxt
            r = frozenset(out)
        elif k == "sep":
            out = set()
            cur = set(self.ends(g[2], seq, i, memo))
            seen = set(cur)
            out |= cur
            while cur:
                nxt = set()
                for j in cur:
                    for m in self.ends(g[1], seq, j, memo):
                        for e in self.ends(g[2], seq, m, memo):
                            if e not in seen:
                                nxt.add(e)
                seen |= nxt
                out |= nxt
                cur = nxt
            r = frozenset(out)
        else:
            raise AnchorError("matcher: unknown term %r" % (k,))
        memo[key] = r
        return r

    def accepts(self, g, seq):
        return len(seq) in self.ends(g, seq, 0, {})


def forms(g, bound):
    """bounded sentence forms of a gterm: lists of ("lit", text) / ("leaf", id)"""
    k = g[0]
    if k in ("lit", "leaf"):
        return [[g]]
    if k == "eps":
        return [[]]
    if k == "seq":
        out = [[]]
        for x in g[1]:
            fx = forms(x, bound)
            out = [a + b for a in out for b in fx]
            if len(out) > 400000:
                raise AnchorError("grammar sentence forms exceed the budget")
        return out
    if k == "alt":
        out = []
        for x in g[1]:
            out.extend(forms(x, bound))
        return out
    if k == "opt":
        return [[]] + forms(g[1], bound)
    if k in ("rep", "rep1"):
        fx = forms(g[1], bound)
        out = [[]] if k == "rep" else []
        cur = [[]]
        # one element less than a separated list: `first rest*` then fills a collection of at most `bound` elements
        for n in range(bound - 1):
            cur = [a + b for a in cur for b in fx]
            out.extend(cur)
        return out
    if k == "sep":
        fs = forms(g[1], bound)
        fi = forms(g[2], bound)
        out = []
        cur = list(fi)
        out.extend(cur)
        for n in range(bound - 1):
            cur = [a + s + b for a in cur for s in fs for b in fi]
            out.extend(cur)
        return out
    raise AnchorError("forms: unknown term %r" % (k,))


def slot_sig(seq):
    return tuple(sym_class(s) for s in seq if s[0] != "t")


def form_sig(form, leaves):
    return tuple(leaf_class(leaves[x[1]]) for x in form if x[0] == "leaf")


def slots_match(form, seq, leaves):
    fl = [leaves[x[1]] for x in form if x[0] == "leaf"]
    sl = [s for s in seq if s[0] != "t"]
    return len(fl) == len(sl) and all(path_compat(s[-1], lf["paths"]) for lf, s in zip(fl, sl))


def binary_gterm(I, G):
    """Binary is built by the hand-written precedence parser (C02 decides the grouping); here: one operator between two operands"""
    l = I.leaf("S:expr", "non_op_expression", "op_expression", "left")
    I.leaves[l]["paths"].add("left")
    I.leaves[l]["used"] = True
    r = I.leaf("S:expr", "non_op_expression", "op_expression", "right")
    I.leaves[r]["paths"].add("right")
    I.leaves[r]["used"] = True
    op, _ = I.inst(G["operator"][0], "operator")
    return ("seq", [("leaf", l), op, ("leaf", r)])


def check_variant(r, F, G, enum, variant, rule, sents, ln, runs, unknown, bound):
    where = "%s:%d" % (PR, ln)
    key = "%s::%s" % (enum, variant)
    # a construct the interpreter does not model is a limit of the interpreter, not a property of the printer: cannot decide
    need(not unknown, "%s: the printer arm uses constructs the interpreter does not model: %s" % (key, unknown))
    I = gfields.Instance(F, G)
    if rule == "op_expression":
        g = binary_gterm(I, G)
    else:
        g = I.root(rule)
    unused = [(l["rule"], l["binding"]) for l in I.leaves.values() if not l["used"] and l["binding"] != "_"]
    if unused:
        raise AnchorError("rule %s: parsed bindings never reach the result: %s" % (rule, unused))
    M = Matcher(I.leaves)
    skipped = 0
    if key in UNPRODUCIBLE:
        pred, verify, why = UNPRODUCIBLE[key]
        need(verify(I, G), "unproducible-shape entry for %s no longer holds: %s" % (key, why))
        keep = {(s, t) for (s, t) in sents if not pred(t)}
        skipped = len(sents) - len(keep)
        sents = keep
    sents = {s for (s, t) in sents}
    gf = forms(g, bound)
    longest = max((len(slot_sig(s)) for s in sents), default=0)
    gf = [f for f in gf if len(form_sig(f, I.leaves)) <= longest] or gf
    by_sig = {}
    for f in gf:
        by_sig.setdefault(form_sig(f, I.leaves), []).append(f)
    accepted = {}
    bad = None
    producible = 0
    for s in sorted(sents, key=lambda x: (len(x), x)):
        cands = by_sig.get(slot_sig(s), [])
        prod = any(slots_match(f, s, I.leaves) for f in cands)
        acc = M.accepts(g, s)
        accepted[s] = acc
        if prod:
            producible += 1
            if not acc and bad is None:
                bad = s
    r.inst(key + ":accepted", where, bad is None,
           ("%d printed sentence forms (of %d shapes explored, loops up to %d) for shapes the rule `%s` can produce are all accepted by it"
            % (producible, runs, bound, rule)) if bad is None else
           "printer writes `%s`, which rule `%s` ::= %s does not accept" % (printer.show_syms(bad), rule, gfields.show(g, I.leaves)))
    # completeness: every grammar form has a printed counterpart with the same fields in the same order
    by_psig = {}
    for s in sents:
        if accepted[s]:
            by_psig.setdefault(slot_sig(s), []).append(s)
    missing = None
    for f in gf:
        cands = by_psig.get(form_sig(f, I.leaves), [])
        if not any(slots_match(f, s, I.leaves) for s in cands):
            missing = f
            break
    def show_form(f):
        return " ".join(x[1] if x[0] == "lit" else gfields.show(x, I.leaves) for x in f)
    r.inst(key + ":complete", where, missing is None,
           ("each of the %d sentence forms of `%s` has a printed form with the same fields in the same order" % (len(gf), rule))
           if missing is None else
           "no printed form of %s carries the fields of the parsed form `%s` in that order (a field is dropped, added or moved)"
           % (key, show_form(missing)))


def arm_sentences(F, fnm):
    import os
    bound = 4 if os.environ.get("VERIF_TIER") == "thorough" else printer.BOUND
    # memo lives on the Facts object: id() values are reused once an object is collected
    memo = F.__dict__.setdefault("_c05_sentences", {})
    key = (fnm, bound)
    if key not in memo:
        memo[key] = printer.arm_sentences(F, fnm, bound)
    return memo[key]


def r14(F):
    r = RuleResult("R14", "printer emission of every construct is a sentence form of the rule that parses it",
                   "per AST variant, by abstract interpretation of the printer arm over every node shape (collections of 0..3 elements, "
                   "Options both ways, every layout decision) against the parser rule instantiated from the macro DSL with its "
                   "binding->field flow: (accepted) whatever the arm writes for a shape the rule can produce is accepted by the rule; "
                   "(complete) every sentence form of the rule has a printed form carrying the same fields in the same order",
                   floor=52, exhaustive=True)
    G = grammar.full_grammar(F)
    for enum, fn, table in (("Expression", "render_expr", EXPR_RULE), ("Statement", "render_stmt", STMT_RULE), ("Value", "render_value", VALUE_RULE)):
        arms = arm_sentences(F, fn)
        variants = F.variants("ucglib::ast::" + enum)
        for v in variants:
            if enum == "Value" and v not in table:
                continue
            if v not in arms:
                r.inst("%s::%s:arm" % (enum, v), PR, False, "no printer arm for %s::%s" % (enum, v))
                continue
            if v not in table:
                r.inst("%s::%s:rule" % (enum, v), PR, False, "no parser rule is recorded for %s::%s: the check table must be extended" % (enum, v))
                continue
            need(table[v] in G, "parser rule %s not found" % table[v])
            sents, ln, runs, unknown, bound, _uf = arms[v]
            check_variant(r, F, G, enum, v, table[v], sents, ln, runs, unknown, bound)
    return r


def r14v(F):
    r = RuleResult("R14v", "the rule table of R14 matches the parser",
                   "the parser rule recorded for each AST variant constructs that variant (its result expression, wrapper function "
                   "or helper names `Enum::Variant`)", floor=25, exhaustive=True)
    G = grammar.full_grammar(F)
    fns = {}
    for p, it in syn_items(F.syn["parse/mod.rs"]["items"]):
        if it["k"] == "fn":
            fns[p[-1]] = it

    def idents_of_tokens(ts, out):
        for t in ts:
            if "i" in t:
                out.append(t["i"])
            elif "g" in t:
                idents_of_tokens(t["t"], out)

    def rule_idents(rule, seen):
        if rule in seen:
            return []
        seen.add(rule)
        out = []
        if rule in G:
            def visit(t):
                if t[0] == "seq" and t[2] is not None:
                    idents_of_tokens(t[2], out)
                if t[0] == "ref" and t[1] in G and t[1] not in gfields.SLOT_RULES:
                    out.extend(rule_idents(t[1], seen))
            grammar.walk(G[rule][0], visit)
        it = fns.get(rule)
        if it is not None:
            def w(n):
                if isinstance(n, dict):
                    if n.get("k") == "path":
                        out.extend(n["v"].replace(" ", "").split("::"))
                    if n.get("k") == "struct":
                        out.extend(n["path"].replace(" ", "").split("::"))
                    for x in n.values():
                        w(x)
                elif isinstance(n, list):
                    for x in n:
                        w(x)
            w(it["body"])
        for name in list(out):
            if name in fns and name != rule and name not in G:
                out.extend(rule_idents(name, seen))
        return out

    for enum, table in (("Expression", EXPR_RULE), ("Statement", STMT_RULE), ("Value", VALUE_RULE)):
        for v, rule in sorted(table.items()):
            if rule == "op_expression":
                continue
            ids = rule_idents(rule, set())
            ok = any(ids[i] == enum and ids[i + 1] == v for i in range(len(ids) - 1))
            r.inst("%s::%s" % (enum, v), "src/parse/mod.rs", ok,
                   "rule %s builds %s::%s" % (rule, enum, v) if ok else "rule %s does not mention %s::%s" % (rule, enum, v))
    return r


RULES = [r14, r14v]


# ---------------------------------------------------------------------------------------------- R15
def decode_template(const):
    """literal text of a format_args! template constant (b"\\xc0\\x02.0\\x00": placeholder, 2-byte literal, end)"""
    m = re.match(r'b"(.*)"$', const, re.S)
    if not m:
        return None
    raw = m.group(1)
    # undo the byte-string escaping
    out = bytearray()
    i = 0
    while i < len(raw):
        c = raw[i]
        if c == "\\":
            n = raw[i + 1]
            if n == "x":
                out.append(int(raw[i + 2:i + 4], 16))
                i += 4
            else:
                out.append({"n": 10, "r": 13, "t": 9, "\\": 92, '"': 34, "'": 39, "0": 0}.get(n, ord(n)))
                i += 2
        else:
            out.extend(c.encode())
            i += 1
    text = bytearray()
    i = 0
    while i < len(out):
        b = out[i]
        if b == 0:
            break
        if b < 0x80:
            text.extend(out[i + 1:i + 1 + b])
            i += 1 + b
        elif b == 0x80:
            n = out[i + 1] | (out[i + 2] << 8)
            text.extend(out[i + 3:i + 3 + n])
            i += 3 + n
        else:
            # placeholder (0xC0 + flags): options follow according to the flag bits
            flags = b & 0x3F
            i += 1
            if flags & 1:
                i += 4
            if flags & 2:
                i += 2
            if flags & 4:
                i += 2
            if flags & 8:
                i += 2
            text.extend(b"\x00")   # marks an argument
    return bytes(text)


def template_of(fn, b):
    """literal text of the Arguments::new / from_str call at block b"""
    t = fn.term(b)
    a0 = t["args"][0]
    if "str" in a0:
        return a0["str"].encode()
    l = op_local_(a0)
    for bb, j, pl, rv, m in fn.assigns():
        if pl["l"] == l and not pl["p"] and rv["k"] == "ref":
            src = rv["place"]["l"]
            for b2, j2, pl2, rv2, m2 in fn.assigns():
                if pl2["l"] == src and not pl2["p"] and rv2["k"] == "use" and "const" in rv2["ops"][0]:
                    return decode_template(rv2["ops"][0]["const"])
        if pl["l"] == l and not pl["p"] and rv["k"] == "use" and "const" in rv["ops"][0]:
            return decode_template(rv["ops"][0]["const"])
    return None


def op_local_(op):
    for k in ("move", "copy"):
        if k in op:
            return op[k]["l"]
    return None


def r15(F):
    r = RuleResult("R15", "a float literal is printed with a decimal point",
                   "in the Value::Float arm of render_value every write to the output either carries a literal `.` in its format "
                   "template or is reached only through the true edge of `str::contains('.')` on the formatted number; the float is "
                   "formatted with Display only (Debug and LowerExp produce exponents the tokenizer cannot read)", floor=2, exhaustive=True)
    fn = F.fn("ucglib::ast::printer::AstPrinter::render_value")
    sw = [(b, fn.term(b)) for b in range(len(fn.blocks)) if fn.term(b)["k"] == "switch" and fn.term(b).get("enum") == "ucglib::ast::Value"]
    need(len(sw) >= 1, "render_value does not match on the value")
    sb, st = sw[0]
    fe = cfg.switch_edge(st, variant="Float")
    others = set()
    for v in st["all_variants"]:
        if v != "Float":
            e = cfg.switch_edge(st, variant=v)
            if e != fe:
                others |= cfg.reachable(fn, e)
    need(fe is not None, "no Float arm")
    region = cfg.reachable(fn, fe) - others
    # formatting of the f64
    fmts = [(b, t) for b, t in fn.calls() if b in region and callee(t).startswith("core::fmt::rt::Argument::new_") and t.get("targs") == ["f64"]]
    need(len(fmts) >= 1, "the float payload is not formatted in the Float arm")
    for b, t in fmts:
        kind = callee(t).split("::")[-1]
        r.inst("float-format:%s" % kind, fn.where(b), kind == "new_display",
               "the float is formatted with Display" if kind == "new_display" else
               "the float is formatted with %s: exponent notation is not a UCG float literal" % kind)
    # guards
    guards = []
    for b, t in fn.calls():
        if b in region and callee(t) == "core::str::<impl str>::contains" and len(t["args"]) == 2 and t["args"][1].get("int") == "46":
            for sbb, false_edge, true_edge in util.bool_switches(fn, t["dest"]["l"]):
                guards.append((sbb, true_edge, false_edge))
    writes = [(b, t) for b, t in fn.calls() if b in region and callee(t).endswith("Write::write_fmt")]
    need(len(writes) >= 1, "no write in the Float arm")
    # the Arguments of each write
    n = 0
    for b, t in writes:
        # find the Arguments::new feeding it: nearest dominating call producing arg 1
        al = op_local_(t["args"][1])
        src = [(bb, tt) for bb, tt in fn.calls() if tt["dest"]["l"] == al and not tt["dest"]["p"]]
        need(len(src) == 1 and "Arguments" in callee(src[0][1]), "write_fmt argument is not a format_args! value")
        text = template_of(fn, src[0][0])
        need(text is not None, "format template of the write at %s not readable" % fn.where(b))
        has_dot = b"." in text
        guarded = False
        for sbb, te, fe_ in guards:
            # reachable from the arm only through the true edge
            without = cfg.reachable(fn, fe, removed={te})
            if b not in without:
                guarded = True
        ok = has_dot or guarded
        n += 1
        r.inst("float-write", fn.where(b), ok,
               ("template %r carries the point" % text.replace(b"\x00", b"{}").decode() if has_dot else "only reached when the digits already contain `.`") if ok else
               "Value::Float is written with template %r and no `.` is guaranteed: 1.0 prints as `1`, an integer literal"
               % text.replace(b"\x00", b"{}").decode())
    return r


# ---------------------------------------------------------------------------------------------- R16
T = "ucglib::tokenizer::"
NON_CONSUMING = ("peek", "not")


def r15p(F):
    r = RuleResult("R15p", "a float literal is finite",
                   "parse::triple_to_number builds Value::Float only behind a finiteness test of the parsed number: a literal with more "
                   "digits than an f64 holds parses to infinity, which the printer can only write as `inf` (+ `.0`): not a literal",
                   floor=1)
    fn = F.fn("ucglib::parse::triple_to_number")
    floats = [b for b, j, pl, rv, m in fn.assigns() if rv["k"] == "agg" and rv.get("adt") == "ucglib::ast::Value" and rv.get("variant") == "Float"]
    need(floats, "triple_to_number does not build Value::Float")
    tests = [(b, t) for b, t in fn.calls() if callee(t).split("::")[-1] in ("is_finite", "is_infinite", "is_nan") and "f64" in callee(t)]
    ok = False
    for b, t in tests:
        for sb, ft, tt in util.bool_switches(fn, t["dest"]["l"]):
            good = tt if callee(t).endswith("is_finite") else ft
            if all(cfg.dominates(fn, good, fb) for fb in floats):
                ok = True
    r.inst("float-literal:finite", fn.where(floats[0]), ok, "only a finite number becomes a float literal" if ok else
           "a float literal that overflows to infinity is accepted: `1` followed by 309 zeros and `.0` is formatted as `inf.0`, a selector")
    return r


def r16(F):
    r = RuleResult("R16", "a comment can only be consumed as a COMMENT token",
                   "the `comment` recogniser is used in consuming position only by `token` (whose result tokenize routes to the comment "
                   "map); every other use in the tokenizer's recogniser macros sits under peek!/not!; every function that calls it in the "
                   "compiled program is `token` or is generated from such a macro", floor=3, exhaustive=True)
    items = F.syn["tokenizer/mod.rs"]["items"]
    uses = []   # (item name, enclosing macro names)

    def walk(toks, item, stack):
        for i, t in enumerate(toks):
            if "g" in t:
                # macro invocation name precedes: IDENT ! (group)
                name = None
                if i >= 2 and toks[i - 1].get("p") == "!" and "i" in toks[i - 2]:
                    name = toks[i - 2]["i"]
                walk(t["t"], item, stack + ([name] if name else []))
            elif t.get("i") == "comment":
                nxt = toks[i + 1] if i + 1 < len(toks) else {}
                if nxt.get("p") in ("!", "<"):
                    continue       # the definition make_fn!(comment<..>, ..)
                uses.append((item, list(stack)))

    defs = {}
    for it in items:
        if it["k"] != "macro":
            continue
        if it.get("name") == "macro_rules":
            nm = "macro:" + it.get("defines", "?")
        elif it.get("name") == "make_fn":
            first = [t.get("i") for t in it["tokens"] if "i" in t]
            nm = first[0] if first else "?"
        else:
            continue
        defs[nm] = it
        walk(it["tokens"], nm, [])
    for p, it in syn_items(items):
        if it["k"] == "fn":
            def visit(n, it=it, p=p):
                if n.get("k") == "macro" and "tokens" in n:
                    defs[p[-1]] = it
                    walk(n["tokens"], p[-1], [n.get("name")])
            syn_walk(it["body"], visit)
    need(any(item == "token" for item, _ in uses), "`token` does not try the comment recogniser")
    guarded_macros = set()
    for item, stack in uses:
        if item == "token":
            r.inst("use:token", "src/tokenizer/mod.rs", True, "token tries `comment` as one of its alternatives; the result is a COMMENT token")
            continue
        ok = any(m in NON_CONSUMING for m in stack)
        if ok and item.startswith("macro:"):
            guarded_macros.add(item[6:])
        r.inst("use:%s" % item, "src/tokenizer/mod.rs:%s" % defs[item].get("ln"), ok,
               "under %s!: looks ahead without consuming" % [m for m in stack if m in NON_CONSUMING][0] if ok else
               "%s consumes a comment (inside %s): it never becomes a COMMENT token and is lost to the comment map" % (item, "!/".join(stack) + "!"))
    # hand-written uses: functions (not macros) naming `comment`
    for p, it in syn_items(items):
        if it["k"] == "fn" and p[-1] != "token":
            found = []
            syn_walk(it["body"], lambda n: found.append(n) if n.get("k") == "path" and n["v"].replace(" ", "") == "comment" else None)
            if found:
                r.inst("use:fn:%s" % p[-1], "src/tokenizer/mod.rs:%s" % it["ln"], False,
                       "%s calls the comment recogniser directly" % p[-1])
    # compiled program: who calls tokenizer::comment
    gen = {}   # fn name -> macro it is generated from
    for nm, it in defs.items():
        if nm.startswith("macro:") or "tokens" not in it:
            continue
        used = []

        def ids(ts):
            for t in ts:
                if "i" in t:
                    used.append(t["i"])
                elif "g" in t:
                    ids(t["t"])
        ids(it["tokens"])
        for m in guarded_macros:
            if m in used:
                gen[nm] = m
    callers = sorted(n for n, f in F.fns.items() if any(callee(t) == T + "comment" for b, t in f.calls()))
    for c in callers:
        short = c.split("::")[-1]
        ok = c == T + "token" or (c.startswith(T) and short in gen)
        r.inst("caller:%s" % short, F.fn(c).where(), ok,
               "token" if c == T + "token" else ("generated from %s!, whose use of `comment` is a look-ahead" % gen.get(short)) if ok else
               "%s calls tokenizer::comment outside the audited recognisers" % c, nontrivial=False)
    return r


RULES = [r14, r14v, r15, r16]


# ---------------------------------------------------------------------------------------------- R16m
def _ref_locals(fn, target):
    """locals holding a reference to local `target` (or a copy of such a reference)"""
    out = set()
    for b, j, pl, rv, m in fn.assigns():
        if rv["k"] == "ref" and rv["place"]["l"] == target and not rv["place"]["p"] and not pl["p"]:
            out.add(pl["l"])
    changed = True
    while changed:
        changed = False
        for b, j, pl, rv, m in fn.assigns():
            if not pl["p"] and pl["l"] not in out:
                if rv["k"] == "use" and op_local_(rv["ops"][0]) in out and not (rv["ops"][0].get("move") or rv["ops"][0].get("copy"))["p"]:
                    out.add(pl["l"])
                    changed = True
                elif rv["k"] == "ref" and rv["place"]["l"] in out and rv["place"]["p"] == ["*"]:
                    out.add(pl["l"])
                    changed = True
    return out


def r16m(F):
    r = RuleResult("R16m", "every COMMENT token ends up in the comment map",
                   "in tokenize, with a map supplied: the COMMENT arm pushes the token onto comment_group and arms comment_was_last; the "
                   "arm of any other token moves the group into the map whenever comment_was_last is set; after the loop the group is "
                   "moved into the map whenever it is non-empty; comment_group is written nowhere else", floor=5, exhaustive=True)
    fn = F.fn(T + "tokenize")
    cg = fn.locals_named("comment_group")
    cwl = fn.locals_named("comment_was_last")
    need(len(cg) == 1 and len(cwl) == 1, "tokenize: comment_group / comment_was_last locals not found")
    cg, cwl = list(cg)[0], list(cwl)[0]
    loops = cfg.natural_loops(fn)
    need(loops, "tokenize has no loop")
    header, body = max(loops.items(), key=lambda kv: len(kv[1]))
    tt = [(b, fn.term(b)) for b in body if fn.term(b)["k"] == "switch" and fn.term(b).get("enum") == "ucglib::ast::TokenType"]
    # the switch with a map: the one reached through the Some edge of the comment_map test
    opt = [(b, fn.term(b)) for b in body if fn.term(b)["k"] == "switch" and fn.term(b).get("enum") == "core::option::Option"]
    with_map = None
    for b, t in tt:
        for ob, ot in opt:
            se = cfg.switch_edge(ot, variant="Some")
            if se == b:
                with_map = (b, t)
    need(with_map is not None, "tokenize: the TokenType match under `Some(map)` was not found")
    wb, wt = with_map
    ce = cfg.switch_edge(wt, variant="COMMENT")
    need(ce is not None and ce != wt["otherwise"], "tokenize: no COMMENT arm under `Some(map)`")
    cg_refs = _ref_locals(fn, cg)
    cg_vals = set(util.copies_of(fn, cg, allow_not=False))
    arm = cfg.reachable(fn, ce, stop={header}) - {header}
    pushes = [(b, t) for b, t in fn.calls() if b in arm and callee(t) == "alloc::vec::Vec::push" and op_local_(t["args"][0]) in cg_refs]
    ok = bool(pushes) and all(util.must_pass(fn, ce, {b for b, _ in pushes}, exits={header}) for _ in [0])
    r.inst("comment-arm:push", fn.where(ce), ok,
           "every path of the COMMENT arm pushes the token onto comment_group" if ok else
           "the COMMENT arm (with a map) reaches the next iteration without pushing the token onto comment_group: the comment is lost")
    some_locals = {pl["l"] for b, j, pl, rv, m in fn.assigns() if not pl["p"] and rv["k"] == "agg" and rv.get("adt") == "core::option::Option" and rv.get("variant") == "Some"}
    sets = [b for b, j, pl, rv, m in fn.assigns() if b in arm and pl["l"] == cwl and not pl["p"] and
            ((rv["k"] == "agg" and rv.get("variant") == "Some") or (rv["k"] == "use" and op_local_(rv["ops"][0]) in some_locals))]
    ok = bool(sets) and util.must_pass(fn, ce, set(sets), exits={header})
    r.inst("comment-arm:arm-flush", fn.where(ce), ok,
           "comment_was_last is set on every path of the COMMENT arm" if ok else
           "the COMMENT arm does not set comment_was_last: the group is not flushed at the next token and merges with later comments")
    # other tokens with a map
    oe = wt["otherwise"]
    inserts = [(b, t) for b, t in fn.calls() if callee(t) == "alloc::collections::btree::map::BTreeMap::insert"
               and len(t["args"]) == 3 and op_local_(t["args"][2]) in cg_vals]
    in_loop = [(b, t) for b, t in inserts if b in body]
    after = [(b, t) for b, t in inserts if b not in body]
    cwl_sw = [(b, fn.term(b)) for b, t in util.enum_switches(fn, cwl) if b in body]
    none_edges = set()
    for b, t in cwl_sw:
        se = cfg.switch_edge(t, variant="Some")
        for x in cfg.term_succs(t):
            if x != se:
                none_edges.add((b, x))
    ok = bool(in_loop) and bool(cwl_sw) and header not in cfg.reachable(
        fn, oe, removed={b for b, _ in in_loop}, edge_ok=lambda a, b: (a, b) not in none_edges)
    r.inst("token-arm:insert", fn.where(oe), ok,
           "a non-comment token moves the pending group into the map unless comment_was_last is None" if ok else
           "a path of the non-comment arm reaches the next iteration with comment_was_last set and without inserting comment_group into the map")
    # after the loop
    exits_ = [b for b in range(len(fn.blocks)) if not fn.is_cleanup(b) and fn.term(b)["k"] == "return"]
    loop_exits = {x for b in body for x in cfg.succs(fn)[b] if x not in body and not _is_err_path(fn, x)}
    need(loop_exits, "tokenize: loop exit not found")
    last_calls = [(b, t) for b, t in fn.calls() if b not in body and callee(t) in ("core::slice::<impl [T]>::last", "alloc::vec::Vec::is_empty", "alloc::vec::Vec::len")]
    skip_edges = set()
    for b, t in last_calls:
        for sb, st in util.enum_switches(fn, t["dest"]["l"]):
            se = cfg.switch_edge(st, variant="Some")
            for x in cfg.term_succs(st):
                if x != se:
                    skip_edges.add((sb, x))
    # comment_map is None
    for sb, st in util.enum_switches(fn, 2):
        if sb not in body:
            se = cfg.switch_edge(st, variant="Some")
            for x in cfg.term_succs(st):
                if x != se:
                    skip_edges.add((sb, x))
    ok = bool(after)
    if ok:
        for le in loop_exits:
            rr = cfg.reachable(fn, le, removed={b for b, _ in after}, edge_ok=lambda a, b: (a, b) not in skip_edges)
            if rr & set(exits_):
                ok = False
    r.inst("after-loop:insert", fn.where(sorted(loop_exits)[0]), ok,
           "after the last token the pending group is moved into the map unless it is empty or no map was supplied" if ok else
           "tokenize can return with comments still in comment_group: comments after the last token are lost")
    # nobody else writes comment_group
    writers = []
    for b, j, pl, rv, m in fn.assigns():
        if pl["l"] == cg and not pl["p"]:
            writers.append(("assign", b, rv))
    for b, t in fn.calls():
        if t["dest"]["l"] == cg and not t["dest"]["p"]:
            writers.append(("call", b, callee(t)))
        elif op_local_(t["args"][0]) in cg_refs if t["args"] else False:
            c = callee(t)
            if c not in ("alloc::vec::Vec::push", "<alloc::vec::Vec<T, A> as core::ops::deref::Deref>::deref", "core::slice::<impl [T]>::last",
                         "alloc::vec::Vec::is_empty", "alloc::vec::Vec::len"):
                writers.append(("via-ref", b, c))
    bad = [w for w in writers if not (w[0] == "call" and w[2] == "alloc::vec::Vec::new") and not
           (w[0] == "assign" and w[2]["k"] == "use" and _is_fresh_vec(fn, w[2]))]
    r.inst("group:writers", fn.where(), not bad,
           "comment_group is only created empty, pushed to in the COMMENT arm, and moved into the map" if not bad else
           "comment_group is also modified by %s" % [(w[0], fn.where(w[1]), w[2] if isinstance(w[2], str) else w[2]["k"]) for w in bad])
    return r


def _is_err_path(fn, b):
    """block from which only Err returns are reachable: approximated by: reaches a BuildError::from call before any return;
    or the early return of `?` (from_residual into the return place, no Ok result reachable)"""
    seen = cfg.reachable(fn, b)
    oks = util.result_blocks(fn, "Ok")
    if not (seen & oks) and any(fn.term(x)["k"] == "call" and callee(fn.term(x)).endswith("::from_residual") for x in seen):
        return True
    for x in seen:
        t = fn.term(x)
        if t["k"] == "call" and "BuildError" in callee(t) and x == b:
            return True
    # the error arms of tokenize start with the conversion call (directly or after a clone/Box/Error::new chain)
    cur = b
    for _ in range(6):
        t = fn.term(cur)
        if t["k"] == "call":
            if "BuildError" in callee(t):
                return True
            cur = t.get("t")
            if cur is None:
                return False
        elif t["k"] == "goto":
            cur = t["t"]
        else:
            return False
    return False


def _is_fresh_vec(fn, rv):
    l = op_local_(rv["ops"][0])
    if l is None:
        return False
    srcs = [callee(t) for b, t in fn.calls() if t["dest"]["l"] == l and not t["dest"]["p"]]
    return srcs == ["alloc::vec::Vec::new"]


# ---------------------------------------------------------------------------------------------- R17
def _cmp_consts(fn, blocks=None):
    """{int value} of char/u8 constants compared with Eq/Ne in fn"""
    out = {}
    for b, j, pl, rv, m in fn.assigns():
        if blocks is not None and b not in blocks:
            continue
        if rv["k"] == "bin" and rv["op"] in ("Eq", "Ne"):
            for o in rv["ops"]:
                if "int" in o and o.get("ty") in ("char", "u8"):
                    out.setdefault(int(o["int"]), []).append(b)
    for b in range(len(fn.blocks)):
        if blocks is not None and b not in blocks:
            continue
        t = fn.term(b)
        if t["k"] == "switch" and not t.get("enum") and (t.get("ty") in ("char", "u8") or fn.local_ty(op_local_(t["on"]) or 0) in ("char", "u8")):
            for x in t["targets"]:
                out.setdefault(int(x["val"]), []).append(b)
    return out


def _cmp_consts_with_closures(F, fn):
    """... including the closures of fn (the per-character test of an iterator pipeline)"""
    out = dict(_cmp_consts(fn))
    for cf in F.closures_of(fn.name):
        for k, v in _cmp_consts(cf).items():
            out.setdefault(k, []).extend(v)
    return out


def r17(F):
    r = RuleResult("R17", "string escaping of printer and tokenizer agree",
                   "the characters AstPrinter::escape_quotes escapes are exactly the bytes tokenizer::escapequoted treats specially when "
                   "unescaped (`\\` and `\"`), each is written as a backslash followed by itself, and every quoted string the printer "
                   "writes from an AST payload goes through escape_quotes", floor=4, exhaustive=True)
    esc = F.fn("ucglib::ast::printer::AstPrinter::escape_quotes")
    unq = F.fn(T + "escapequoted")
    pc = _cmp_consts_with_closures(F, esc)
    tc = {k: v for k, v in _cmp_consts_with_closures(F, unq).items()}
    need(pc, "escape_quotes: no character is compared (the escaping is written in a way this rule does not read)")
    need(tc, "escapequoted: no byte is compared (the un-escaping is written in a way this rule does not read)")
    # in escapequoted the bytes compared outside the `if escape` block: those guarded by `!escape`
    special = {k for k in tc if k in (92, 34) or chr(k) not in "nrt"}
    named = {k for k in tc if chr(k) in "nrt"}
    strs = list(util.str_consts(esc))
    for cf in F.closures_of(esc.name):
        strs += list(util.str_consts(cf))
    for c in sorted(set(pc) | special):
        ok = c in pc and c in special
        seq_ok = ("\\" + chr(c)) in strs
        r.inst("char:%d" % c, esc.where(), ok and seq_ok,
               "%r is escaped by the printer as %r and unescaped by the tokenizer" % (chr(c), "\\" + chr(c)) if ok and seq_ok else
               ("%r ends or escapes a string in the tokenizer but the printer writes it raw" % chr(c) if c not in pc else
                "%r is escaped by the printer but is not special to the tokenizer: the backslash is collapsed, fine, but the sets differ" % chr(c)
                if c not in special else "the printer does not write %r for %r" % ("\\" + chr(c), chr(c))))
    # the escapes the tokenizer expands (\n \r \t) are written raw by the printer, which the tokenizer accepts unchanged
    ok = all(chr(k) not in "nrt" or True for k in named)
    # quoted sites
    n = 0
    for fnm in ("render_expr", "render_stmt", "render_value"):
        for v, (sents, ln, runs, unknown, bound, _uf) in arm_sentences(F, fnm).items():
            raw = set()
            q = set()
            for s, tr in sents:
                for sym in s:
                    if sym[0] == "Qraw":
                        raw.add(sym[1])
                    elif sym[0] == "Q":
                        q.add(sym[1])
            for pth in sorted(q | raw):
                n += 1
                r.inst("quoted:%s:%s" % (v, pth), "%s:%d" % (PR, ln), pth not in raw,
                       "written through escape_quotes" if pth not in raw else
                       "%s of %s is written between quotes without escape_quotes: a `\"` or `\\` in it changes or breaks the string" % (pth or "payload", v))
    return r


def r17b(F):
    r = RuleResult("R17b", "a field name printed bare is read back as one bareword",
                   "is_bareword accepts only names the tokenizer lexes as a single BAREWORD (or exact BOOLEAN) token: first character within "
                   "barewordtok's look-ahead class, remaining characters within is_symbol_char, and every alphabetic text token that the "
                   "tokenizer tries before barewordtok without a word boundary (NULL, true, false) is rejected as a prefix", floor=4, exhaustive=True)
    fn = F.fn("ucglib::ast::printer::AstPrinter::is_bareword")
    G = grammar.extract(F, "tokenizer/mod.rs")
    need("barewordtok" in G and "token" in G, "tokenizer rules barewordtok/token not found")
    # first-character class of barewordtok
    bw = G["barewordtok"][0]
    peeks = []
    grammar.walk(bw, lambda t: peeks.append(t[1]) if t[0] == "peek" else None)
    need(peeks == [("ref", "ascii_alpha")], "barewordtok no longer starts with peek!(ascii_alpha): %s" % peeks)
    nth = util.calls_to(fn, "core::iter::traits::iterator::Iterator::nth")
    need(len(nth) == 1, "is_bareword: first-character test not found")
    chars = util.calls_to(fn, "core::str::<impl str>::chars")
    later = [b for b, t in chars if cfg.reaches(fn, nth[0][0], b)]
    need(later, "is_bareword: loop over the remaining characters not found")
    first_region = cfg.reachable(fn, nth[0][0], removed=set(later))
    preds = {callee(t).split("::")[-1] for b, t in fn.calls() if b in first_region and "char::methods" in callee(t)}
    extra = {k for k in _cmp_consts(fn, first_region) if not chr(k).isalpha() and k != 0}
    ok = preds <= {"is_ascii_alphabetic"} and not extra
    r.inst("first-char", fn.where(nth[0][0]), ok,
           "first character: %s, within ascii_alpha" % sorted(preds) if ok else
           "is_bareword accepts a first character %s that barewordtok's peek!(ascii_alpha) rejects: the name is printed bare and does not tokenize"
           % (sorted(chr(k) for k in extra) or sorted(preds)))
    # remaining characters within is_symbol_char
    sym = F.fn(T + "is_symbol_char")
    # the class tests of char and of u8 (`c.is_ascii_alphanumeric()` on the byte or on the character) are the same classes
    is_class = lambda c: c.split("::")[-1].startswith("is_ascii_") and ("char::methods" in c or "<impl u8>" in c or "<impl char>" in c)
    sym_preds = {callee(t).split("::")[-1] for b, t in sym.calls() if is_class(callee(t))}
    sym_chars = set(_cmp_consts(sym))
    need(sym_preds or sym_chars, "is_symbol_char: no character class or constant is tested (written in a way this rule does not read)")
    rest_region = set()
    for b in later:
        rest_region |= cfg.reachable(fn, b)
    rest_preds = {callee(t).split("::")[-1] for b, t in fn.calls() if b in rest_region and "char::methods" in callee(t)}
    rest_chars = set(_cmp_consts(fn, rest_region))
    sub = {"is_ascii_alphabetic": {"is_ascii_alphabetic", "is_ascii_alphanumeric"}, "is_ascii_alphanumeric": {"is_ascii_alphanumeric"},
           "is_ascii_digit": {"is_ascii_digit", "is_ascii_alphanumeric"}}
    ok = all(sub.get(p, set()) & sym_preds for p in rest_preds) and rest_chars <= sym_chars
    r.inst("rest-chars", fn.where(later[0]), ok,
           "remaining characters %s %s within is_symbol_char (%s %s)" % (sorted(rest_preds), sorted(chr(c) for c in rest_chars), sorted(sym_preds), sorted(chr(c) for c in sym_chars)) if ok else
           "is_bareword accepts characters (%s %s) that is_symbol_char rejects" % (sorted(rest_preds), sorted(chr(c) for c in rest_chars - sym_chars)))
    # reserved prefixes
    alts = G["token"][0]
    need(alts[0] == "alt", "token is not an either!")
    order = [t[1] for t in alts[1] if t[0] == "ref"]
    need("barewordtok" in order, "barewordtok is not an alternative of token")
    before = order[:order.index("barewordtok")]
    ws_guarded = _ws_guarded(F)
    reserved = {}
    for name in before:
        if name not in G:
            continue
        texts = []
        grammar.walk(G[name][0], lambda t: texts.append(t[2]) if t[0] == "tok" and t[1] == "text" else None)
        for tx in texts:
            if tx.isalpha() and name not in ws_guarded:
                reserved[tx] = name
    need(len(reserved) >= 1, "no unguarded alphabetic text token before barewordtok (expected NULL, true, false)")
    accepted_types = set()
    PG = grammar.full_grammar(F)
    grammar.walk(PG["field_value"][0], lambda t: accepted_types.add(t[2]) if t[0] == "tok" and t[1] == "type" else None)
    typ_of = _token_types(F)
    O = None
    from ..origins import Origins
    O = Origins(fn)
    sw_calls = util.calls_to(fn, "core::str::<impl str>::starts_with")
    false_blocks = set(util.blocks_assigning_const(fn, 0, "0"))
    for tx, name in sorted(reserved.items()):
        hit = None
        for b, t in sw_calls:
            a = t["args"][1]
            labs = O.at(a, b) if "str" not in a else {("const", "str", a["str"])}
            if any(l[0] == "const" and l[-1] == tx for l in labs):
                hit = (b, t)
        if hit is None:
            r.inst("prefix:%s" % tx, fn.where(), False,
                   "a name starting with %r is printed bare, but the tokenizer matches %s (%r, no word boundary) before barewordtok: "
                   "`%sx = 1` does not parse back" % (tx, name, tx, tx))
            continue
        b, t = hit
        ok = False
        detail = ""
        for sbb, fe_, te in util.bool_switches(fn, t["dest"]["l"]):
            reach = cfg.reachable(fn, te, removed=set(later))
            rejects = bool(reach & false_blocks)
            exact_ok = typ_of.get(name) in accepted_types
            passes_on = any(cfg.reaches(fn, te, lb, removed=false_blocks) for lb in later) or any(cfg.reaches(fn, te, nth[0][0], removed=false_blocks) for _ in [0])
            if rejects and (exact_ok or not passes_on):
                ok = True
            detail = "rejects=%s passes_on=%s exact_ok=%s" % (rejects, passes_on, exact_ok)
        r.inst("prefix:%s" % tx, fn.where(b), ok,
               "names starting with %r are quoted%s" % (tx, " (the exact word is a %s token, which field names accept)" % typ_of.get(name) if typ_of.get(name) in accepted_types else "") if ok else
               "the starts_with(%r) test does not make is_bareword return false (%s)" % (tx, detail))
    return r


def _ws_guarded(F):
    """make_fn names whose do_text_token_tok! invocation carries the WS flag"""
    out = set()
    for it in F.syn["tokenizer/mod.rs"]["items"]:
        if it["k"] == "macro" and it.get("name") == "make_fn":
            ids = [t.get("i") for t in it["tokens"] if "i" in t]
            toks = it["tokens"]
            for i, tk in enumerate(toks):
                if tk.get("i") == "do_text_token_tok" and i + 2 < len(toks) and "g" in toks[i + 2]:
                    inner = [x.get("i") for x in toks[i + 2]["t"] if "i" in x]
                    if "WS" in inner:
                        out.add(ids[0])
    return out


def _token_types(F):
    out = {}
    for it in F.syn["tokenizer/mod.rs"]["items"]:
        if it["k"] == "macro" and it.get("name") == "make_fn":
            ids = [t.get("i") for t in it["tokens"] if "i" in t]
            flat_ids = []

            def rec(ts):
                for t in ts:
                    if "i" in t:
                        flat_ids.append(t["i"])
                    elif "g" in t:
                        rec(t["t"])
            rec(it["tokens"])
            for i, x in enumerate(flat_ids):
                if x == "TokenType" and i + 1 < len(flat_ids):
                    out[ids[0]] = flat_ids[i + 1]
    return out


RULES = [r14, r14v, r15, r16, r16m, r17, r17b]


# ---------------------------------------------------------------------------------------------- R79
AP = "ucglib::ast::printer::AstPrinter"


def r79(F):
    from .. import access
    from ..origins import Origins
    r = RuleResult("R79", "every collected comment group is printed once, in order",
                   "comment_group_lines (the pending group keys, smallest on top) is filled only by with_comment_map from the map's keys and "
                   "shortened only by the pop in print_comment_group, which lies behind a loop that writes every token of the group; "
                   "render_missed_comments prints the group whose key it took from the top of that stack; render ends with a flush whose "
                   "bound is above the largest key", floor=6, exhaustive=True)
    acc = access.field_accesses(F, AP, "comment_group_lines")
    allowed = {("init", AP + "::new"), ("assign", AP + "::with_comment_map")}
    n = 0
    for a in acc:
        kind, fnn = a[0], a[1]
        short = fnn.split("::")[-1]
        if kind in ("ref", "read"):
            continue
        if kind == "mutref":
            cs = {c for c, b in a[3]}
            if fnn == AP + "::print_comment_group" and cs == {"alloc::vec::Vec::pop"}:
                ok, why = True, "the pop after a group was written"
            elif fnn == AP + "::with_comment_map" and cs <= {"<alloc::vec::Vec<T, A> as core::ops::deref::DerefMut>::deref_mut", "core::slice::<impl [T]>::reverse"}:
                ok, why = True, "reverse of the sorted keys: smallest key on top"
            else:
                ok, why = False, "comment_group_lines is modified in %s through %s" % (short, sorted(cs))
        else:
            ok = (kind, fnn) in allowed
            why = "initialisation" if ok else "comment_group_lines is assigned in %s" % short
        n += 1
        r.inst("stack:%s:%s" % (kind, short), F.fn(fnn).where(a[2]), ok, why)
    # with_comment_map: keys() ... reverse()
    w = F.fn(AP + "::with_comment_map")
    cs = [callee(t) for b, t in w.calls()]
    ok = any(c.endswith("BTreeMap::keys") or "btree::map::BTreeMap" in c and c.endswith("::keys") for c in cs) and any(c.endswith("::reverse") for c in cs)
    r.inst("stack:built", w.where(), ok, "keys of the (ordered) comment map, reversed" if ok else
           "with_comment_map no longer builds the stack as reversed BTreeMap keys: calls %s" % cs)
    # print_comment_group
    p = F.fn(AP + "::print_comment_group")
    pops = util.calls_to(p, "alloc::vec::Vec::pop")
    need(len(pops) == 1, "print_comment_group: the pop was not found")
    loops = cfg.natural_loops(p)
    need(len(loops) == 1, "print_comment_group: the loop over the group was not found")
    header, body = list(loops.items())[0]
    nexts = [(b, t) for b, t in p.calls() if b in body and callee(t).endswith("Iterator>::next")]
    need(len(nexts) == 1, "print_comment_group: iterator of the loop not found")
    # the iterator ranges over the group fetched with the key
    O = Origins(p)
    gets = util.calls_to(p, "BTreeMap::get")
    need(len(gets) == 1, "print_comment_group: map lookup not found")
    key_ok = any(l == ("param", 2) for l in O.at(gets[0][1]["args"][1], gets[0][0]))
    r.inst("group:key", p.where(gets[0][0]), key_ok, "the group printed is map[line]" if key_ok else "the group is not looked up with the line passed in")
    sw = [(b, t) for b, t in util.enum_switches(p, nexts[0][1]["dest"]["l"])]
    need(len(sw) == 1, "print_comment_group: match on next() not found")
    some = cfg.switch_edge(sw[0][1], variant="Some")
    writes = {b for b, t in p.calls() if b in body and callee(t).endswith("Write::write_fmt")}
    ok = bool(writes) and header not in cfg.reachable(p, some, removed=writes)
    r.inst("group:each-token-written", p.where(some), ok,
           "every iteration writes the comment token" if ok else "an iteration of the group loop can reach the next one without writing the token")
    # the written text derives from the token
    # loop exits: only next()==None or the `?` error return
    exits_ok = True
    bad_exit = None
    for b in body:
        for x in cfg.succs(p)[b]:
            if x not in body:
                if b == sw[0][0] or p.term(x)["k"] == "unreachable":
                    continue
                # error propagation: block leads to from_residual
                t = p.term(x)
                chain = cfg.reachable(p, x)
                if any(p.term(y)["k"] == "call" and "from_residual" in callee(p.term(y)) for y in chain) and pops[0][0] not in chain:
                    continue
                exits_ok = False
                bad_exit = b
    r.inst("group:no-early-exit", p.where(bad_exit) if bad_exit is not None else p.where(header), exits_ok,
           "the group loop ends only when the group is exhausted or the writer fails" if exits_ok else
           "the group loop can be left early; the remaining comments of the group are popped unprinted")
    none = [x for x in cfg.term_succs(sw[0][1]) if x != some and p.term(x)["k"] != "unreachable"]
    ok = all(x == pops[0][0] or cfg.reaches(p, x, pops[0][0]) for x in none) and not cfg.reaches(p, 0, pops[0][0], removed={header})
    r.inst("group:pop-after-loop", p.where(pops[0][0]), ok,
           "the key is popped only after the loop over its group" if ok else "the pop can be reached without passing the loop that prints the group")
    # render_missed_comments
    m = F.fn(AP + "::render_missed_comments")
    lasts = util.calls_to(m, "core::slice::<impl [T]>::last")
    prints = util.calls_to(m, AP + "::print_comment_group")
    need(len(lasts) == 1 and len(prints) == 1, "render_missed_comments: last()/print_comment_group not found")
    Om = Origins(m)
    labs = Om.at(prints[0][1]["args"][1], prints[0][0])
    from_top = any(l[0] == "call" and l[1].endswith("::last") for l in labs)
    from_param = any(l == ("param", 2) for l in labs)
    ok = from_top and not from_param
    r.inst("missed:prints-top", m.where(prints[0][0]), ok,
           "the key handed to print_comment_group is the top of the stack" if ok else
           "print_comment_group is called with a key that is not (only) the top of the pending stack: it pops a group it did not print")
    # render: final flush
    rn = F.fn(AP + "::render")
    firsts = util.calls_to(rn, "core::slice::<impl [T]>::first")
    flush = util.calls_to(rn, AP + "::render_missed_comments")
    loops = cfg.natural_loops(rn)
    need(len(loops) == 1, "render: statement loop not found")
    h, body = list(loops.items())[0]
    after = [(b, t) for b, t in flush if b not in body]
    ok = len(firsts) == 1 and len(after) >= 1
    if ok:
        Or = Origins(rn)
        labs = Or.at(after[0][1]["args"][1], after[0][0])
        ok = any(l[0] == "call" and l[1].endswith("::first") for l in labs) and any(l == ("bin", "Add") or l == ("bin", "AddWithOverflow") for l in labs)
        if ok:
            # every Ok return after the loop passes the flush unless the stack is empty
            skip = set()
            for b, t in rn.calls():
                if callee(t).endswith("Option::cloned") or callee(t).endswith("::first"):
                    for sb, st in util.enum_switches(rn, t["dest"]["l"]):
                        se = cfg.switch_edge(st, variant="Some")
                        for x in cfg.term_succs(st):
                            if x != se:
                                skip.add((sb, x))
            lex = {x for b in body for x in cfg.succs(rn)[b] if x not in body}
            lex = {x for x in lex if not any(rn.term(y)["k"] == "call" and "from_residual" in callee(rn.term(y)) for y in [x])}
            rets = {b for b in range(len(rn.blocks)) if not rn.is_cleanup(b) and rn.term(b)["k"] == "return"}
            for x in lex:
                if firsts[0][0] not in cfg.reachable(rn, x):
                    continue
                rr = cfg.reachable(rn, x, removed={b for b, _ in after}, edge_ok=lambda a, b: (a, b) not in skip)
                if rr & rets:
                    ok = False
    r.inst("render:final-flush", rn.where(after[0][0]) if after else rn.where(), ok,
           "after the last statement render flushes up to (largest key + 1) unless no group is pending" if ok else
           "render can return Ok with comment groups still pending, or the flush bound is not above the largest key: trailing comments are lost")
    return r


def r79t(F):
    from ..origins import Origins
    r = RuleResult("R79t", "a comment line is laid out from the text that is printed",
                   "in print_comment_group the string whose first character decides between `// text` and `//text` is the trimmed text "
                   "that is written, and an empty text counts as starting with white space (so a blank comment is a bare `//` and "
                   "formatting it again changes nothing)", floor=2, exhaustive=True)
    p = F.fn(AP + "::print_comment_group")
    O = Origins(p)
    chars = util.calls_to(p, "core::str::<impl str>::chars")
    need(len(chars) == 1, "print_comment_group: first-character test not found")
    labs = O.at(chars[0][1]["args"][0], chars[0][0])
    ok = any(l[0] == "call" and l[1].endswith("::trim_end") for l in labs)
    r.inst("decision-on-printed-text", p.where(chars[0][0]), ok,
           "the first character is taken from the trimmed text" if ok else
           "the separator is chosen from the untrimmed fragment but the trimmed text is printed: `//` and `// ` alternate on every run")
    uo = [(b, t) for b, t in util.calls_to(p, "core::option::Option::unwrap_or") if t["args"][1].get("ty") == "char"]
    need(len(uo) == 1, "print_comment_group: default for an empty comment not found")
    c = int(uo[0][1]["args"][1]["int"])
    ok = chr(c).isspace()
    r.inst("empty-default", p.where(uo[0][0]), ok,
           "an empty comment takes the `//text` form" if ok else
           "an empty comment is treated as starting with %r: it is printed as `// ` with a trailing space and re-read as white space" % chr(c))
    return r


def r79m(F):
    from ..origins import Origins
    r = RuleResult("R79m", "each file is formatted with its own comment map",
                   "wherever the formatter parses a file with a comment map, that map was created empty in the same function (or cleared) "
                   "before the parse: a map that lives longer than one file hands the comments of earlier files to the printer of later "
                   "ones", floor=1)
    n = 0
    for name, fn in sorted(F.fns.items()):
        if not name.startswith("ucg::") or fn.derived:
            continue
        o = None
        for b, t in fn.calls():
            if callee(t) != "ucglib::parse::parse" or len(t["args"]) < 2:
                continue
            a = t["args"][1]
            if "const" in a:
                continue            # None
            o = o or Origins(fn)
            labs = o.at(a, b)
            if not any(l[0] == "agg" and l[2] == "Some" for l in labs) and not any(l[0] == "call" for l in labs):
                continue
            fresh = any(l[0] == "call" and l[1].endswith("BTreeMap::new") for l in labs)
            outer = sorted({"field " + str(l[1]) for l in labs if l[0] == "field"} | {"parameter %d" % l[1] for l in labs if l[0] == "param" and l[1] != 1})
            cleared = any(callee(t2).endswith("BTreeMap::clear") and cfg.dominates(fn, b2, b) for b2, t2 in fn.calls())
            ok = (fresh and not outer) or cleared
            n += 1
            r.inst("%s:parse-with-map" % name.split("::")[-1], fn.where(b), ok,
                   "the map is created empty here" if ok else
                   "the comment map given to the parser comes from %s and is not cleared first: formatting several files in one run prints "
                   "comments of earlier files into later ones" % (", ".join(outer) or "outside this call"))
    return r


from . import c11 as _c11


def r14w(F):
    r = RuleResult("R14w", "the rewritten file holds the formatted text and nothing else",
                   "`ucg fmt -w` / a directory run replaces the file by what the printer wrote: the file is opened truncating "
                   "(File::create, or OpenOptions with truncate(true)); opened any other way a formatted text that is shorter than "
                   "the original keeps the tail of the old text behind it", floor=1)
    from . import c14 as _c14
    from .. import flatten
    name = "ucg::fmt_file"
    need(name in F.fns, "ucg::fmt_file not found")
    fn = F.fn(name, flat=True)
    sites = []
    for b, t in fn.calls():
        c = callee(t)
        if c in _c14.CREATORS and c != "std::fs::File::options":
            sites.append(b)
    need(sites, "fmt_file creates no file (the -w path is not recognised)")
    for k, b in enumerate(sites):
        ok, why = _c14.opens_truncating(fn, b, "the file being formatted", "a formatted text shorter than the original")
        r.inst("fmt_file:open#%d" % k, fn.where(b), ok, why)
    return r

RULES = [r14, r14v, r15, r15p, r16, r16m, r17, r17b, r79, r79t, r79m, r14w, c02.r8, _c11.r72]
