"""C07 — the static checker never rejects a program that evaluates.  R21a R21b R21c."""
from .. import cfg, util, variants, translator as TR
from ..core import RuleResult, need
from ..facts import callee, op_local, op_place
from ..origins import Origins, calls_in, fields_in

RT = "ucglib::build::opcode::runtime::Builtins::"
TC = "ucglib::ast::typecheck::"
SHAPE = "ucglib::ast::Shape"
EXPR = "ucglib::ast::Expression"
VALUE = "ucglib::build::opcode::Value"
COMPOSITE = "ucglib::build::opcode::Composite"
PRIMITIVE = "ucglib::build::opcode::Primitive"
# runtime kind -> the Shape variant the checker derives for a value of that kind (impl DeriveShape for Value)
NARROWING = "ucglib::ast::NarrowingShape"
# shapes the checker gives to a value it knows only partly (a parameter, an element of a list literal, a select result, an
# included file): such a value can be of any kind at run time, so every dispatch on a dynamic type has to let them through
PARTLY_KNOWN = ("Hole", "Narrowed[Any]", "Narrowed[Narrowed]")
KIND2SHAPE = {"List": "List", "Tuple": "Tuple", "Str": "Str", "Int": "Int", "Float": "Float", "Bool": "Boolean"}


def _named_scrutinee(fn, o, name):
    def ok(place, b=None):
        ls = {place["l"]} | set(o.alias[place["l"]])
        return any(name in fn.var_names().get(l, ()) for l in ls)
    return ok


def vm_accepts(F, hook):
    """runtime kinds of the target for which the hook has a non-error path"""
    fn = F.fn(RT + hook)
    o = Origins(fn)
    oks = {b for b, j, pl, rv, m in fn.assigns() if pl["l"] == 0 and not pl["p"] and rv["k"] == "agg" and rv.get("variant") == "Ok"}
    is_list = _named_scrutinee(fn, o, "list")
    # the switch on the target: Value -> Composite / Primitive
    out = set()
    for comp_enum, kinds in ((COMPOSITE, ("List", "Tuple")), (PRIMITIVE, ("Str", "Int", "Float", "Bool", "Empty"))):
        for k in kinds:
            fixed = {VALUE: "C" if comp_enum == COMPOSITE else "P", comp_enum: k}
            reach = variants.reach_multi(F, fn, 0, fixed, scrutinee_ok=lambda e, pl, b: is_list(pl))
            if reach & oks:
                out.add(k)
    for v in ("F", "M", "T", "S", "K"):
        reach = variants.reach_multi(F, fn, 0, {VALUE: v}, scrutinee_ok=lambda e, pl, b: is_list(pl))
        if reach & oks:
            out.add(v)
    return out, fn


def checker_accepts(F, op):
    """Shape variants of the target for which derive_func_op_shape (arm `op`) has a path that does not return TypeErr"""
    fn = F.fn(TC + "derive_func_op_shape")
    o = Origins(fn)
    arm = TR.arms(fn, "ucglib::ast::FuncOpDef").get(op)
    need(arm, "no arm for FuncOpDef::%s" % op)
    entry = arm[0][1]
    terr = {b for b, j, pl, rv, m in fn.assigns() if pl["l"] == 0 and not pl["p"] and rv["k"] == "agg" and rv.get("adt") == SHAPE and rv.get("variant") == "TypeErr"}
    is_target = _named_scrutinee(fn, o, "target_shape")
    out = set()
    for s in F.variants(SHAPE):
        reach = variants.reach_multi(F, fn, entry, {SHAPE: s}, scrutinee_ok=lambda e, pl, b: is_target(pl), removed=terr)
        if reach & set(cfg.exits(fn)):
            out.add(s)
    # a Narrowed shape is accepted per kind of knowledge: unconstrained / a list of candidates
    for nv in F.variants(NARROWING):
        reach = variants.reach_multi(F, fn, entry, {SHAPE: "Narrowed", NARROWING: nv}, scrutinee_ok=lambda e, pl, b: is_target(pl), removed=terr)
        if reach & set(cfg.exits(fn)):
            out.add("Narrowed[%s]" % nv)
    return out, fn


def r21a(F):
    r = RuleResult("R21a", "functional-operator targets",
                   "for map, filter and reduce: every runtime kind of target the VM hook accepts is accepted (not a TypeErr) by "
                   "derive_func_op_shape, and so is a target whose shape is only partly known", floor=18, exhaustive=True)
    for hook, op in (("map", "Map"), ("filter", "Filter"), ("reduce", "Reduce")):
        vm, vfn = vm_accepts(F, hook)
        need(vm, "no accepted target kind found for Builtins::%s" % hook)
        chk, cfn = checker_accepts(F, op)
        for k in sorted(vm):
            s = KIND2SHAPE.get(k)
            ok = s in chk
            r.inst("%s:%s" % (hook, k), cfn.where(), ok, "VM accepts %s, checker accepts Shape::%s" % (k, s) if ok else
                   "the VM evaluates `%s` over a %s but the checker rejects it (\"%s target must be a list\"): a valid program does not build" % (hook, k.lower(), hook))
        for s in PARTLY_KNOWN:
            ok = s in chk
            r.inst("%s:partly-known:%s" % (hook, s), cfn.where(), ok, "a target of shape %s is let through" % s if ok else
                   "a target whose shape is %s is a TypeErr for `%s` although such a value can be a list at run time (copy, call and "
                   "`not` filter the candidates instead): `let l = [[1, 2], [3]]; let m = %s(f, l.0);` does not build"
                   % ("a list of candidates" if s.endswith("[Narrowed]") else s, hook, hook))
        r.note("%s: VM accepts %s; checker accepts %s" % (hook, sorted(vm), sorted(chk)))
    return r


def r21b(F):
    r = RuleResult("R21b", "forms after the dot",
                   "every form of right operand the translator's DOT arm lowers (copy, call, bare word, string, integer) has a "
                   "non-error path in derive_dot_expression when the left shape is a tuple / a resolved import", floor=8)
    te = F.fn(TR.T + "translate_expr")
    dot = TR.arm_blocks(te, "ucglib::ast::BinaryExprType", "DOT")
    handled = set()
    for b in dot:
        t = te.term(b)
        if t["k"] == "switch" and t.get("enum") == EXPR:
            for x in t["targets"]:
                if "variant" in x:
                    handled.add(x["variant"])
    need({"Copy", "Call", "Simple"} <= handled, "DOT arm of the translator does not dispatch on Copy / Call / Simple (%s)" % handled)
    fn = F.fn(TC + "derive_dot_expression")
    o = Origins(fn)
    terr = {b for b, j, pl, rv, m in fn.assigns() if pl["l"] == 0 and not pl["p"] and rv["k"] == "agg" and rv.get("adt") == SHAPE and rv.get("variant") == "TypeErr"}
    exits = set(cfg.exits(fn))
    forms = [("Copy", {}), ("Call", {}), ("Simple", {"ucglib::ast::Value": "Symbol"}), ("Simple", {"ucglib::ast::Value": "Str"})]
    NARROWING = "ucglib::ast::NarrowingShape"
    lefts = [("Tuple", {}, forms), ("Import", {"ucglib::ast::ImportShape": "Resolved"}, forms),
             # a call or copy through a field of a value whose shape is only partly known must be accepted as well: the value
             # may be a tuple at run time (an element of a list literal, a select result, a parameter)
             ("Hole", {}, forms[:2]), ("Narrowed", {NARROWING: "Any"}, forms[:2]), ("Narrowed", {NARROWING: "Narrowed"}, forms[:2])]
    for left, extra_left, fs in lefts:
        for form, extra in fs:
            fixed = {SHAPE: left, EXPR: form}
            fixed.update(extra)
            fixed.update(extra_left)
            def scrut(e, pl, b):
                # left_shape is parameter 2, right_expr parameter 3 (the match is on the tuple of both)
                ps = {l[1] for l in o.at(pl, b) if l[0] == "param"}
                if e in (SHAPE, "ucglib::ast::ImportShape", NARROWING):
                    return 2 in ps and 3 not in ps
                return 3 in ps and 2 not in ps
            reach = variants.reach_multi(F, fn, 0, fixed, scrutinee_ok=scrut, removed=terr)
            ok = bool(reach & exits)
            label = form + ("(%s)" % list(extra.values())[0] if extra else "")
            lname = left + ("[%s]" % list(extra_left.values())[0] if left == "Narrowed" else "")
            r.inst("%s.%s" % (lname, label), fn.where(), ok, "accepted (or delegated)" if ok else
                   "`<%s>.%s` always yields \"Invalid field selector\" in the checker although the VM evaluates it" % (left.lower(), {"Call": "f(..)", "Copy": "inner{..}"}.get(form, form)))
    return r


def r21c(F):
    r = RuleResult("R21c", "other dynamic dispatches",
                   "copy targets, `not` operands and `fail` messages: the checker accepts at least what the VM accepts, partly known shapes included", floor=10)
    # op_copy accepts Tuple and Module targets
    cs = F.fn(TC + "derive_copy_shape")
    o = Origins(cs)
    terr = {b for b, j, pl, rv, m in cs.assigns() if pl["l"] == 0 and not pl["p"] and rv["k"] == "agg" and rv.get("adt") == SHAPE and rv.get("variant") == "TypeErr"}
    is_base = _named_scrutinee(cs, o, "base_shape")
    for s in ("Tuple", "Module", "Import", "Hole"):
        reach = variants.reach_multi(F, cs, 0, {SHAPE: s}, scrutinee_ok=lambda e, pl, b: is_base(pl), removed=terr)
        ok = bool(reach & set(cfg.exits(cs)))
        r.inst("copy:%s" % s, cs.where(), ok, "copy of a %s base is accepted" % s if ok else "the checker rejects copying a %s although the VM copies tuples and modules" % s)
    for nv in F.variants(NARROWING):
        reach = variants.reach_multi(F, cs, 0, {SHAPE: "Narrowed", NARROWING: nv}, scrutinee_ok=lambda e, pl, b: is_base(pl), removed=terr)
        ok = bool(reach & set(cfg.exits(cs)))
        r.inst("copy:Narrowed[%s]" % nv, cs.where(), ok, "copy of a partly known base is let through" if ok else
               "the checker rejects copying a value of partly known shape (Narrowed[%s]) although it can be a tuple at run time" % nv)
    ns = F.fn(TC + "derive_not_shape")
    on = Origins(ns)
    terr = {b for b, j, pl, rv, m in ns.assigns() if pl["l"] == 0 and not pl["p"] and rv["k"] == "agg" and rv.get("adt") == SHAPE and rv.get("variant") == "TypeErr"}
    is_shape = _named_scrutinee(ns, on, "shape")
    for s in ("Boolean", "Hole"):
        reach = variants.reach_multi(F, ns, 0, {SHAPE: s}, scrutinee_ok=lambda e, pl, b: is_shape(pl), removed=terr)
        ok = bool(reach & set(cfg.exits(ns)))
        r.inst("not:%s" % s, ns.where(), ok, "`not` of a %s is accepted" % s if ok else "the checker rejects `not` on a %s" % s)
    for nv in F.variants(NARROWING):
        reach = variants.reach_multi(F, ns, 0, {SHAPE: "Narrowed", NARROWING: nv}, scrutinee_ok=lambda e, pl, b: is_shape(pl), removed=terr)
        ok = bool(reach & set(cfg.exits(ns)))
        r.inst("not:Narrowed[%s]" % nv, ns.where(), ok, "`not` of a partly known value is let through" if ok else
               "the checker rejects `not` on a value of partly known shape (Narrowed[%s]) although it can be a boolean at run time" % nv)
    return r


def r21h(F):
    r = RuleResult("R21h", "a use does not close the shape of an unknown symbol",
                   "when `s.f` is checked for a symbol `s` of unknown shape (Shape::Hole: a function parameter, `env`), the entry the "
                   "checker stores for `s` must still admit `s.g`: either nothing closed is stored, or a missing field of such a shape "
                   "is not a TypeErr", floor=1)
    fn = F.fn("<ucglib::ast::Expression as ucglib::ast::typecheck::DeriveShape>::derive_shape")
    o = Origins(fn)
    ins = [(b, t) for b, t in fn.calls() if callee(t).endswith("BTreeMap::insert")]
    infer = [(b, t) for b, t in fn.calls() if callee(t).startswith(TC + "infer_")]
    sites = []
    for b, t in ins:
        labs = o.at(t["args"][2], b)
        srcs = [c for c in calls_in(labs) if c.startswith(TC + "infer_")]
        if srcs:
            sites.append((b, srcs[0]))
    need(sites or not infer, "derive_shape calls an infer_* helper but its result is not stored: idiom not recognised")
    if not sites:
        r.inst("Hole-symbol:no-inference-stored", fn.where(), True, "nothing is stored for a symbol of unknown shape")
        return r
    # the lookup of a missing field in a Tuple shape
    closed = False
    for name in (TC + "derive_dot_expression", TC + "resolve_tuple_field"):
        f2 = F.fn(name)
        for b2, j, pl, rv, m in f2.assigns():
            if rv["k"] == "agg" and rv.get("adt") == SHAPE and rv.get("variant") == "TypeErr":
                strs = list(util.str_consts(f2))
                for b3, j3, pl3, rv3, m3 in f2.assigns():
                    for o3 in rv3.get("ops", []) or []:
                        if isinstance(o3, dict) and "const" in o3:
                            strs.append(str(o3["const"]))
                if any("not found in tuple" in x for x in strs):
                    closed = True
    for b, src in sites:
        h = F.fn(src)
        builds_tuple = any(rv["k"] == "agg" and rv.get("adt") == SHAPE and rv.get("variant") == "Tuple" for b2, j, pl, rv, m in h.assigns())
        bad = builds_tuple and closed
        r.inst("Hole-symbol:Tuple-from-single-use", fn.where(b), not bad,
               "the stored shape stays open" if not bad else
               "after `s.f` the checker stores Tuple{f} for the unknown symbol `s` and a field missing from a Tuple shape is a TypeErr: "
               "`let g = func(v) => v.x + v.y;` and `let a = env.FOO; let b = env.BAR;` are rejected although they evaluate")
    return r


def r21p(F):
    r = RuleResult("R21p", "re-anchoring a shape changes its position only",
                   "Shape::with_pos returns, for every input variant, the same variant, and for lists and narrowed shapes the same kind "
                   "of knowledge (Any stays Any, a candidate list stays that candidate list): with_pos is applied to function results "
                   "and symbol uses, and List(Any) turned into List(Narrowed([])) is rejected by copy, call, not and the functional "
                   "operators", floor=10, exhaustive=True)
    NARROWING = "ucglib::ast::NarrowingShape"
    fn = F.fn("ucglib::ast::Shape::with_pos")
    o = Origins(fn)
    aggs = [(b, rv) for b, j, pl, rv, m in fn.assigns() if rv["k"] == "agg" and rv.get("adt") in (SHAPE, NARROWING)]
    def scrut(e, pl, b):
        return any(l == ("param", 1) for l in o.at(pl, b))
    for v in F.variants(SHAPE):
        reach = variants.reach_multi(F, fn, 0, {SHAPE: v}, scrutinee_ok=scrut)
        built = {rv.get("variant") for b, rv in aggs if b in reach and rv.get("adt") == SHAPE}
        # an arm may hand the input back (`self.clone()`): then nothing is built
        ok = built <= {v}
        r.inst("variant:%s" % v, fn.where(), ok, "stays %s" % v if ok else "with_pos turns a %s shape into %s" % (v, sorted(built - {v})))
    for v in ("List", "Narrowed"):
        for nv in F.variants(NARROWING):
            other = [x for x in F.variants(NARROWING) if x != nv]
            reach = variants.reach_multi(F, fn, 0, {SHAPE: v, NARROWING: nv}, scrutinee_ok=scrut)
            built = {rv.get("variant") for b, rv in aggs if b in reach and rv.get("adt") == NARROWING}
            # constructors called on the way (NarrowedShape::new_with_pos builds a candidate list)
            for b, t in fn.calls():
                c = callee(t)
                if b in reach and c.startswith("ucglib::ast::") and c in F.fns and c != fn.name:
                    built |= {rv.get("variant") for b2, j2, pl2, rv, m2 in F.fn(c).assigns() if rv["k"] == "agg" and rv.get("adt") == NARROWING}
            ok = not (built & set(other))
            r.inst("knowledge:%s[%s]" % (v, nv), fn.where(), ok, "%s stays %s" % (v, nv) if ok else
                   "with_pos rebuilds a %s(%s) as %s(%s): `%s` becomes a shape the copy / call / not / functional-operator code rejects"
                   % (v, nv, v, sorted(built & set(other))[0], "unconstrained" if nv == "Any" else "a candidate list"))
    return r


DERIVE = "as ucglib::ast::typecheck::DeriveShape>::derive_shape"
MERGES = {"BTreeMap::append": (1,), "::extend": (1,), "BTreeMap::insert": (1, 2), "HashMap::insert": (1, 2)}


def _merge_kind(c):
    for k, ws in MERGES.items():
        if c.endswith(k) or (k == "::extend" and c.endswith("Extend<(K, V)>>::extend")) or (k == "::extend" and "::extend" in c and "BTreeMap" in c):
            return ws
    return None


def r21s(F):
    r = RuleResult("R21s", "a parameter shadows an outer binding in the checker's scope",
                   "the symbol table FuncDef::derive_shape hands to the body is layered with the parameters on top: no whole-table "
                   "merge (append / extend / insert: the incoming entry wins) writes entries that come from the enclosing scope only "
                   "over the parameters without the parameters being written again afterwards. The VM binds the arguments in the "
                   "innermost scope, so `let x = \"s\"; let f = func(x) => x + 1; f(2)` evaluates", floor=1)
    fn = F.fn("<ucglib::ast::FuncDef " + DERIVE)
    o = Origins(fn)
    body = [(b, t) for b, t in fn.calls() if callee(t).endswith(DERIVE) and "fields" in fields_in(o.at(t["args"][0], b))]
    need(len(body) == 1, "FuncDef::derive_shape: expected one derivation of the body (`fields`), found %d" % len(body))
    bb, bt = body[0]
    tpl = op_place(bt["args"][1])
    need(tpl is not None, "FuncDef::derive_shape: the body's table is not a place")
    tbl = set(o.alias[tpl["l"]]) | {tpl["l"]}
    need(2 not in tbl, "FuncDef::derive_shape: the body is derived against the caller's own table (no scope is opened)")
    merges = []
    for b, t in fn.calls():
        ws = _merge_kind(callee(t))
        if ws is None or not t["args"]:
            continue
        rp = op_place(t["args"][0])
        if rp is None or not ((set(o.alias[rp["l"]]) | {rp["l"]}) & tbl):
            continue
        if bb not in cfg.reachable(fn, b):
            continue
        labs = set()
        for w in ws:
            if w < len(t["args"]):
                labs |= set(o.at(t["args"][w], b))
        merges.append((b, callee(t), "argdefs" in fields_in(labs)))
    # where the table starts from: a clone of the outer table or the collected parameters
    start_params = any("argdefs" in fields_in(o.at({"l": l, "p": []}, bb)) for l in tbl)
    need(merges or start_params, "FuncDef::derive_shape: the parameters never reach the body's table: idiom not recognised")
    good = {b for b, c, has in merges if has}
    n = 0
    for b, c, has in merges:
        if has:
            continue
        n += 1
        # entries of the enclosing scope win here: the parameters must be written again before the body is derived
        later = cfg.reachable(fn, b, removed=good)
        ok = bb not in later
        r.inst("FuncDef:outer-over-params:%s" % c.split("::")[-1], fn.where(b), ok,
               "the parameters are written again before the body is derived" if ok else
               "`%s` lets the enclosing scope's entries replace the parameters' (for a key present in both, the incoming value "
               "wins) and nothing restores them: inside `func(x) => ..` a same-named outer `x` decides the shape of the parameter; "
               "`let x = \"s\"; let f = func(x) => x + 1; let y = f(2);` is rejected (\"Expected str but got int\") although it "
               "evaluates to 3" % c.split("::")[-1])
    if not n:
        r.inst("FuncDef:params-on-top", fn.where(bb), True, "every merge into the body's table writes parameter entries (%d merge call%s)"
               % (len(merges), "" if len(merges) == 1 else "s"))
    return r


RESULT_FIELDS = [
    # (impl type, result-carrying fields): sub-expressions whose value can BE the value of the expression
    ("SelectDef", ("tuple", "default")),
    ("FuncDef", ("fields",)),
    ("ModuleDef", ("out_expr",)),
]


def r21d(F):
    r = RuleResult("R21d", "every sub-expression that can be the result contributes to the derived shape",
                   "select: each branch AND the default; func: the body; module: the out expression. A result the shape does not "
                   "know about is rejected at its first use (`select (k, 1) => {a = \"s\"} + 1` evaluates to 2 when k is not `a`)",
                   floor=4, exhaustive=True)
    for ty, fields in RESULT_FIELDS:
        fn = F.fn("<ucglib::ast::%s %s" % (ty, DERIVE))
        o = Origins(fn)
        labs = set()
        for b in cfg.exits(fn):
            labs |= set(o.at({"l": 0, "p": []}, b))
        got = fields_in(labs)
        # a field whose value is driven through an iterator into a closure of this function that updates captured state
        # (`arms.chain(default).for_each(|e| shape.merge_in_shape(e.derive_shape(..)))`) contributes as well
        clos = {c.name for c in F.closures_of(fn.name)}
        updating = set()
        for cn in clos:
            cf = F.fns[cn]
            oc = Origins(cf)
            if any(t["args"] and ("param", 1) in oc.at(t["args"][0], b) and not util.is_std_callee(callee(t)) for b, t in cf.calls()):
                updating.add(cn)
        made = {}
        for b, j, pl, rv, m in fn.assigns():
            if rv["k"] == "agg" and rv.get("adt") == "{closure}" and rv.get("closure") in updating and not pl["p"]:
                made[pl["l"]] = rv["closure"]
        if made:
            for b, t in fn.calls():
                locs = {op_local(a) for a in t["args"]}
                if any(l in made or (l is not None and set(util.copies_of(fn, l, allow_not=False)) & set(made)) for l in locs if l is not None) or \
                        any(set(made) & set(util.feeders_of(fn, l)) for l in locs if l is not None):
                    for a in t["args"]:
                        got |= fields_in(o.at(a, b))
        for f in fields:
            ok = f in got
            r.inst("%s:%s" % (ty, f), fn.where(), ok, "flows into the shape" if ok else
                   "%s::derive_shape never reads `%s`: a value of another type coming from it is unknown to the checker and its "
                   "first use is rejected" % (ty, f))
    return r


def r21n(F):
    r = RuleResult("R21n", "a parameter's open shape is not narrowed in the caller's scope",
                   "derive_call_shape narrows the declared parameter shapes of the callee (FuncShapeDef.args) against the arguments. "
                   "A parameter the body left open is Shape::Hole(<parameter name>), and narrowing a Hole writes the symbol of that "
                   "name in the table it is given: when that table is the caller's own, a same-named binding of the caller is "
                   "overwritten with the argument's shape", floor=1)
    fn = F.fn(TC + "derive_call_shape")
    o = Origins(fn)
    sites = []
    for b, t in fn.calls():
        c = callee(t)
        if not (c.endswith("Shape::narrow") or c.endswith("Shape::narrow_cached")):
            continue
        labs = set(o.at(t["args"][0], b)) | set(o.at(t["args"][1], b))
        if "args" not in fields_in(labs):
            continue
        tp = op_place(t["args"][2])
        own = tp is not None and 2 in (set(o.alias[tp["l"]]) | {tp["l"]})
        sites.append((b, own))
    need(sites, "derive_call_shape does not narrow the declared parameter shapes: idiom not recognised")
    # can a Hole leave the function that owns it?  FuncDef::derive_shape stores the table entries as they are unless a
    # crate function other than these handles them on the way
    fd = F.fn("<ucglib::ast::FuncDef " + DERIVE)
    passthrough = ("::derive_shape", "Shape::with_pos", "::clone", "::pos")
    closing = []
    for name in [fd.name] + [n for n in F.fns if n.startswith(fd.name + "::{closure")]:
        for b, t in F.fn(name).calls():
            c = callee(t)
            if c.startswith("ucglib::") or c.startswith("<ucglib::"):
                if not any(c.endswith(x) or x in c for x in passthrough):
                    closing.append(c)
    for b, own in sites:
        bad = own and not closing
        r.inst("call-site:declared-vs-actual", fn.where(b), not bad,
               ("narrowed in a scope of its own" if not own else "FuncDef::derive_shape post-processes the parameter shapes (%s)" % closing[0]) if not bad else
               "`declared_shape.narrow(&actual_shape, symbol_table)` with the caller's table: `let f = func(a) => a; let a = \"text\"; "
               "let r = f(2); let s = a + \" more\";` is rejected (\"Expected int but got str\") although it evaluates")
    return r


def _narrow_homes(F, name):
    """narrow_cached and the private helpers of Shape it hands part of its work to (same file, called from it)"""
    fn = F.fn(name, flat=False)      # evaluated as written: the interpreter enters helpers itself
    out = [name]
    for b, t in fn.calls():
        c = callee(t)
        if c.startswith(SHAPE + "::") and c in F.fns and c != name and "{closure" not in c and not F.fns[c].derived and \
                F.fns[c].file == fn.file and c not in out:
            out.append(c)
    return out


def r21q(F):
    r = RuleResult("R21q", "one fitting candidate is enough",
                   "a shape known as one of several candidates (a select result, the element of a mixed list) is narrowed against "
                   "another shape by trying every candidate: when at least one of them fits, no type error may come out - "
                   "evaluated over the MIR with the result of one candidate's comparison forced to a fitting shape and all "
                   "others left unknown", floor=2)
    from .. import absint as AI
    name = SHAPE + "::narrow_cached"
    fn = F.fn(name, flat=False)      # evaluated as written: the interpreter enters helpers itself
    need(fn is not None, "Shape::narrow_cached not found")
    # the candidate loops: closures (or loops) of narrow_cached that call narrow_cached on an element of a candidate list
    homes = _narrow_homes(F, name)
    sites = []
    for n in sorted(F.fns):
        if any(n.startswith(h + "::{closure") for h in homes):
            for b, t in F.fns[n].calls():
                if callee(t) == name:
                    sites.append((n, b))
    need(sites, "narrow_cached: no candidate-by-candidate comparison found in a closure (idiom not recognised)")
    terr = set()
    for h in homes:
        for b, j, pl, rv, m in F.fns[h].assigns():
            if rv["k"] == "agg" and rv.get("adt") == SHAPE and rv.get("variant") == "TypeErr":
                terr.add((h, b))
    need(terr, "narrow_cached builds no TypeErr")
    fit = ("e", SHAPE, "Int", ())
    for i, site in enumerate(sites):
        # one side is known to be a candidate list (either side: the comparison is written out for both)
        cands = ("e", SHAPE, "Narrowed", (("0", ("e", "ucglib::ast::NarrowedShape", None, (("types", ("e", NARROWING, "Narrowed", ())),))),))
        sim = res = None
        for side in (1, 2):
            sim = AI.Sim(F, site=site, forced=fit, depth=3, opaque={name})
            args = [AI.U] * fn.nargs
            args[side - 1] = ("r", (side, ("*",)))
            try:
                res = sim.run(fn, args, init={(side, ("*",)): cands})
            except AI.Lossy:
                need(False, "narrow_cached: state space too large for the evaluation")
            if any(x[0] for x in res):
                break
        need(not sim.lossy, "narrow_cached: the candidate's result disappears into %s (not modelled)" % sorted({x[2] for x in sim.lossy})[:2])
        fired = [x for x in res if x[0]]
        need(fired, "narrow_cached: the evaluation never reaches the candidate comparison in %s" % site[0].split("::")[-1])
        bad = sorted(x for x in sim.visited_fired if x in terr)
        bad_ret = [x for x in fired if x[1][0] == "e" and x[1][2] == "TypeErr"]
        ok = not bad and not bad_ret
        r.inst("narrow_cached:candidates#%d:one-fits" % i, F.fns[site[0]].where(site[1]), ok,
               "after a candidate fits no type error is built" if ok else
               "a type error is built (%s) although one candidate fits: a value that is one of several kinds is rejected when ANY kind "
               "mismatches instead of when ALL do" % (F.fns[bad[0][0]].where(bad[0][1]) if bad else "returned"))
    return r


def r21m(F):
    r = RuleResult("R21m", "a candidate is dropped only as a true duplicate",
                   "Shape::equivalent is one-directional on tuples, lists and modules (every part of the left occurs in the right). "
                   "NarrowedShape::merge_in_shape, which collects the possible results of a select, may therefore drop an incoming "
                   "shape as a duplicate only when the test holds in both directions; dropped on one direction alone, a later arm "
                   "that extends an earlier one is lost and its extra fields are rejected", floor=1)
    name = "ucglib::ast::NarrowedShape::merge_in_shape"
    eqn = SHAPE + "::equivalent"
    fn = F.fn(name, flat=False)      # evaluated as written: the interpreter enters helpers itself
    eq = F.fn(eqn, flat=False)
    need(fn is not None and eq is not None, "merge_in_shape / Shape::equivalent not found")
    # is `equivalent` still directional?  A comparison of the two field counts would make the tuple arm symmetric.
    lens = [b for b, t in eq.calls() if callee(t).endswith("Vec<T, A>::len") or callee(t).endswith("Vec<T,A>::len")]
    need(not lens, "Shape::equivalent compares lengths of its two sides: whether it is still one-directional is not decided here")
    calls = [(b, t) for b, t in fn.calls() if callee(t) == eqn]
    need(calls, "merge_in_shape does not call Shape::equivalent (de-duplication idiom not recognised)")
    nexts = {b for b, t in fn.calls() if callee(t).endswith("::next")}
    keeps = {b for b, t in fn.calls() if callee(t).endswith("::push")} | \
            {b for b, j, pl, rv, m in fn.assigns() if rv["k"] == "agg" and rv.get("adt") == NARROWING}
    need(nexts and keeps, "merge_in_shape: candidate loop / push not found")

    def role(op):
        src = util.source_calls(fn, op)
        if any(c[0] != "param" and c[0].endswith("::next") for c in src):
            return "candidate"
        if ("param", 2) in src:
            return "incoming"
        return "?"
    orders = {}
    for b, t in calls:
        orders.setdefault((role(t["args"][0]), role(t["args"][1])), []).append((b, t))
    need(all("?" not in k for k in orders), "merge_in_shape: operands of equivalent not identified (%s)" % sorted(orders))
    exits = set(cfg.exits(fn))
    bad = []
    for want in (("candidate", "incoming"), ("incoming", "candidate")):
        sites = orders.get(want, [])
        if not sites:
            bad.append("%s.equivalent(%s) is never asked" % want)
            continue
        for b, t in sites:
            # a `false` answer must not lead to dropping the incoming shape: from the false edge no exit without passing the next
            # candidate or the push
            sws = util.bool_switches(fn, t["dest"]["l"])
            need(sws, "merge_in_shape: the answer of equivalent is not branched on directly (combined some other way)")
            for sb, ft, tt in sws:
                reach = cfg.reachable(fn, ft, removed=nexts | keeps)
                if reach & exits:
                    bad.append("a false answer of %s.equivalent(%s) still drops the shape" % want)
    r.inst("merge_in_shape:duplicate-both-ways", fn.where(calls[0][0]), not bad,
           "the incoming shape is dropped only when it and a candidate contain each other" if not bad else
           "%s: `select (t) => { a = {cpu = 1}, b = {cpu = 4, mem = 16} }` keeps only `{cpu}` and `.mem` of the result is rejected "
           "(\"No candidate type has field 'mem'\") although it evaluates" % "; ".join(bad))
    return r


def r21e(F):
    r = RuleResult("R21e", "an empty candidate list is unconstrained on either side",
                   "Narrowed([]) is the shape of an element of a list that started as `[]`: narrowing against it, from the left or "
                   "from the right, must not reach the candidate-by-candidate comparison (which finds no fitting candidate in an "
                   "empty list and reports a type error) - evaluated with `is_empty()` answering true", floor=2)
    from .. import absint as AI
    name = SHAPE + "::narrow_cached"
    fn = F.fn(name, flat=False)      # evaluated as written: the interpreter enters helpers itself
    need(fn is not None, "Shape::narrow_cached not found")
    homes = _narrow_homes(F, name)
    cmp_closures = set()
    for n in sorted(F.fns):
        if any(n.startswith(h + "::{closure") for h in homes) and any(callee(t) == name for b, t in F.fns[n].calls()):
            cmp_closures.add(n)
    need(cmp_closures, "narrow_cached: no candidate-by-candidate comparison found in a closure (idiom not recognised)")
    built = {(h, b) for h in homes for b, j, pl, rv, m in F.fns[h].assigns()
             if rv["k"] == "agg" and rv.get("adt") == "{closure}" and rv.get("closure") in cmp_closures}
    need(built, "narrow_cached: the comparison closures are not built in the function itself or a helper of it")
    empties = {callee(t) for h in homes for b, t in F.fns[h].calls() if callee(t).endswith("::is_empty")}
    need(empties, "narrow_cached asks no is_empty(): the guard for an empty candidate list is written some other way")
    cands = ("e", SHAPE, "Narrowed", (("0", ("e", "ucglib::ast::NarrowedShape", None, (("types", ("e", NARROWING, "Narrowed", ())),))),))
    for side, what in ((1, "left"), (2, "right")):
        sim = AI.Sim(F, depth=2, opaque={name}, force_all={c: AI.T for c in empties})
        args = [AI.U] * fn.nargs
        args[side - 1] = ("r", (side, ("*",)))
        try:
            sim.run(fn, args, init={(side, ("*",)): cands})
        except AI.Lossy:
            need(False, "narrow_cached: state space too large for the evaluation")
        hit = sorted(x for x in sim.visited if x in built)
        r.inst("narrow_cached:empty-candidates:%s" % what, F.fns[hit[0][0]].where(hit[0][1]) if hit else fn.where(), not hit,
               "an empty candidate list on the %s never reaches the candidate comparison" % what if not hit else
               "with an empty candidate list on the %s the candidate comparison is still reached: `let l = [] + [7, 8]; let x = 1 + l.1;` "
               "is rejected (\"No narrowed candidate is compatible with int\") although it evaluates" % what)
    # the same for a selector applied to such a shape (`l.0.name` where l started as `[]`): with every is_empty() true and the
    # walk over the candidates ending at once, no type error is built after the walk
    dn = TC + "derive_dot_expression"
    dot = F.fn(dn, flat=False)
    need(dot is not None, "derive_dot_expression not found")
    helpers = [dn]
    for b, t in dot.calls():
        c = callee(t)
        if c.startswith(TC) and c in F.fns and c != dn and not c.endswith("derive_shape") and "{closure" not in c and c not in helpers:
            helpers.append(c)
    none = ("it", (("src_empty",),))       # the walk over the candidates starts on an empty list
    n_sites = 0
    for hn in helpers:
        hf = F.fns[hn]
        walks = [b for b, t in hf.calls() if callee(t).split("::")[-1] in ("iter", "into_iter") and not t["dest"]["p"] and
                 "ucglib::ast::Shape" in hf.local_ty(t["dest"]["l"])]
        for k_, wb in enumerate(walks):
            sim = AI.Sim(F, site=(hn, wb), forced=none, depth=3, opaque={dn},
                         force_all={c: AI.T for c in {callee(t) for f_ in helpers for b, t in F.fns[f_].calls() if callee(t).endswith("::is_empty")}})
            args = [AI.U] * dot.nargs
            args[1] = ("r", (2, ("*",)))
            # the selector is a plain name / string / number: the parser nests `a.b.c` to the left, so each step arrives here with a
            # simple right-hand side (the arms for a right-nested chain are not evaluated: no input was found that reaches them)
            args[2] = ("r", (3, ("*",)))
            try:
                sim.run(dot, args, init={(2, ("*",)): cands, (3, ("*",)): ("e", EXPR, "Simple", ())})
            except AI.Lossy:
                need(False, "derive_dot_expression: state space too large for the evaluation")
            terr = {(f_, b) for f_ in helpers for b, j, pl, rv, m in F.fns[f_].assigns()
                    if rv["k"] == "agg" and rv.get("adt") == SHAPE and rv.get("variant") == "TypeErr"}
            hit = sorted(x for x in sim.visited_fired if x in terr)
            n_sites += 1
            r.inst("%s:empty-candidates:walk#%d" % (hn.split("::")[-1], k_), hf.where(wb), not hit,
                   "a walk over an empty candidate list is never followed by a type error (not reached, or the result stays open)" if not hit else
                   "a selector on a shape with an empty candidate list walks the (empty) list and reports a type error at %s: "
                   "`let l = [] + [{name = 1}]; let n = l.0.name;` is rejected although it evaluates" % F.fns[hit[0][0]].where(hit[0][1]))
    need(n_sites, "derive_dot_expression: no walk over candidate shapes found (idiom not recognised)")
    return r


def r21f(F):
    r = RuleResult("R21f", "a target of unknown kind is accepted whatever the callback looks like",
                   "map / filter / reduce over a value the checker knows nothing about (a Hole, or `any`): the VM decides at run time "
                   "whether it is a list, a tuple or a string and how many arguments the callback gets, so the checker must not "
                   "report a type error that presumes one of them - evaluated with the target's shape forced to the unknown kind and "
                   "the callback's shape a function of unknown arity", floor=4)
    from .. import absint as AI
    name = TC + "derive_func_op_shape"
    fn = F.fn(name, flat=False)      # evaluated as written: the interpreter enters helpers itself
    need(fn is not None, "derive_func_op_shape not found")
    o = Origins(fn)
    DS = [c for c in {callee(t) for b, t in fn.calls()} if c.endswith("::derive_shape")]
    need(DS, "derive_func_op_shape derives no shapes")
    helpers = [name] + sorted({callee(t) for b, t in fn.calls() if callee(t).startswith(TC) and callee(t) in F.fns and callee(t) != name
                               and "{closure" not in callee(t) and not callee(t).endswith("::derive_shape")})
    terr = {(h, b) for h in helpers for b, j, pl, rv, m in F.fns[h].assigns()
            if rv["k"] == "agg" and rv.get("adt") == SHAPE and rv.get("variant") == "TypeErr"}
    func_shape = ("e", SHAPE, "Func", ())
    unknowns = [("Hole", ("e", SHAPE, "Hole", ())),
                ("any", ("e", SHAPE, "Narrowed", (("0", ("e", "ucglib::ast::NarrowedShape", None, (("types", ("e", NARROWING, "Any", ())),))),)))]
    for v in ("Map", "Filter", "Reduce"):
        sites = [b for b, t in fn.calls() if callee(t) in DS and ("field", "target") in o.at(t["args"][0], b) and ("variant", v) in o.at(t["args"][0], b)]
        need(len(sites) == 1, "derive_func_op_shape: the target of %s is not derived exactly once (%d)" % (v, len(sites)))
        for uname, uval in unknowns:
            sim = AI.Sim(F, site=(name, sites[0]), forced=uval, depth=1, force_all={c: func_shape for c in DS},
                         opaque={c for c in F.fns if c.startswith(SHAPE + "::")})
            args = [AI.U] * fn.nargs
            args[0] = ("r", (1, ("*",)))
            try:
                res = sim.run(fn, args, init={(1, ("*",)): ("e", "ucglib::ast::FuncOpDef", v, ())})
            except AI.Lossy:
                need(False, "derive_func_op_shape: state space too large for the evaluation")
            need(any(x[0] for x in res), "derive_func_op_shape: the evaluation does not reach the %s arm" % v)
            hit = sorted(x for x in sim.visited_fired if x in terr)
            r.inst("%s:target-%s:any-callback" % (v, uname), fn.where(sites[0]), not hit,
                   "no type error is built for a target of unknown kind" if not hit else
                   "a type error is built at %s for a target the checker knows nothing about: `let t = filter(f, {a = 1}); map(func(k, v) => [k, v], t)` "
                   "is rejected for its two-parameter callback although the VM maps over the tuple" % F.fns[hit[0][0]].where(hit[0][1]))
    return r


from . import c09 as _c09

from . import c06 as _c06

# R19n (C06): the checker counts its nesting into module expressions; a flag instead of a counter ends the skipping of an outer
# module's statements when an inner module closes - for C07 that is a false rejection (the rest of the body is checked at file level)
RULES = [r21a, r21b, r21c, r21h, r21p, r21s, r21d, r21n, r21q, r21m, r21e, r21f, _c09.r25p, _c06.r19n]
