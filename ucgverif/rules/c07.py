"""C07 — the static checker never rejects a program that evaluates.  R21a R21b R21c."""
from .. import cfg, util, variants, translator as TR
from ..core import RuleResult, need
from ..facts import callee, op_local, op_place
from ..origins import Origins, calls_in

RT = "ucglib::build::opcode::runtime::Builtins::"
TC = "ucglib::ast::typecheck::"
SHAPE = "ucglib::ast::Shape"
EXPR = "ucglib::ast::Expression"
VALUE = "ucglib::build::opcode::Value"
COMPOSITE = "ucglib::build::opcode::Composite"
PRIMITIVE = "ucglib::build::opcode::Primitive"
# runtime kind -> the Shape variant the checker derives for a value of that kind (impl DeriveShape for Value)
KIND2SHAPE = {"List": "List", "Tuple": "Tuple", "Str": "Str", "Int": "Int", "Float": "Float", "Bool": "Boolean"}


def _named_scrutinee(fn, o, name):
    def ok(place, b=None):
        ls = {place["l"]} | set(o.alias[place["l"]])
        return any(name in fn.var_names().get(l, ()) for l in ls)
    return ok


def vm_accepts(F, hook):
    """runtime kinds of the target for which the hook has a non-error path"""
    fn = F.fn(RT + hook)
    o = Origins(fn)
    oks = {b for b, j, pl, rv, m in fn.assigns() if pl["l"] == 0 and not pl["p"] and rv["k"] == "agg" and rv.get("variant") == "Ok"}
    is_list = _named_scrutinee(fn, o, "list")
    # the switch on the target: Value -> Composite / Primitive
    out = set()
    for comp_enum, kinds in ((COMPOSITE, ("List", "Tuple")), (PRIMITIVE, ("Str", "Int", "Float", "Bool", "Empty"))):
        for k in kinds:
            fixed = {VALUE: "C" if comp_enum == COMPOSITE else "P", comp_enum: k}
            reach = variants.reach_multi(F, fn, 0, fixed, scrutinee_ok=lambda e, pl, b: is_list(pl))
            if reach & oks:
                out.add(k)
    for v in ("F", "M", "T", "S", "K"):
        reach = variants.reach_multi(F, fn, 0, {VALUE: v}, scrutinee_ok=lambda e, pl, b: is_list(pl))
        if reach & oks:
            out.add(v)
    return out, fn


def checker_accepts(F, op):
    """Shape variants of the target for which derive_func_op_shape (arm `op`) has a path that does not return TypeErr"""
    fn = F.fn(TC + "derive_func_op_shape")
    o = Origins(fn)
    arm = TR.arms(fn, "ucglib::ast::FuncOpDef").get(op)
    need(arm, "no arm for FuncOpDef::%s" % op)
    entry = arm[0][1]
    terr = {b for b, j, pl, rv, m in fn.assigns() if pl["l"] == 0 and not pl["p"] and rv["k"] == "agg" and rv.get("adt") == SHAPE and rv.get("variant") == "TypeErr"}
    is_target = _named_scrutinee(fn, o, "target_shape")
    out = set()
    for s in F.variants(SHAPE):
        reach = variants.reach_multi(F, fn, entry, {SHAPE: s}, scrutinee_ok=lambda e, pl, b: is_target(pl), removed=terr)
        if reach & set(cfg.exits(fn)):
            out.add(s)
    return out, fn


def r21a(F):
    r = RuleResult("R21a", "functional-operator targets",
                   "for map, filter and reduce: every runtime kind of target the VM hook accepts is accepted (not a TypeErr) by "
                   "derive_func_op_shape", floor=9, exhaustive=True)
    for hook, op in (("map", "Map"), ("filter", "Filter"), ("reduce", "Reduce")):
        vm, vfn = vm_accepts(F, hook)
        need(vm, "no accepted target kind found for Builtins::%s" % hook)
        chk, cfn = checker_accepts(F, op)
        for k in sorted(vm):
            s = KIND2SHAPE.get(k)
            ok = s in chk
            r.inst("%s:%s" % (hook, k), cfn.where(), ok, "VM accepts %s, checker accepts Shape::%s" % (k, s) if ok else
                   "the VM evaluates `%s` over a %s but the checker rejects it (\"%s target must be a list\"): a valid program does not build" % (hook, k.lower(), hook))
        r.note("%s: VM accepts %s; checker accepts %s" % (hook, sorted(vm), sorted(chk)))
    return r


def r21b(F):
    r = RuleResult("R21b", "forms after the dot",
                   "every form of right operand the translator's DOT arm lowers (copy, call, bare word, string, integer) has a "
                   "non-error path in derive_dot_expression when the left shape is a tuple / a resolved import", floor=8)
    te = F.fn(TR.T + "translate_expr")
    dot = TR.arm_blocks(te, "ucglib::ast::BinaryExprType", "DOT")
    handled = set()
    for b in dot:
        t = te.term(b)
        if t["k"] == "switch" and t.get("enum") == EXPR:
            for x in t["targets"]:
                if "variant" in x:
                    handled.add(x["variant"])
    need({"Copy", "Call", "Simple"} <= handled, "DOT arm of the translator does not dispatch on Copy / Call / Simple (%s)" % handled)
    fn = F.fn(TC + "derive_dot_expression")
    o = Origins(fn)
    terr = {b for b, j, pl, rv, m in fn.assigns() if pl["l"] == 0 and not pl["p"] and rv["k"] == "agg" and rv.get("adt") == SHAPE and rv.get("variant") == "TypeErr"}
    exits = set(cfg.exits(fn))
    forms = [("Copy", {}), ("Call", {}), ("Simple", {"ucglib::ast::Value": "Symbol"}), ("Simple", {"ucglib::ast::Value": "Str"})]
    NARROWING = "ucglib::ast::NarrowingShape"
    lefts = [("Tuple", {}, forms), ("Import", {"ucglib::ast::ImportShape": "Resolved"}, forms),
             # a call or copy through a field of a value whose shape is only partly known must be accepted as well: the value
             # may be a tuple at run time (an element of a list literal, a select result, a parameter)
             ("Hole", {}, forms[:2]), ("Narrowed", {NARROWING: "Any"}, forms[:2]), ("Narrowed", {NARROWING: "Narrowed"}, forms[:2])]
    for left, extra_left, fs in lefts:
        for form, extra in fs:
            fixed = {SHAPE: left, EXPR: form}
            fixed.update(extra)
            fixed.update(extra_left)
            def scrut(e, pl, b):
                # left_shape is parameter 2, right_expr parameter 3 (the match is on the tuple of both)
                ps = {l[1] for l in o.at(pl, b) if l[0] == "param"}
                if e in (SHAPE, "ucglib::ast::ImportShape", NARROWING):
                    return 2 in ps and 3 not in ps
                return 3 in ps and 2 not in ps
            reach = variants.reach_multi(F, fn, 0, fixed, scrutinee_ok=scrut, removed=terr)
            ok = bool(reach & exits)
            label = form + ("(%s)" % list(extra.values())[0] if extra else "")
            lname = left + ("[%s]" % list(extra_left.values())[0] if left == "Narrowed" else "")
            r.inst("%s.%s" % (lname, label), fn.where(), ok, "accepted (or delegated)" if ok else
                   "`<%s>.%s` always yields \"Invalid field selector\" in the checker although the VM evaluates it" % (left.lower(), {"Call": "f(..)", "Copy": "inner{..}"}.get(form, form)))
    return r


def r21c(F):
    r = RuleResult("R21c", "other dynamic dispatches",
                   "copy targets, `not` operands and `fail` messages: the checker accepts at least what the VM accepts", floor=4)
    # op_copy accepts Tuple and Module targets
    cs = F.fn(TC + "derive_copy_shape")
    o = Origins(cs)
    terr = {b for b, j, pl, rv, m in cs.assigns() if pl["l"] == 0 and not pl["p"] and rv["k"] == "agg" and rv.get("adt") == SHAPE and rv.get("variant") == "TypeErr"}
    is_base = _named_scrutinee(cs, o, "base_shape")
    for s in ("Tuple", "Module", "Import", "Hole"):
        reach = variants.reach_multi(F, cs, 0, {SHAPE: s}, scrutinee_ok=lambda e, pl, b: is_base(pl), removed=terr)
        ok = bool(reach & set(cfg.exits(cs)))
        r.inst("copy:%s" % s, cs.where(), ok, "copy of a %s base is accepted" % s if ok else "the checker rejects copying a %s although the VM copies tuples and modules" % s)
    ns = F.fn(TC + "derive_not_shape")
    on = Origins(ns)
    terr = {b for b, j, pl, rv, m in ns.assigns() if pl["l"] == 0 and not pl["p"] and rv["k"] == "agg" and rv.get("adt") == SHAPE and rv.get("variant") == "TypeErr"}
    is_shape = _named_scrutinee(ns, on, "shape")
    for s in ("Boolean", "Hole"):
        reach = variants.reach_multi(F, ns, 0, {SHAPE: s}, scrutinee_ok=lambda e, pl, b: is_shape(pl), removed=terr)
        ok = bool(reach & set(cfg.exits(ns)))
        r.inst("not:%s" % s, ns.where(), ok, "`not` of a %s is accepted" % s if ok else "the checker rejects `not` on a %s" % s)
    return r


def r21h(F):
    r = RuleResult("R21h", "a use does not close the shape of an unknown symbol",
                   "when `s.f` is checked for a symbol `s` of unknown shape (Shape::Hole: a function parameter, `env`), the entry the "
                   "checker stores for `s` must still admit `s.g`: either nothing closed is stored, or a missing field of such a shape "
                   "is not a TypeErr", floor=1)
    fn = F.fn("<ucglib::ast::Expression as ucglib::ast::typecheck::DeriveShape>::derive_shape")
    o = Origins(fn)
    ins = [(b, t) for b, t in fn.calls() if callee(t).endswith("BTreeMap::insert")]
    infer = [(b, t) for b, t in fn.calls() if callee(t).startswith(TC + "infer_")]
    sites = []
    for b, t in ins:
        labs = o.at(t["args"][2], b)
        srcs = [c for c in calls_in(labs) if c.startswith(TC + "infer_")]
        if srcs:
            sites.append((b, srcs[0]))
    need(sites or not infer, "derive_shape calls an infer_* helper but its result is not stored: idiom not recognised")
    if not sites:
        r.inst("Hole-symbol:no-inference-stored", fn.where(), True, "nothing is stored for a symbol of unknown shape")
        return r
    # the lookup of a missing field in a Tuple shape
    closed = False
    for name in (TC + "derive_dot_expression", TC + "resolve_tuple_field"):
        f2 = F.fn(name)
        for b2, j, pl, rv, m in f2.assigns():
            if rv["k"] == "agg" and rv.get("adt") == SHAPE and rv.get("variant") == "TypeErr":
                strs = list(util.str_consts(f2))
                for b3, j3, pl3, rv3, m3 in f2.assigns():
                    for o3 in rv3.get("ops", []) or []:
                        if isinstance(o3, dict) and "const" in o3:
                            strs.append(str(o3["const"]))
                if any("not found in tuple" in x for x in strs):
                    closed = True
    for b, src in sites:
        h = F.fn(src)
        builds_tuple = any(rv["k"] == "agg" and rv.get("adt") == SHAPE and rv.get("variant") == "Tuple" for b2, j, pl, rv, m in h.assigns())
        bad = builds_tuple and closed
        r.inst("Hole-symbol:Tuple-from-single-use", fn.where(b), not bad,
               "the stored shape stays open" if not bad else
               "after `s.f` the checker stores Tuple{f} for the unknown symbol `s` and a field missing from a Tuple shape is a TypeErr: "
               "`let g = func(v) => v.x + v.y;` and `let a = env.FOO; let b = env.BAR;` are rejected although they evaluate")
    return r


def r21p(F):
    r = RuleResult("R21p", "re-anchoring a shape changes its position only",
                   "Shape::with_pos returns, for every input variant, the same variant, and for lists and narrowed shapes the same kind "
                   "of knowledge (Any stays Any, a candidate list stays that candidate list): with_pos is applied to function results "
                   "and symbol uses, and List(Any) turned into List(Narrowed([])) is rejected by copy, call, not and the functional "
                   "operators", floor=10, exhaustive=True)
    NARROWING = "ucglib::ast::NarrowingShape"
    fn = F.fn("ucglib::ast::Shape::with_pos")
    o = Origins(fn)
    aggs = [(b, rv) for b, j, pl, rv, m in fn.assigns() if rv["k"] == "agg" and rv.get("adt") in (SHAPE, NARROWING)]
    def scrut(e, pl, b):
        return any(l == ("param", 1) for l in o.at(pl, b))
    for v in F.variants(SHAPE):
        reach = variants.reach_multi(F, fn, 0, {SHAPE: v}, scrutinee_ok=scrut)
        built = {rv.get("variant") for b, rv in aggs if b in reach and rv.get("adt") == SHAPE}
        # an arm may hand the input back (`self.clone()`): then nothing is built
        ok = built <= {v}
        r.inst("variant:%s" % v, fn.where(), ok, "stays %s" % v if ok else "with_pos turns a %s shape into %s" % (v, sorted(built - {v})))
    for v in ("List", "Narrowed"):
        for nv in F.variants(NARROWING):
            other = [x for x in F.variants(NARROWING) if x != nv]
            reach = variants.reach_multi(F, fn, 0, {SHAPE: v, NARROWING: nv}, scrutinee_ok=scrut)
            built = {rv.get("variant") for b, rv in aggs if b in reach and rv.get("adt") == NARROWING}
            # constructors called on the way (NarrowedShape::new_with_pos builds a candidate list)
            for b, t in fn.calls():
                c = callee(t)
                if b in reach and c.startswith("ucglib::ast::") and c in F.fns and c != fn.name:
                    built |= {rv.get("variant") for b2, j2, pl2, rv, m2 in F.fn(c).assigns() if rv["k"] == "agg" and rv.get("adt") == NARROWING}
            ok = not (built & set(other))
            r.inst("knowledge:%s[%s]" % (v, nv), fn.where(), ok, "%s stays %s" % (v, nv) if ok else
                   "with_pos rebuilds a %s(%s) as %s(%s): `%s` becomes a shape the copy / call / not / functional-operator code rejects"
                   % (v, nv, v, sorted(built & set(other))[0], "unconstrained" if nv == "Any" else "a candidate list"))
    return r


from . import c09 as _c09

RULES = [r21a, r21b, r21c, r21h, r21p, _c09.r25p]
