"""C06 — a `::` constraint admits exactly the conforming values.  R18 R19 R20 R66."""
from .. import cfg, util, variants, translator as TR
from ..core import RuleResult, need
from ..facts import callee, op_local, op_place
from ..origins import Origins, calls_in, results_in

IR = "ucglib::build::ir::"
CHECK = IR + "ConstraintVal::check"
VM = "ucglib::build::opcode::vm::VM::"
SHAPE = "ucglib::ast::Shape"


def r18(F):
    r = RuleResult("R18", "inclusive bounds, all arms, bounds not swapped",
                   "ConstraintVal::check compares the candidate with `>=` against the lower bound (field 0) and `<=` against the upper "
                   "bound (field 1) for int and float ranges, only for candidates of the bound's type, and tries every arm "
                   "(Iterator::any); op_build_constraint puts the first written bound into field 0 and the second into field 1", floor=12)
    fn = F.fn(CHECK)
    anys = [(b, t) for b, t in fn.calls() if callee(t).endswith("::any")]
    if len(anys) != 1:
        # recognised alternative: none; anything that does not exhaust the arms is the violation itself
        r.inst("check:any-over-arms", fn.where(), False,
               "ConstraintVal::check does not try every arm (no Iterator::any over self.arms): an alternation admits only part of its alternatives")
        return r
    ab, at = anys[0]
    o = Origins(fn)
    labs = o.at(at["args"][0], ab)
    ok = ("field", "arms") in labs and any(c.endswith("::iter") for c in calls_in(labs))
    # result returned unchanged
    ret_ok = at["dest"]["l"] == 0 or any(pl["l"] == 0 and rv["k"] == "use" and op_local(rv["ops"][0]) == at["dest"]["l"] for b, j, pl, rv, m in fn.assigns())
    r.inst("check:any-over-arms", fn.where(ab), ok and ret_ok, "every arm is tried (any over self.arms), result returned as is" if ok and ret_ok else "arms are not exhausted with Iterator::any over self.arms")
    # the arm closure
    cls = [f for f in F.closures_of(CHECK) if f.name.count("{closure") == 1]
    need(len(cls) == 1, "arm closure of ConstraintVal::check not found")
    arm = cls[0]
    oa = Origins(arm)
    inners = {f.name: f for f in F.fns.values() if f.name.startswith(arm.name + "::{closure#")}
    need(len(inners) == 4, "expected four bound closures, found %d" % len(inners))
    # which closure guards which bound field, and in which ConstraintBound arm
    seen = 0
    for b, t in arm.calls():
        if not callee(t).endswith("Option::is_none_or"):
            continue
        recv = oa.at(t["args"][0], b)
        fld = "0" if ("field", "0") in recv and ("field", "1") not in recv else "1" if ("field", "1") in recv else "?"
        # the closure passed
        cl = None
        l = op_local(t["args"][1])
        for bb, j, pl, rv, m in arm.assigns():
            if pl["l"] == l and rv["k"] == "agg" and rv.get("closure"):
                cl = rv["closure"]
        need(cl in inners, "closure argument of is_none_or not identified")
        bound_arm = [v for v in ("Int", "Float") if b in TR.arm_blocks(arm, IR + "ConstraintBound", v)]
        need(len(bound_arm) == 1, "is_none_or call not inside exactly one ConstraintBound arm")
        cf = inners[cl]
        cmps = [(bb, rv) for bb, j, pl, rv, m in cf.assigns() if rv["k"] == "bin" and rv["op"] in ("Ge", "Gt", "Le", "Lt", "Eq", "Ne")]
        need(len(cmps) == 1, "bound closure %s does not contain exactly one comparison" % cl)
        bb, rv = cmps[0]
        oc = Origins(cf)
        la, lb = oc.at(rv["ops"][0], bb), oc.at(rv["ops"][1], bb)
        # operand deriving from the closure's own parameter (2) is the bound; the captured one (1) is the candidate
        a_is_val = ("param", 1) in la and ("param", 2) not in la
        b_is_bound = ("param", 2) in lb
        op = rv["op"]
        if not (a_is_val and b_is_bound):
            if ("param", 2) in la and ("param", 1) in lb:
                op = {"Ge": "Le", "Le": "Ge", "Gt": "Lt", "Lt": "Gt"}.get(op, op)
            else:
                need(False, "operands of the comparison in %s not recognised" % cl)
        want = "Ge" if fld == "0" else "Le"
        ok = op == want and fld in ("0", "1")
        seen += 1
        r.inst("check:%s:%s" % (bound_arm[0], "lower" if fld == "0" else "upper" if fld == "1" else "?"), cf.where(bb), ok,
               "value %s bound (inclusive)" % (">=" if want == "Ge" else "<=") if ok else
               "%s bound of %s ranges is compared with `%s` instead of `%s`: the boundary value %s" % (
                   "lower" if fld == "0" else "upper", bound_arm[0].lower(), op, want, "is rejected" if op in ("Gt", "Lt") else "is mishandled"))
        # type test: the comparison is only reached for candidates of the bound's type
        vsw = [(sb, arm.term(sb)) for sb in range(len(arm.blocks)) if arm.term(sb)["k"] == "switch" and arm.term(sb).get("enum") == IR + "Val" and not arm.is_cleanup(sb)]
        typed = any(cfg.dominates(arm, cfg.switch_edge(st, variant=bound_arm[0]), b) and cfg.switch_edge(st, variant=bound_arm[0]) != st["otherwise"] for sb, st in vsw)
        r.inst("check:%s:%s:type" % (bound_arm[0], "lower" if fld == "0" else "upper"), arm.where(b), typed,
               "only %s candidates are compared with %s bounds" % (bound_arm[0], bound_arm[0]) if typed else "bound comparison reachable for candidates of another type")
    need(seen == 4, "expected four bound comparisons, saw %d" % seen)
    # --- op_build_constraint: field 0 <- first value, field 1 <- second value
    bc = F.fn(VM + "op_build_constraint")
    ob = Origins(bc)
    nexts = [(b, t) for b, t in bc.calls() if callee(t).endswith("IntoIter<T, A> as core::iter::traits::iterator::Iterator>::next") or (callee(t).endswith("::next") and "IntoIter" in callee(t))]
    range_arm = TR.arm_blocks(bc, "ucglib::build::opcode::ConstraintArmType", "Range")
    rn = [(b, t) for b, t in nexts if b in range_arm]
    need(len(rn) == 2, "expected two val_iter.next() in the Range arm, found %d" % len(rn))
    first = rn[0] if cfg.dominates(bc, rn[0][0], rn[1][0]) else rn[1]
    second = rn[1] if first is rn[0] else rn[0]
    lab1 = ("call", callee(first[1]), first[0])
    lab2 = ("call", callee(second[1]), second[0])
    aggs = [(b, rv) for b, j, pl, rv, m in bc.assigns() if rv["k"] == "agg" and rv.get("adt") == IR + "ConstraintBound"]
    need(len(aggs) == 6, "expected six ConstraintBound aggregates, found %d" % len(aggs))
    for b, rv in aggs:
        l0, l1 = ob.at(rv["ops"][0], b), ob.at(rv["ops"][1], b)
        # result flow only: the second next() result can never be the first written bound and vice versa
        # (side effects of the calls on the shared iterator are ("effect", ..) labels and do not count)
        ok0 = lab2 not in l0
        ok1 = lab1 not in l1
        has0 = lab1 in l0
        has1 = lab2 in l1
        none0 = any(x[0] == "agg" and x[2] == "None" for x in l0) and not has0
        none1 = any(x[0] == "agg" and x[2] == "None" for x in l1) and not has1
        ok = ok0 and ok1 and (has0 or none0) and (has1 or none1)
        r.inst("op_build_constraint:%s:%s%s" % (rv["variant"], "s" if has0 else "-", "e" if has1 else "-"), bc.where(b), ok,
               "field 0 <- start%s, field 1 <- end%s" % ("" if has0 else " (open)", "" if has1 else " (open)") if ok else
               "range bounds crossed: field 0 / field 1 of ConstraintBound do not come from start / end respectively")
    # pops and nexts per arm type agree, one reverse in between
    pops = [b for b, t in bc.calls() if callee(t) == VM + "pop"]
    revs = [b for b, t in bc.calls() if callee(t).endswith("::reverse")]
    exact_arm = TR.arm_blocks(bc, "ucglib::build::opcode::ConstraintArmType", "Exact")
    np_r = len([b for b in pops if b in range_arm])
    np_e = len([b for b in pops if b in exact_arm])
    nn_e = len([b for b, t in nexts if b in exact_arm])
    ok = np_r == 2 and np_e == 1 and nn_e == 1 and len(revs) == 1
    r.inst("op_build_constraint:pop/next-counts", bc.where(), ok, "Range: 2 pops / 2 values, Exact: 1 / 1, one reverse" if ok else
           "pops and consumed values per arm type disagree (range %d, exact %d/%d, reverses %d)" % (np_r, np_e, nn_e, len(revs)))
    # translator: start before end
    te = F.fn(TR.T + "translate_expr")
    carm = TR.arm_blocks(te, "ucglib::ast::ConstraintArm", "Range")
    ot = Origins(te)
    recs = [c for c in TR.rec_calls(te) if c["bb"] in carm and c["callee"] == "translate_expr"]
    need(len(recs) == 2, "expected two translate_expr calls in the ConstraintArm::Range arm")
    s = [c for c in recs if ("field", "start") in ot.at(c["term"]["args"][0], c["bb"])]
    e = [c for c in recs if ("field", "end") in ot.at(c["term"]["args"][0], c["bb"])]
    need(len(s) == 1 and len(e) == 1, "start / end translations not identified")
    ok = not cfg.reaches(te, e[0]["bb"], s[0]["bb"], removed=set()) or cfg.dominates(te, s[0]["bb"], e[0]["bb"])
    ok = s[0]["bb"] not in cfg.reachable(te, e[0]["bb"], removed={b for b in range(len(te.blocks)) if b not in carm})
    r.inst("translate:start-before-end", te.where(s[0]["bb"]), ok, "start is pushed before end" if ok else "end is translated before start: bounds arrive swapped")
    return r


def r19(F):
    r = RuleResult("R19", "the check sits between value and bind and its failure is an error",
                   "Let arm: CheckConstraint is pushed after the value and before Bind whenever a constraint is present; "
                   "op_check_constraint returns Err when check() is false and returns Ok without checking only for the two listed "
                   "cases; the checker records a TypeErr from narrow and a non-empty error stack fails the build", floor=7)
    ts = F.fn(TR.T + "translate_stmt")
    let = TR.arm_blocks(ts, "ucglib::ast::Statement", "Let")
    pushes = [p for p in TR.pushes(ts) if p["bb"] in let]
    recs = [c for c in TR.rec_calls(ts) if c["bb"] in let]
    o = Origins(ts)
    chk = [p for p in pushes if p["op"] == "CheckConstraint"]
    bind = [p for p in pushes if p["op"] == "Bind"]
    val = [c for c in recs if ("field", "value") in o.at(c["term"]["args"][0], c["bb"])]
    con = [c for c in recs if ("field", "constraint") in o.at(c["term"]["args"][0], c["bb"])]
    need(len(val) == 1 and len(con) == 1 and bind, "Let arm anchors (value, constraint, Bind)")
    chk_b = {p["bb"] for p in chk}
    bind_b = {p["bb"] for p in bind}
    ok = bool(chk) and cfg.dominates(ts, val[0]["bb"], con[0]["bb"]) and all(cfg.dominates(ts, con[0]["bb"], c) for c in chk_b) and \
        not any(c in cfg.reachable(ts, b_) for b_ in bind_b for c in chk_b)
    r.inst("Let:value<constraint<Check<Bind", ts.where(con[0]["bb"]), ok, "value, constraint, CheckConstraint, Bind in this order" if ok else "CheckConstraint is not between the value and the Bind")
    # on the Some(constraint) edge every path to a Bind passes the check
    sw = [(b, ts.term(b)) for b in let if ts.term(b)["k"] == "switch" and ts.term(b).get("enum") == "core::option::Option"]
    need(sw, "`if let Some(constraint)` not found in the Let arm")
    sb, st = sw[0]
    se = cfg.switch_edge(st, variant="Some")
    ok = not (bind_b & cfg.reachable(ts, se, removed=chk_b))
    r.inst("Let:Some-edge", ts.where(sb), ok, "with a constraint, Bind is only reached through CheckConstraint" if ok else "a constrained let can bind without (or before) the check")
    # VM
    cc = F.fn(VM + "op_check_constraint")
    calls = [(b, t) for b, t in cc.calls() if callee(t) == IR + "ConstraintVal::check"]
    need(len(calls) == 1, "op_check_constraint does not call ConstraintVal::check once")
    b, t = calls[0]
    errs = {bb for bb, j, pl, rv, m in cc.assigns() if pl["l"] == 0 and not pl["p"] and rv["k"] == "agg" and rv.get("variant") == "Err"}
    oks = {bb for bb, j, pl, rv, m in cc.assigns() if pl["l"] == 0 and not pl["p"] and rv["k"] == "agg" and rv.get("variant") == "Ok"}
    sws = util.bool_switches(cc, t["dest"]["l"])
    need(sws, "result of check() is not tested")
    sb2, ft, tt = sws[0]
    ok = util.must_pass(cc, ft, errs, exits=cfg.exits(cc)) and not (cfg.reachable(cc, ft) & oks)
    r.inst("op_check_constraint:false->Err", cc.where(sb2), ok, "a value that does not satisfy the constraint is an error" if ok else "check()==false does not end in an error")
    # Ok without check: enumerate
    bypass_oks = sorted(bb for bb in oks if bb in cfg.reachable(cc, 0, removed={b}))
    reasons = []
    for bb in bypass_oks:
        why = "?"
        for sbb in range(len(cc.blocks)):
            tt2 = cc.term(sbb)
            if tt2["k"] == "switch" and not cc.is_cleanup(sbb) and cfg.dominates(cc, sbb, bb):
                if tt2.get("enum") == "ucglib::build::opcode::Value":
                    ke = cfg.switch_edge(tt2, variant="K")
                    if not cfg.dominates(cc, ke, bb) or bb in cfg.reachable(cc, tt2["otherwise"], removed={ke}):
                        why = "non-constraint value in constraint position (exemplar, shape checked statically)"
                l = op_local(tt2["on"])
                for cb, ct in cc.calls():
                    if ct["dest"]["l"] == l and callee(ct).endswith("contains_self_ref"):
                        for s3, f3, t3 in util.bool_switches(cc, l):
                            if cfg.dominates(cc, t3, bb):
                                why = "recursive constraint (contains_self_ref), validated statically"
        reasons.append(why)
    # every path that returns Ok without calling check() leaves the value unchecked at run time; the static checker covers it
    # only when it knows the value's shape (a call result of an untyped function, an included file, ... are unknown to it)
    TEXT = {"non-constraint value in constraint position (exemplar, shape checked statically)":
            ("bypass:exemplar", "an exemplar constraint (`:: 0`, `:: {a = \"\"}`) is never checked at run time: a value whose shape the static "
                                "checker does not know is bound unchecked (`let f = func(a) => a; let x :: 0 = f(\"s\");` builds)"),
            "recursive constraint (contains_self_ref), validated statically":
            ("bypass:recursive", "a constraint that refers to itself is never checked at run time: exact arms are not compared "
                                 "(`constraint n = \"\" | {c=[n]}; let x :: n = \"hello\";` builds, the non-recursive form is rejected)")}
    for why in sorted(set(reasons)):
        if why in TEXT:
            r.inst("op_check_constraint:%s" % TEXT[why][0], cc.where(), False, TEXT[why][1])
        else:
            r.inst("op_check_constraint:bypass:unlisted", cc.where(), False,
                   "op_check_constraint can return Ok without calling check() on a path that is none of the known ones: %s" % reasons)
    # checker
    vs = F.fn("<ucglib::ast::typecheck::Checker as ucglib::ast::walk::Visitor>::visit_statement")
    larm = TR.arm_blocks(vs, "ucglib::ast::Statement", "Let")
    nar = [(bb, t2) for bb, t2 in vs.calls() if callee(t2) == SHAPE + "::narrow" and bb in larm]
    need(len(nar) == 1, "narrow not called once in the checker's Let arm")
    nb, nt = nar[0]
    ov = Origins(vs)
    okn = ("field", "constraint") in ov.at(nt["args"][1], nb) or any(c.endswith("derive_shape") for c in calls_in(ov.at(nt["args"][1], nb)))
    tsw = [(bb, vs.term(bb)) for bb in larm if vs.term(bb)["k"] == "switch" and vs.term(bb).get("enum") == SHAPE and cfg.dominates(vs, nb, bb)]
    if tsw:
        errpush = {bb for bb, t2 in vs.calls() if callee(t2) == "alloc::vec::Vec::push" and ("field", "err_stack") in ov.at(t2["args"][0], bb)}
        inserts = {bb for bb, t2 in vs.calls() if callee(t2).endswith("BTreeMap::insert") and bb in larm}
        sb3, st3 = tsw[0]
        te_edge = cfg.switch_edge(st3, variant="TypeErr")
        ok = bool(errpush & cfg.reachable(vs, te_edge)) and not (cfg.reachable(vs, te_edge, removed=errpush) & inserts) and util.must_pass(vs, te_edge, errpush, exits=cfg.exits(vs))
        r.inst("Checker:Let:TypeErr", vs.where(sb3), ok and okn, "a constraint mismatch is pushed to err_stack and the name is not bound" if ok and okn else "a TypeErr from narrow is not recorded")
    else:
        # the result is looked at somewhere else (a helper that records the error, a common tail): decide by evaluation - with this
        # narrowing answering TypeErr, something is pushed onto err_stack afterwards and no symbol is bound afterwards
        from .. import absint as AI
        terr = ("e", SHAPE, "TypeErr", (("0", AI.U), ("1", AI.U)))
        heavy = {n_ for n_ in F.fns if "derive_" in n_ or "DeriveShape" in n_ or "::narrow" in n_ or "::equivalent" in n_ or "resolve_import" in n_}
        sim = AI.Sim(F, site=(vs.name, nb), forced=terr, depth=4, opaque=heavy)
        try:
            sim.run(vs, [AI.U] * vs.nargs)
        except AI.Lossy as e:
            need(False, "Checker::visit_statement: %s" % e)
        def calls_after(pred):
            out = []
            for n_, b_ in sim.visited_fired:
                f_ = F.fns.get(n_)
                if f_ is not None and f_.term(b_)["k"] == "call" and pred(f_, b_, f_.term(b_)):
                    out.append((n_, b_))
            return out
        pushed = calls_after(lambda f_, b_, t_: callee(t_) == "alloc::vec::Vec::push" and ("field", "err_stack") in Origins(f_).at(t_["args"][0], b_))
        bound = calls_after(lambda f_, b_, t_: callee(t_).endswith("BTreeMap::insert") and "typecheck" in f_.name)
        need(sim.visited_fired, "Checker::visit_statement: nothing is evaluated after the narrowing")
        ok = bool(pushed) and not bound
        r.inst("Checker:Let:TypeErr", vs.where(nb), ok and okn, "a constraint mismatch is pushed to err_stack and the name is not bound" if ok and okn else "a TypeErr from narrow is not recorded")
    res = F.fn("ucglib::ast::typecheck::Checker::result")
    ie = [(bb, t2) for bb, t2 in res.calls() if callee(t2).endswith("::is_empty")]
    need(ie, "Checker::result does not test err_stack")
    sb4, ft4, tt4 = util.bool_switches(res, ie[0][1]["dest"]["l"])[0]
    rerrs = {bb for bb, j, pl, rv, m in res.assigns() if pl["l"] == 0 and not pl["p"] and rv["k"] == "agg" and rv.get("variant") == "Err"}
    roks = {bb for bb, j, pl, rv, m in res.assigns() if pl["l"] == 0 and not pl["p"] and rv["k"] == "agg" and rv.get("variant") == "Ok"}
    ok = bool(cfg.reachable(res, ft4) & rerrs) and not (cfg.reachable(res, ft4) & roks) and not (cfg.reachable(res, tt4) & rerrs)
    r.inst("Checker::result", res.where(sb4), ok, "Err iff the error stack is non-empty" if ok else "Checker::result polarity broken")
    gp = F.closures_of("ucglib::build::opcode::environment::Environment::get_ops_for_path")[0]
    rc = [(bb, t2) for bb, t2 in gp.calls() if callee(t2) == "ucglib::ast::typecheck::Checker::result"]
    need(rc, "get_ops_for_path does not call Checker::result")
    gerrs = {bb for bb, j, pl, rv, m in gp.assigns() if pl["l"] == 0 and not pl["p"] and rv["k"] == "agg" and rv.get("variant") == "Err"}
    tr = [bb for bb, t2 in gp.calls() if callee(t2) == TR.T + "translate"]
    ok = False
    sws_ = util.enum_switches(gp, rc[0][1]["dest"]["l"])
    first_ = [x for x in sws_ if all(cfg.dominates(gp, x[0], y[0]) for y in sws_)]
    need(first_, "result of Checker::result is not matched")
    for sbb, stt in first_:
        ee = cfg.switch_edge(stt, variant="Err")
        ok = util.must_pass(gp, ee, gerrs, exits=cfg.exits(gp)) and not (cfg.reachable(gp, ee) & set(tr))
    r.inst("get_ops_for_path:type-error", gp.where(rc[0][0]), ok, "a type error stops the build before translation" if ok else "a type error does not stop the build")
    return r


def r20(F):
    r = RuleResult("R20", "named = inline",
                   "a constraint statement evaluates its value through the same translate_expr path and binds it; a reference to a named "
                   "constraint is expanded from the symbol table before it is compared", floor=3)
    ts = F.fn(TR.T + "translate_stmt")
    arm = TR.arm_blocks(ts, "ucglib::ast::Statement", "Constraint")
    o = Origins(ts)
    recs = [c for c in TR.rec_calls(ts) if c["bb"] in arm and c["callee"] == "translate_expr" and ("field", "value") in o.at(c["term"]["args"][0], c["bb"])]
    bo = [p for p in TR.pushes(ts) if p["bb"] in arm and p["op"] == "BindOver"]
    ok = len(recs) == 1 and len(bo) == 1 and cfg.dominates(ts, recs[0]["bb"], bo[0]["bb"])
    r.inst("Statement::Constraint:value-then-bind", ts.where(), ok, "value translated like any expression, then bound" if ok else "constraint statement does not evaluate and bind its value")
    # the constraint value itself is an Expression::Constraint -> BuildConstraint in both forms
    te = F.fn(TR.T + "translate_expr")
    bcs = [p for p in TR.pushes(te) if p["op"] == "BuildConstraint"]
    r.inst("Expression::Constraint:BuildConstraint", te.where(), len(bcs) == 1, "one lowering to BuildConstraint for inline and named constraints" if len(bcs) == 1 else "BuildConstraint lowering not unique (%d)" % len(bcs))
    nc = F.fn(SHAPE + "::narrow_cached")
    on = Origins(nc)
    gets = [(b, t) for b, t in nc.calls() if callee(t).endswith("BTreeMap::get")]
    need(gets, "symbol table lookup not found in narrow_cached")
    ok = False
    for gb, gt in gets:
        key = on.at(gt["args"][1], gb)
        if ("variant", "ConstraintRef") not in key and ("field", "val") not in key:
            continue
        recs = [(b, t) for b, t in nc.calls() if callee(t) == SHAPE + "::narrow_cached" and ("call", callee(gt), gb) in on.at(t["args"][1], b)]
        terr = [bb for bb, j, pl, rv, m in nc.assigns() if rv["k"] == "agg" and rv.get("adt") == SHAPE and rv.get("variant") == "TypeErr"]
        # Some edge -> recursion on the expansion; None edge -> TypeErr
        for sb, st in [(b2, nc.term(b2)) for b2 in range(len(nc.blocks)) if nc.term(b2)["k"] == "switch" and nc.term(b2).get("enum") == "core::option::Option" and not nc.is_cleanup(b2)]:
            se, ne = cfg.switch_edge(st, variant="Some"), cfg.switch_edge(st, variant="None")
            if recs and any(cfg.dominates(nc, se, rb) for rb, _ in recs) and any(cfg.dominates(nc, ne, tb) for tb in terr):
                ok = True
    r.inst("narrow_cached:ConstraintRef-expanded", nc.where(), ok, "a ConstraintRef is looked up and narrowed against its expansion; unknown names are a TypeErr" if ok else
           "a named constraint is not expanded before comparison")
    return r


def r66(F):
    r = RuleResult("R66", "subset test in both directions",
                   "tuple and list narrowing call the subset test twice with swapped arguments and return a TypeErr only if both fail",
                   floor=2)
    for name, sub in ((SHAPE + "::narrow_tuple_shapes_cached", "ucglib::ast::is_tuple_subset_cached"),
                      (SHAPE + "::narrow_list_shapes_cached", "ucglib::ast::is_list_subset_cached")):
        fn = F.fn(name)
        o = Origins(fn)
        calls = [(b, t) for b, t in fn.calls() if callee(t) == sub]
        if len(calls) != 2:
            r.inst(name.split("::")[-1], fn.where(), False, "the subset test is called %d time(s): only one direction is tried, so a value whose field set contains "
                   "(or is contained in) the constraint's is rejected" % len(calls))
            continue
        a, b_ = calls
        if not cfg.dominates(fn, a[0], b_[0]):
            a, b_ = b_, a
        la0, la1 = o.at(a[1]["args"][0], a[0]), o.at(a[1]["args"][1], a[0])
        lb0, lb1 = o.at(b_[1]["args"][0], b_[0]), o.at(b_[1]["args"][1], b_[0])
        p = lambda labs: {l[1] for l in labs if l[0] == "param"}
        swapped = p(la0) and p(la1) and p(la0) == p(lb1) and p(la1) == p(lb0) and p(la0) != p(la1)
        sws = util.bool_switches(fn, a[1]["dest"]["l"])
        need(sws, "first subset result is not tested")
        sb, ft, tt = sws[0]
        second_on_false = cfg.dominates(fn, ft, b_[0])
        terr = [bb for bb, j, pl, rv, m in fn.assigns() if rv["k"] == "agg" and rv.get("adt") == SHAPE and rv.get("variant") == "TypeErr"]
        sws2 = util.bool_switches(fn, b_[1]["dest"]["l"])
        need(sws2 and terr, "second subset result / TypeErr not found")
        sb2, ft2, tt2 = sws2[0]
        only_both = all(cfg.dominates(fn, ft2, tb) for tb in terr)
        ok = bool(swapped) and second_on_false and only_both
        r.inst(name.split("::")[-1], fn.where(a[0]), ok, "left⊆right, else right⊆left, TypeErr only if both fail" if ok else
               "subset tests are not tried in both directions (swapped: %s, second on failure: %s, TypeErr only after both: %s)" % (bool(swapped), second_on_false, only_both))
    return r


def r66s(F):
    r = RuleResult("R66s", "a list is refused only for an element nothing admits",
                   "is_list_subset_cached answers false only out of its element loop (an element of one side that no candidate of the other "
                   "admits); no exit before the loop answers false -- list shapes hold one entry per element, not a set of types, so "
                   "their lengths say nothing about containment (`[0, \"\"]` admits `[1, 2, 3]`)", floor=1)
    fn = F.fn("ucglib::ast::is_list_subset_cached")
    loops = cfg.natural_loops(fn)
    need(loops, "is_list_subset_cached has no loop")
    # the outer loop: the one whose header dominates the others
    heads = sorted(loops, key=lambda h: -len(loops[h]))
    h = heads[0]
    pre = cfg.reachable(fn, 0, removed={h})
    falses = [b for b, j, pl, rv, m in fn.assigns() if b in pre and pl["l"] == 0 and not pl["p"] and rv["k"] == "use"
              and rv["ops"][0].get("int") == "0" and rv["ops"][0].get("ty") == "bool"]
    # a false held in a local that is returned without entering the loop
    rets = [b for b in pre if fn.term(b)["k"] == "return"]
    cps = util.copies_of(fn, 0, allow_not=False)
    for b, j, pl, rv, m in fn.assigns():
        if b in pre and not pl["p"] and pl["l"] in cps and pl["l"] != 0 and rv["k"] == "use" and rv["ops"][0].get("int") == "0" and rv["ops"][0].get("ty") == "bool":
            if any(cfg.reaches(fn, b, rb, removed={h}) for rb in rets):
                falses.append(b)
    # the "found a partner" flag of the element loop is per element
    for name in ("ucglib::ast::is_list_subset_cached", "ucglib::ast::is_tuple_subset_cached"):
        f2 = F.fn(name)
        stale = util.stale_flags(f2)
        short = name.split("::")[-1].replace("_cached", "")
        r.inst("%s:flag-reset-per-element" % short, f2.where(stale[0][4]) if stale else f2.where(), not stale,
               "the flag the inner loop sets is cleared at the start of every outer iteration" if not stale else
               "the flag `%s` that the inner loop sets is not reset for the next element: once one element has found a partner every "
               "later element counts as matched (`[0, true]` admits `[1, \"a\"]`)" % "/".join(stale[0][1]))
    r.inst("is_list_subset:false-only-from-elements", fn.where(falses[0]) if falses else fn.where(h), not falses,
           "every `false` comes out of the element loop" if not falses else
           "is_list_subset_cached returns false before looking at the elements (a length comparison?): conforming lists of a different "
           "length are rejected")
    return r


def r18e(F):
    r = RuleResult("R18e", "equality of lists and tuples compares their lengths",
                   "in Val::equal (the comparison behind `==` and behind the exact arms of an alternation) the List and the Tuple arm "
                   "compare the two lengths before (or instead of) walking the elements pairwise -- a pairwise walk alone (zip) stops at "
                   "the shorter side, so a tuple equals every tuple it is a prefix of and `{}` equals every tuple", floor=2, exhaustive=True)
    fn = F.fn("ucglib::build::ir::Val::equal")
    o = Origins(fn)
    VAL = "ucglib::build::ir::Val"
    loops = cfg.natural_loops(fn)
    for v in ("List", "Tuple"):
        arm = TR.arm_blocks(fn, VAL, v)
        need(arm, "Val::equal has no arm for %s" % v)
        cmps = []
        for b, j, pl, rv, m in fn.assigns():
            if b in arm and rv["k"] == "bin" and rv["op"] in ("Eq", "Ne") and rv.get("ty") == "usize":
                if all(any(c.endswith("::len") for c in results_in(o.at(x, b))) for x in rv["ops"]):
                    cmps.append(b)
        whole = [b for b, t in fn.calls() if b in arm and callee(t).split("::")[-1] in ("eq", "ne") and
                 ("Iterator" in callee(t) or "alloc::vec::Vec" in fn.local_ty(op_local(t["args"][0]) or 0))]
        arm_loops = [h for h, body in loops.items() if h in arm]
        ok = bool(whole) or (bool(cmps) and all(any(cfg.dominates(fn, c, h) for c in cmps) for h in arm_loops))
        r.inst("equal:%s:lengths" % v, fn.where(min(arm)), ok,
               "the lengths are compared before the pairwise walk" if ok else
               "the %s arm of Val::equal walks the two sides pairwise without comparing their lengths: a %s equals any longer %s it is a "
               "prefix of (an alternation of tuple literals admits values with extra or missing fields)" % (v, v.lower(), v.lower()))
    return r


def r20m(F):
    r = RuleResult("R20m", "the narrowing memo answers only for the very shape it was filled with",
                   "the closure that searches Shape::narrow_cached's memo of (constraint name, shape, result) compares with exact "
                   "equality only (PartialEq::eq): a looser relation (Shape::equivalent treats [] as any list and a tuple as any tuple "
                   "with more fields) lets an entry recorded for a conforming value answer for a non-conforming one", floor=1)
    name = "ucglib::ast::Shape::narrow_cached"
    fn = F.fn(name)
    finds = [(b, t) for b, t in fn.calls() if callee(t).split("::")[-1] in ("find", "any", "position")]
    need(finds, "narrow_cached: memo search not found")
    closures = [F.fns[c] if isinstance(c, str) else c for c in F.closures_of(name)]
    # the closures handed to the search
    searched = []
    for b, t in finds:
        for a in t["args"]:
            l = op_local(a)
            if l is not None:
                ty = fn.local_ty(l)
                for cf in closures:
                    if cf.name.split("::")[-1] in ty or "closure" in ty and cf.name.split("{")[-1].rstrip("}") in ty:
                        searched.append(cf)
    if not searched:
        searched = [cf for cf in closures if not any(callee(t) == name for b, t in cf.calls())]
    need(searched, "narrow_cached: the closure of the memo search was not identified")
    for cf in searched:
        cs = [callee(t) for b, t in cf.calls()]
        loose = [c for c in cs if not (c.endswith("::eq") or c.endswith("::ne") or c.endswith(("::deref", "::as_ref", "::borrow", "::clone")))]
        r.inst("memo-search:%s" % cf.name.split("::")[-1], cf.where(), not loose,
               "exact equality on name and shape" if not loose else
               "the memo search compares with %s: an entry recorded for one shape answers for another" % ", ".join(x.split("::")[-1] for x in loose))
    return r


def r19n(F):
    r = RuleResult("R19n", "the checker counts module nesting",
                   "the state the checker keeps between visit_expression and leave_expression of a Module (while it is set, statements "
                   "of the module body are skipped by the file-level pass) is a counter incremented on the way in and decremented on "
                   "the way out: a boolean flag is cleared by the first inner module that ends, while the walker is still inside the "
                   "outer body, and the file-level symbol table is then overwritten with the module's private bindings", floor=1)
    CH = "ucglib::ast::typecheck::Checker"
    V = "<ucglib::ast::typecheck::Checker as ucglib::ast::walk::Visitor>::"
    seen = {}
    for n in ("visit_expression", "leave_expression"):
        fn = F.fn(V + n)
        o = Origins(fn)
        for b, j, pl, rv, m in fn.assigns():
            fs = [e.get("f") for e in pl["p"] if isinstance(e, dict) and "f" in e]
            if not fs or fn.local_adt(pl["l"]) != CH:
                continue
            labs = o.at(rv["ops"][0], b) if rv.get("ops") else set()
            kind = "const" if rv["k"] == "use" and ("int" in rv["ops"][0] or "const" in rv["ops"][0]) else \
                ("add" if any(l[0] == "bin" and l[1] in ("Add", "AddWithOverflow") for l in labs) else
                 "sub" if any(l[0] == "bin" and l[1] in ("Sub", "SubWithOverflow") for l in labs) else "other")
            seen.setdefault(fs[0], {})[n] = (kind, fn, b)
    both = {f: d for f, d in seen.items() if len(d) == 2}
    need(both, "no Checker field is written by both visit_expression and leave_expression")
    adt = F.adts[CH]
    tys = {f["name"]: f["ty"] for v in adt["variants"] for f in v["fields"]}
    for f, d in sorted(both.items()):
        ty = tys.get(f, "?")
        ok = ty in ("usize", "u32", "u64", "i32", "i64", "isize") and d["visit_expression"][0] == "add" and d["leave_expression"][0] == "sub"
        fn, b = d["visit_expression"][1], d["visit_expression"][2]
        r.inst("Checker.%s" % f, fn.where(b), ok,
               "%s: +1 on visit, -1 on leave" % ty if ok else
               "Checker.%s (%s) is set with %s on visit and %s on leave: it cannot tell a module inside a module from the end of the outer one"
               % (f, ty, d["visit_expression"][0], d["leave_expression"][0]))
    return r


RULES = [r18, r19, r20, r66, r66s, r18e, r20m, r19n]
