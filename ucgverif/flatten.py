"""A6: a function with its private helpers spliced in ("flat view").

Rules are anchored in a function (`Builtins::out`, `Builtins::assert`, ...) and look at its calls, paths and data flow.  Moving
a block of that function into a private helper (or the reverse) changes none of the behaviour but takes the calls out of the
anchored body.  `flat(F, name)` returns an Fn of the same format in which calls to helper-like callees are replaced by the
callee's blocks (locals renumbered, arguments assigned at entry, `return` turned into an assignment of the call's destination and
a jump to the continuation).  Rules that use it see the same calls whether or not a helper was extracted.

A callee is spliced in when it
  * has a MIR body in the facts, is not derived, belongs to the caller's crate,
  * is called from at most MAX_CALLERS distinct functions, all of them in the caller's source file ("private helper"), or
    from this function only (an accessor written for it in another module),
  * is not recursive and not on the current splice stack, has at most MAX_BLOCKS blocks,
  * and its name is not matched by `keep` (callees a rule wants to see as calls).
Depth is bounded (DEPTH).  Cleanup blocks are not copied.  Line numbers of the spliced blocks stay those of the helper.
"""
import copy

from .facts import Fn, callee

# second view (core.run_rules): callees whose name the rule's own module mentions are kept as calls - the rule knows them as
# helpers of today's code and looks for the call; everything else that is helper-like is spliced in
KEEP_NAMES = frozenset()
KEEP_ID = ""
MAX_CALLERS = 6
MAX_BLOCKS = 300
DEPTH = 3


def _callers(F):
    c = F.__dict__.get("_flat_callers")
    if c is None:
        c = {}
        for n, fn in F.fns.items():
            for b, t in fn.calls():
                c.setdefault(callee(t), set()).add(n)
        F.__dict__["_flat_callers"] = c
    return c


def _base(n):
    i = n.find("::{closure")
    return n if i < 0 else n[:i]


def helper_like(F, caller, cname, keep=()):
    if cname not in F.fns or cname == caller.name:
        return False
    cf = F.fns[cname]
    if cf.derived or cf.crate != caller.crate or len(cf.blocks) > MAX_BLOCKS:
        return False
    if any(k in cname for k in keep):
        return False
    if keep == ("<rule-module-names>",) or "<rule-module-names>" in keep:
        last = cname.split("::")[-1].rstrip(">")
        if last in KEEP_NAMES:
            return False
    if "{closure" in cname:
        return False
    callers = {_base(x) for x in _callers(F).get(cname, ())}
    if len(callers) > MAX_CALLERS:
        return False
    same_file = cf.file == caller.file and all(F.fns[x].file == caller.file for x in callers if x in F.fns)
    if not same_file and len(callers) > 1:
        # an accessor of another module is still a private helper when this function is its only user
        return False
    # recursion
    if any(callee(t) == cname for b, t in cf.calls()):
        return False
    return True


def _shift_place(p, off):
    q = {"l": p["l"] + off, "p": []}
    for e in p["p"]:
        if isinstance(e, dict) and "i" in e:
            e = dict(e)
            e["i"] = e["i"] + off
        q["p"].append(e)
    return q


def _shift_operand(op, off):
    op = dict(op)
    if isinstance(op.get("const"), str) and "::promoted[" in op["const"]:
        # already resolved against the helper's own promoted constants: keep the caller's table away from it
        op["const"] = op["const"].replace("::promoted[", "::promoted@[")
    for k in ("copy", "move"):
        if k in op:
            op[k] = _shift_place(op[k], off)
    return op


def _shift_rvalue(rv, off):
    rv = dict(rv)
    if "ops" in rv:
        rv["ops"] = [_shift_operand(o, off) for o in rv["ops"]]
    if "place" in rv:
        rv["place"] = _shift_place(rv["place"], off)
    return rv


def _shift_block(blk, off, boff, ret_local, dest, cont, line):
    nb = {"cleanup": False, "stmts": [], "term": None}
    for st in blk["stmts"]:
        if st[0] == "assign":
            nb["stmts"].append(["assign", _shift_place(st[1], off), _shift_rvalue(st[2], off), st[3]])
        else:
            st2 = list(st)
            for i, x in enumerate(st2):
                if isinstance(x, dict) and "l" in x and "p" in x:
                    st2[i] = _shift_place(x, off)
            nb["stmts"].append(st2)
    t = dict(blk["term"])
    k = t["k"]
    if k == "return":
        nb["stmts"].append(["assign", dest, {"k": "use", "ops": [{"move": {"l": ret_local, "p": []}}]}, {"line": t.get("line", line), "spliced": True}])
        t = {"k": "goto", "t": cont, "line": t.get("line", line)} if cont is not None else {"k": "unreachable", "line": line}
    else:
        for key in ("t", "otherwise"):
            if t.get(key) is not None:
                t[key] = t[key] + boff
        if "unwind" in t:
            t["unwind"] = None
        if "targets" in t:
            t["targets"] = [dict(x, t=x["t"] + boff) for x in t["targets"]]
        if "args" in t:
            t["args"] = [_shift_operand(a, off) for a in t["args"]]
        if "dest" in t and t["dest"] is not None:
            t["dest"] = _shift_place(t["dest"], off)
        if "on" in t:
            t["on"] = _shift_operand(t["on"], off)
        if "cond" in t:
            t["cond"] = _shift_operand(t["cond"], off)
        if "ops" in t:
            t["ops"] = [_shift_operand(a, off) for a in t["ops"]]
        if "place" in t and isinstance(t["place"], dict):
            t["place"] = _shift_place(t["place"], off)
        if "src" in t and isinstance(t["src"], dict):
            t["src"] = _shift_place(t["src"], off)
    nb["term"] = t
    return nb


def flat(F, name, keep=(), depth=DEPTH):
    """the function `name` with helper-like callees spliced in; the original Fn when there is nothing to splice"""
    memo = F.__dict__.setdefault("_flat_memo", {})
    mk = (name, tuple(keep), depth, KEEP_ID if "<rule-module-names>" in keep else "")
    if mk in memo:
        return memo[mk]
    fn = F.fns[name]
    d = None
    spliced = []
    work = True
    rounds = 0
    cur = fn
    while work and rounds < depth:
        work = False
        rounds += 1
        sites = [(b, t) for b, t in cur.calls() if helper_like(F, fn, callee(t), keep)]
        if not sites:
            break
        if d is None:
            d = copy.deepcopy(fn.d)
        blocks = d["blocks"]
        for b, t0 in sites:
            t = blocks[b]["term"]
            if t["k"] != "call":
                continue
            cname = callee(t)
            cf = F.fns[cname]
            off = len(d["locals"])
            boff = len(blocks)
            d["locals"] = d["locals"] + copy.deepcopy(cf.d["locals"])
            for v in cf.d["vars"]:
                d["vars"].append({"name": v["name"], "place": _shift_place(v["place"], off), "spliced_from": cname})
            line = t.get("line", fn.line)
            # arguments
            for i, a in enumerate(t["args"]):
                blocks[b]["stmts"].append(["assign", {"l": off + 1 + i, "p": []}, {"k": "use", "ops": [a]}, {"line": line, "spliced": True}])
            cont = t.get("t")
            dest = t["dest"]
            for cb in cf.blocks:
                if cb["cleanup"]:
                    blocks.append({"cleanup": True, "stmts": [], "term": {"k": "resume", "line": line}})
                else:
                    blocks.append(_shift_block(copy.deepcopy(cb), off, boff, off, dest, cont, line))
            blocks[b]["term"] = {"k": "goto", "t": boff, "line": line, "spliced_call": cname}
            d.setdefault("splice_map", []).append([cname, b, boff])
            spliced.append(cname)
            work = True
        cur = Fn(name, d, fn.crate)
    if d is None:
        memo[mk] = fn
        return fn
    d["spliced"] = spliced
    out = Fn(name, d, fn.crate)
    memo[mk] = out
    return out


def spliced(fn):
    return fn.d.get("spliced", [])


def splice_offsets(fn, cname):
    """block offsets at which the body of `cname` was spliced into this flat view (one per call site)"""
    return [boff for cn, cb, boff in fn.d.get("splice_map", []) if cn == cname]


def sole_caller(F, cname):
    """the one function that calls `cname` (closures count for their parent), when there is exactly one and `cname` is a
    helper in the sense of helper_like; else None"""
    callers = {_base(x) for x in _callers(F).get(cname, ())}
    if len(callers) != 1:
        return None
    c = next(iter(callers))
    if c not in F.fns or not helper_like(F, F.fns[c], cname):
        return None
    return c



def home(F, name, allowed, depth=3):
    """`name`, or the member of `allowed` it was split off from: a closure belongs to its parent, a private helper with one
    caller to that caller (who-may-call / who-may-write tables list today's functions; a piece split off one of them is
    still that function)"""
    cur = name
    for _ in range(depth + 1):
        if cur in allowed:
            return cur
        if "::{closure" in cur:
            cur = cur[:cur.index("::{closure")]
            continue
        raw = set(_callers(F).get(cur, ()))
        if raw and raw <= set(allowed) and cur in F.fns and all(F.fns[c].file == F.fns[cur].file for c in raw if c in F.fns):
            return sorted(raw)[0]       # called by listed functions / closures only
        up = sole_caller(F, cur)
        if up is None:
            # a helper shared by several listed functions (or their closures) and by nothing else
            callers = set(_callers(F).get(cur, ()))
            if callers and depth > 0 and len(callers) <= MAX_CALLERS and cur in F.fns and \
                    all(c in F.fns and F.fns[c].file == F.fns[cur].file for c in callers):
                homes = {c if c in allowed else home(F, c, allowed, depth - 1) for c in callers}
                if homes and all(h in allowed for h in homes):
                    return sorted(homes)[0]
            break
        cur = up
    return cur if cur in allowed else name
