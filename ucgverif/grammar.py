"""S1: grammar terms from the abortable_parser macro DSL (unexpanded token trees of E2).

term :=  ("tok", kind, literal)        kind: punct | word | type | text
       | ("ref", rule name)
       | ("eps",)                       consumes nothing (pos, input!, peek!, not!)
       | ("seq", [(binding, term)...], result tokens)
       | ("alt", [term...]) | ("opt", term) | ("rep", term) | ("sep", separator term, item term)
"""
from .core import AnchorError
from .facts import syn_items, syn_walk

INPUT_NAMES = ("input", "_input", "i", "_i", "i_")
# (peeked recogniser, repeated recogniser): every character the first accepts is accepted by the second
PEEK_SUBSETS = {(("ref", "ascii_alpha"), ("ref", "is_symbol_char"))}
TRANSPARENT_FIRST = ("must", "trace_parse", "run", "discard", "with_err", "must_complete")
EPS_REFS = ("pos", "eoi")
DSL = ("do_each", "either", "optional", "repeat", "separated", "must", "trace_parse", "wrap_err", "complete", "not", "peek",
       "punct", "word", "match_type", "match_token", "match_binding_name", "text_token", "run", "discard", "until", "consume_all", "input")


def split_commas(toks):
    out, cur = [], []
    for t in toks:
        if t.get("p") == ",":
            out.append(cur)
            cur = []
        else:
            cur.append(t)
    if cur:
        out.append(cur)
    return out


def _is_input_arg(toks):
    if not toks:
        return False
    if any(t.get("p") == "=>" for t in toks):
        return False
    if toks[0].get("i") in INPUT_NAMES:
        # `input` or `input.clone()`
        rest = toks[1:]
        return not rest or (rest[0].get("p") == "." and len(rest) <= 3)
    return False


def parse_term(toks):
    toks = [t for t in toks]
    if not toks:
        return ("eps",)
    # macro call: IDENT ! ( ... )
    if len(toks) >= 3 and "i" in toks[0] and toks[1].get("p") == "!" and "g" in toks[2] and len(toks) == 3:
        name = toks[0]["i"]
        args = split_commas(toks[2]["t"])
        if args and _is_input_arg(args[0]):
            args = args[1:]
        if name == "do_each":
            steps = []
            result = None
            for a in args:
                arrow = [k for k, t in enumerate(a) if t.get("p") == "=>"]
                if arrow:
                    k = arrow[0]
                    binding = a[0].get("i", "_") if k == 1 else "_"
                    steps.append((binding, parse_term(a[k + 1:])))
                else:
                    result = a
            return ("seq", steps, result)
        if name == "either":
            return ("alt", [parse_term(a) for a in args])
        if name == "optional":
            return ("opt", parse_term(args[0]))
        if name == "repeat":
            return ("rep", parse_term(args[0]))
        if name == "separated":
            return ("sep", parse_term(args[0]), parse_term(args[1]))
        if name in TRANSPARENT_FIRST:
            return parse_term(args[0])
        if name == "wrap_err":
            return parse_term(args[0])
        if name == "complete":
            return parse_term(args[1])
        if name == "not":
            return ("eps",)
        if name == "peek":
            return ("peek", parse_term(args[0]))
        if name == "do_text_token_tok":
            lit = [t.get("s") for a in args for t in a if "s" in t]
            if not lit:
                raise AnchorError("do_text_token_tok! without a literal")
            return ("tok", "text", lit[0]) if lit[0] else ("eps",)
        if name == "make_tok":
            return ("eps",)
        if name == "input":
            return ("eps",)
        if name in ("punct", "word", "text_token"):
            lit = [t.get("s") for t in args[0] if "s" in t]
            if not lit:
                raise AnchorError("%s! without a literal" % name)
            return ("tok", "punct" if name == "punct" else "word" if name == "word" else "text", lit[0])
        if name == "match_type":
            return ("tok", "type", args[0][0].get("i"))
        if name == "match_binding_name":
            return ("tok", "type", "BAREWORD")
        if name == "match_token":
            lit = [t.get("s") for a in args for t in a if "s" in t]
            return ("tok", "type", "%s:%s" % (args[0][0].get("i"), lit[0] if lit else ""))
        if name == "consume_all":
            return ("rep", parse_term(args[0]))      # zero matches complete with an empty span
        if name == "until":
            return ("rep", ("tok", "any", "."))
        raise AnchorError("unknown parser macro %s!" % name)
    if len(toks) == 1 and "i" in toks[0]:
        n = toks[0]["i"]
        return ("eps",) if n in EPS_REFS else ("ref", n)
    if len(toks) == 1 and toks[0].get("g") == "(":
        return parse_term(toks[0]["t"])
    raise AnchorError("unrecognised parser term: %s" % " ".join(str(t.get("i") or t.get("p") or t.get("l") or t.get("g")) for t in toks)[:120])


def _first_dsl_macro(node):
    found = []
    def visit(n):
        if not found and n.get("k") == "macro" and n.get("name") in ("do_each", "either", "separated", "repeat", "optional"):
            found.append(n)
    syn_walk(node, visit)
    return found[0] if found else None


def extract(F, file):
    """{rule name: (term, line)} for every rule function of a file"""
    rules = {}
    items = F.syn[file]["items"]
    for it in items:
        if it.get("k") == "macro" and it.get("name") == "make_fn":
            toks = it["tokens"]
            name = toks[0]["i"]
            # skip `<I, O>` generics: find the first top-level comma after the closing `>`
            depth = 0
            start = None
            for k, t in enumerate(toks[1:], 1):
                p = t.get("p", "")
                if p and set(p) <= set("<"):
                    depth += len(p)
                elif p and p.startswith(">"):
                    depth -= p.count(">")
                elif p == "," and depth <= 0:
                    start = k + 1
                    break
            if start is None:
                raise AnchorError("make_fn!(%s ..) body not found" % name)
            rules[name] = (parse_term(toks[start:]), it["ln"])
    for path, it in syn_items(items):
        if len(path) == 1 and path[0] not in rules:
            m = _first_dsl_macro(it["body"])
            if m is not None:
                toks = [{"i": m["name"], "ln": m["ln"]}, {"p": "!"}, {"g": "(", "t": m["tokens"]}]
                try:
                    rules[path[0]] = (parse_term(toks), it["ln"])
                except AnchorError:
                    pass
    return rules


# ---------------------------------------------------------------- analyses
def nullable(term, rules, memo, stack=()):
    k = term[0]
    if k == "tok":
        return False
    if k == "eps":
        return True
    if k == "ref":
        n = term[1]
        if n in memo:
            return memo[n]
        if n in stack:
            return False      # least fixpoint
        if n not in rules:
            return False      # hand-written / library recogniser: consumes (checked separately)
        v = nullable(rules[n][0], rules, memo, stack + (n,))
        memo[n] = v
        return v
    if k == "peek":
        return True
    if k == "seq":
        # idiom: peek!(X) followed by repeat!/consume_all!(Y) with X's characters accepted by Y: the first iteration of the
        # repetition is guaranteed by the successful peek, so the pair consumes
        steps = [t for _, t in term[1]]
        for i, t in enumerate(steps):
            if t[0] == "peek":
                for u in steps[i + 1:]:
                    if u[0] == "rep" and (u[1] == t[1] or (t[1], u[1]) in PEEK_SUBSETS):
                        return False
                    if not nullable(u, rules, memo, stack):
                        break
        return all(nullable(t, rules, memo, stack) for t in steps)
    if k == "alt":
        return any(nullable(t, rules, memo, stack) for t in term[1])
    if k in ("opt", "rep"):
        return True
    if k == "rep1":
        return nullable(term[1], rules, memo, stack)
    if k == "sep":
        return nullable(term[2], rules, memo, stack)
    raise AnchorError("nullable: %s" % k)


def first_refs(term, rules, memo):
    """rule names that can be entered before any token was consumed"""
    k = term[0]
    if k in ("tok", "eps", "peek"):
        return set()
    if k == "ref":
        return {term[1]}
    if k == "seq":
        out = set()
        for _, t in term[1]:
            out |= first_refs(t, rules, memo)
            if not nullable(t, rules, memo):
                break
        return out
    if k == "alt":
        out = set()
        for t in term[1]:
            out |= first_refs(t, rules, memo)
        return out
    if k in ("opt", "rep", "rep1"):
        return first_refs(term[1], rules, memo)
    if k == "sep":
        out = first_refs(term[2], rules, memo)
        if nullable(term[2], rules, memo):
            out |= first_refs(term[1], rules, memo)
        return out
    raise AnchorError("first_refs: %s" % k)


def walk(term, fn):
    fn(term)
    k = term[0]
    if k == "seq":
        for _, t in term[1]:
            walk(t, fn)
    elif k == "alt":
        for t in term[1]:
            walk(t, fn)
    elif k in ("opt", "rep", "rep1", "peek"):
        walk(term[1], fn)
    elif k == "sep":
        walk(term[1], fn)
        walk(term[2], fn)


def show(term, depth=0):
    k = term[0]
    if k == "tok":
        return repr(term[2]) if term[1] != "type" else term[2]
    if k == "eps":
        return "ε"
    if k == "ref":
        return term[1]
    if k == "seq":
        return "(" + " ".join(show(t) for _, t in term[1]) + ")"
    if k == "alt":
        return "(" + " | ".join(show(t) for t in term[1]) + ")"
    if k == "opt":
        return show(term[1]) + "?"
    if k == "rep":
        return show(term[1]) + "*"
    if k == "peek":
        return "&" + show(term[1])
    if k == "rep1":
        return show(term[1]) + "+"
    if k == "sep":
        return "sep(%s, %s)" % (show(term[1]), show(term[2]))
    return "?"


def full_grammar(F):
    """rules of parse/mod.rs and parse/precedence.rs plus the two hand-written entry rules, whose shape is
    confirmed against the MIR call facts"""
    from .facts import callee
    rules = dict(extract(F, "parse/mod.rs"))
    prec = extract(F, "parse/precedence.rs")
    for k, v in prec.items():
        rules.setdefault(k, v)
    P = "ucglib::parse::"
    # operator := the either! inside parse_operand_list
    if "parse_operand_list" not in prec:
        raise AnchorError("operator alternatives of parse_operand_list not found")
    operator = prec["parse_operand_list"][0]
    pol = F.fn(P + "precedence::parse_operand_list")
    called = {callee(t) for b, t in pol.calls()}
    if P + "non_op_expression" not in called:
        raise AnchorError("parse_operand_list does not call non_op_expression")
    rules["operator"] = (operator, prec["parse_operand_list"][1])
    rules["op_expression"] = (("seq", [("first", ("ref", "non_op_expression")),
                                       ("rest", ("rep1", ("seq", [("op", ("ref", "operator")), ("rhs", ("ref", "non_op_expression"))], None)))], None),
                              prec["parse_operand_list"][1])
    ex = F.fn(P + "expression")
    called = {callee(t) for b, t in ex.calls()}
    if not {P + "precedence::op_expression", P + "non_op_expression"} <= called:
        raise AnchorError("parse::expression does not try op_expression and non_op_expression")
    rules["expression"] = (("alt", [("ref", "op_expression"), ("ref", "non_op_expression")]), ex.line)
    rules.pop("parse_operand_list", None)
    return rules
