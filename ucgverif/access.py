"""A5: who-may-write / who-may-read for a field of a local ADT.

For every function, every place whose projection passes through field `field` of a value of type `adt`
is classified:
  ("assign", fn, bb)                      whole-field (or sub-place) assignment
  ("mutref", fn, bb, [callees...])        `&mut` of the field (or a sub-place) and the calls the reference is passed to
  ("ref",    fn, bb, [callees...])        shared reference and the calls it is passed to
  ("read",   fn, bb)                      copy/move out
  ("init",   fn, bb)                      field operand of the aggregate that constructs `adt`
"""
from .facts import callee, op_place, op_local
from .util import copies_of


def _field_hit(fn, place, adt_name, field):
    """does `place` go through `field` of a value whose type is adt_name?  Base local types are checked
    through the recorded adt of the local (refs/boxes peeled by the extractor); nested projections are
    matched by field name after the first field only when the base matches."""
    if fn.local_adt(place["l"]) != adt_name:
        return False
    for e in place["p"]:
        if isinstance(e, dict) and "f" in e:
            return e["f"] == field
    return False


def field_accesses(F, adt_name, field, fns=None):
    out = []
    for n, fn in (fns or F.fns).items():
        if fn.derived:
            continue
        # references created to the field
        refs = {}  # local -> (kind, bb)
        for b, j, pl, rv, meta in fn.assigns():
            if _field_hit(fn, pl, adt_name, field):
                out.append(("assign", n, b))
            if rv["k"] in ("ref", "rawptr") and _field_hit(fn, rv["place"], adt_name, field):
                kind = "mutref" if rv.get("mut") or rv["k"] == "rawptr" else "ref"
                refs[pl["l"]] = (kind, b)
            elif rv["k"] == "use":
                src = op_place(rv["ops"][0])
                if src is not None and _field_hit(fn, src, adt_name, field):
                    out.append(("read", n, b))
            elif rv["k"] == "agg" and rv.get("adt") == adt_name:
                out.append(("init", n, b))
        for l, (kind, b) in refs.items():
            cps = copies_of(fn, l, allow_not=False)
            # reborrows: _y = &mut *_x
            changed = True
            while changed:
                changed = False
                for bb, j, pl, rv, meta in fn.assigns():
                    if rv["k"] in ("ref", "rawptr") and rv["place"]["l"] in cps and pl["l"] not in cps and not pl["p"]:
                        cps[pl["l"]] = 1
                        changed = True
                    if rv["k"] in ("use", "cast") and not pl["p"] and pl["l"] not in cps:
                        src = op_place(rv["ops"][0])
                        if src is not None and not src["p"] and src["l"] in cps:
                            cps[pl["l"]] = 1
                            changed = True
            cs = []
            for bb, t in fn.calls():
                if any(op_local(a) in cps and not op_place(a)["p"] for a in t["args"] if op_place(a) is not None):
                    cs.append((callee(t), bb))
            out.append((kind, n, b, cs))
        # the field passed directly by move/copy into a call
        for bb, t in fn.calls():
            for a in t["args"]:
                p = op_place(a)
                if p is not None and _field_hit(fn, p, adt_name, field):
                    out.append(("read", n, bb))
    return out
