#!/bin/bash
# Runs the repository's pinned test suite with no verification guard enabled
# (static analysis needs no hooks in /repo).  Prints the pass/fail totals.
cd /repo || exit 2
export CARGO_NET_OFFLINE=true
if cargo nextest --version >/dev/null 2>&1 && [ -f /w/lib/nextest.toml ]; then
  cargo nextest run --workspace --no-fail-fast --tool-config-file pb:/w/lib/nextest.toml --profile pb --test-threads 8 --offline
else
  cargo test --workspace --no-fail-fast --offline
fi
