#!/bin/bash
# F46 (C07, fixed): NarrowedShape::merge_in_shape dropped an incoming candidate when an earlier one was `equivalent` to it, and
# Shape::equivalent is one-directional on tuples (every field of the left occurs in the right): a select whose later arm extends an
# earlier one kept only the smaller tuple, and a field only the later arm has was rejected although the program evaluates.
# usage: repro/F46_select_later_arm_extends_earlier.sh [path-to-ucg]   exits 0 when the defect is present, 1 when it is not
UCG=${1:-/repo/target/debug/ucg}
D=$(mktemp -d /var/tmp/f46-XXXX); trap 'rm -rf $D' EXIT
printf 'let tier = "b";\nlet limits = select (tier) => { a = {cpu = 1}, b = {cpu = 4, mem = 16} };\nlet mem = limits.mem * 2;\nout json {mem = mem};\n' > $D/prog.ucg
( cd $D && $UCG build prog.ucg 2>&1 ) | tee $D/o.txt
# without the checker (the repl evaluates statement by statement) the same text gives 32
printf 'let tier = "b";\nlet limits = select (tier) => { a = {cpu = 1}, b = {cpu = 4, mem = 16} };\nlimits.mem * 2;\n' | ( cd $D && HOME=$D $UCG repl 2>/dev/null | tail -2 )
grep -q "No candidate type has field 'mem'" $D/o.txt
