import subprocess, json, sys, time, os
def run(msgs):
    p = subprocess.Popen(['/repo/target/debug/ucg','lsp'], stdin=subprocess.PIPE, stdout=subprocess.PIPE, stderr=subprocess.DEVNULL)
    def send(m):
        b = json.dumps(m).encode()
        p.stdin.write(b'Content-Length: %d\r\n\r\n' % len(b) + b); p.stdin.flush()
    out = []
    def read():
        hdr = b''
        while not hdr.endswith(b'\r\n\r\n'):
            c = p.stdout.read(1)
            if not c: return None
            hdr += c
        n = int(hdr.split(b':')[1].strip())
        return json.loads(p.stdout.read(n))
    send({"jsonrpc":"2.0","id":1,"method":"initialize","params":{"processId":None,"rootUri":"file:///tmp/lsp","capabilities":{}}})
    read()
    send({"jsonrpc":"2.0","method":"initialized","params":{}})
    diags = {}
    for m in msgs:
        send(m)
        if m.get('method','').startswith('textDocument/did'):
            r = read()
            diags[r['params']['uri']] = [d['message'] for d in r['params']['diagnostics']]
    send({"jsonrpc":"2.0","id":99,"method":"shutdown","params":None}); read()
    send({"jsonrpc":"2.0","method":"exit","params":None})
    p.wait(timeout=5)
    return diags
def did_open(path, text):
    return {"jsonrpc":"2.0","method":"textDocument/didOpen","params":{"textDocument":{"uri":"file://"+path,"languageId":"ucg","version":1,"text":text}}}
b = open('/tmp/lsp/b.ucg').read()
print('fresh   :', run([did_open('/tmp/lsp/b.ucg', b)]))
print('after a*:', run([did_open('/tmp/lsp/a.ucg', 'let x = 1;'), did_open('/tmp/lsp/b.ucg', b)]))
