#!/bin/bash
# F33 (C07, known finding): two different fields of a symbol of unknown shape are rejected by the type checker.
# usage: repro/F33_unknown_symbol_two_fields.sh [path-to-ucg]   exits 0 when the defect is present
UCG=${1:-/repo/target/debug/ucg}
D=$(mktemp -d /var/tmp/f33-XXXX); trap 'rm -rf $D' EXIT
printf 'let g = func(v) => v.x + v.y;\nlet r = g({x = 1, y = 2});\nout json r;\n' > $D/a.ucg
( cd $D && $UCG build a.ucg 2>&1 ) | tee $D/out.txt
grep -q "Field 'y' not found in tuple" $D/out.txt
