#!/bin/bash
# F43 (C07, known finding): checking a call narrows the callee's open parameter shape (Shape::Hole(<parameter name>)) in the
# CALLER's symbol table, so a caller binding with the parameter's name takes the argument's shape.
# usage: repro/F43_call_site_narrows_callers_symbol.sh [path-to-ucg]   exits 0 when the defect is present
UCG=${1:-/repo/target/debug/ucg}
D=$(mktemp -d /var/tmp/f43-XXXX); trap 'rm -rf $D' EXIT
printf 'let f = func(a) => a;\nlet a = "text";\nlet r = f(2);\nlet s = a + " more";\n' > $D/a.ucg
# the VM evaluates it:
printf 'let f = func(a) => a;\nlet a = "text";\nlet r = f(2);\na + " more";\n' | ( cd $D && $UCG repl 2>&1 ) | grep -q '"text more"' || { echo "repl did not evaluate"; exit 2; }
( cd $D && $UCG build a.ucg 2>&1 ) | tee $D/out.txt
grep -q "Expected int but got str" $D/out.txt
