#!/bin/bash
# F35 / F39 (C06, known findings): constraints that are never checked at run time.  exits 0 when both defects are present
UCG=${1:-/repo/target/debug/ucg}
D=$(mktemp -d /var/tmp/f35-XXXX); trap 'rm -rf $D' EXIT
printf 'let f = func(a) => a;\nlet x :: 0 = f("s");\nout json x;\n' > $D/exemplar.ucg
printf 'constraint n = "" | {c=[n]};\nlet x :: n = "hello";\n' > $D/recursive.ucg
( cd $D && $UCG build exemplar.ucg ) && ( cd $D && $UCG build recursive.ucg ) && grep -q '"s"' $D/exemplar.json
