#!/bin/bash
# F42 (C07, fixed): inside `func(x) => ..` a same-named outer binding decided the shape of the parameter.
# F44 (C07, fixed): the shape of `select` ignored the default expression.
# usage: repro/F42_F44_checker_scope_and_select_default.sh [path-to-ucg]   exits 0 when BOTH defects are present, 1 when neither
UCG=${1:-/repo/target/debug/ucg}
D=$(mktemp -d /var/tmp/f42-XXXX); trap 'rm -rf $D' EXIT
printf 'let x = "outer";\nlet f = func(x) => x + 1;\nlet y = f(2);\n' > $D/shadow.ucg
printf 'let v = select ("nope", 1) => { a = "str", };\nlet w = v + 1;\n' > $D/seldef.ucg
n=0
( cd $D && $UCG build shadow.ucg 2>&1 ) | tee $D/o1.txt; grep -q "Expected str but got int" $D/o1.txt && n=$((n+1))
( cd $D && $UCG build seldef.ucg 2>&1 ) | tee $D/o2.txt; grep -q "No narrowed candidate is compatible with int" $D/o2.txt && n=$((n+1))
echo "defects present: $n of 2"
[ $n -eq 2 ]
