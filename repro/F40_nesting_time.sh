#!/bin/bash
# F40 (C04/C20, known finding): parse time grows by a factor 3-4 per nesting level.  Prints the times; exits 0 when depth 8 takes
# more than 4x depth 7 would allow for a linear parser (i.e. the defect is present)
UCG=${1:-/repo/target/debug/ucg}
D=$(mktemp -d /var/tmp/f40-XXXX); trap 'rm -rf $D' EXIT
t() { python3 -c "print('let x = '+'('*$1+'1'+')'*$1+';')" > $D/n.ucg; s=$(date +%s.%N); ( cd $D && timeout 120 $UCG build n.ucg >/dev/null 2>&1 ); e=$(date +%s.%N); echo "$e - $s" | bc; }
a=$(t 6); b=$(t 8); echo "depth 6: ${a}s  depth 8: ${b}s"
[ $(echo "$b > 4 * $a" | bc) -eq 1 ]
