#!/usr/bin/env python3
"""Rewrites the table of neutral-patch limits in DESIGN.md (between the NEUTRAL-TABLE markers) from neutral/LIMITS.txt and notes.md"""
import collections, os, re
V = os.path.dirname(os.path.dirname(os.path.abspath(__file__)))
lim = [l.split("#")[0].split() for l in open(os.path.join(V, "neutral", "LIMITS.txt")) if l.strip() and not l.startswith("#")]
by_patch = collections.OrderedDict()
for a, b, c, d in lim:
    by_patch.setdefault(a, []).append((b, c, d))
rows = ["| patch | what the refactoring does (notes.md) | false violations (rule @ property) | refusals, exit 2 (rule @ property) |", "|---|---|---|---|"]
for a, items in by_patch.items():
    note = open(os.path.join(V, "neutral", a, "notes.md")).read().strip().split("\n")
    title = [x for x in note if x.strip()][0].lstrip("# ").strip()[:110].replace("|", "/")
    fv = sorted({"%s@%s" % (d, b) for b, c, d in items if c == "false-violation"})
    rf = sorted({"%s@%s" % (d, b) for b, c, d in items if c == "refusal"})
    rows.append("| %s | %s | %s | %s |" % (a, title, " ".join(fv) or "-", " ".join(rf) or "-"))
tbl = "\n".join(rows) + "\n"
p = os.path.join(V, "DESIGN.md")
s = open(p).read()
if "<!-- NEUTRAL-TABLE-BEGIN -->" in s:
    s = re.sub(r"<!-- NEUTRAL-TABLE-BEGIN -->\n.*?<!-- NEUTRAL-TABLE-END -->", lambda m: "<!-- NEUTRAL-TABLE-BEGIN -->\n" + tbl + "<!-- NEUTRAL-TABLE-END -->", s, flags=re.S)
else:
    i = s.index("| patch | what the refactoring does (notes.md)")
    j = s.index("\n\n", i)
    s = s[:i] + "<!-- NEUTRAL-TABLE-BEGIN -->\n" + tbl + "<!-- NEUTRAL-TABLE-END -->" + s[j:]
open(p, "w").write(s)
n_all = len([d for d in os.listdir(os.path.join(V, "neutral")) if os.path.isdir(os.path.join(V, "neutral", d))])
print(len(rows) - 2, "patches with limits of", n_all)
