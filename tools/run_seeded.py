#!/usr/bin/env python3
"""tools/run_seeded.py [<id> ...] [--all-props]

Runs the registered checks against the seeded changes kept under /verif/seeded/<id>/: applies patch.diff to /repo
(git apply), runs ./check for the property it breaks (and, with --all-props, every claimed property), and undoes the
change straight afterwards (git checkout -- .).  Never commits anything in /repo.  Writes seeded/<id>/check_result.json
and prints one line per change."""
import glob
import json
import os
import re
import subprocess
import sys

VERIF = os.path.dirname(os.path.dirname(os.path.abspath(__file__)))
REPO = "/repo"


def sh(cmd, **kw):
    return subprocess.run(cmd, stdout=subprocess.PIPE, stderr=subprocess.STDOUT, text=True, **kw)


def clean():
    r = sh(["git", "-C", REPO, "status", "--porcelain", "--untracked-files=no"])
    return r.stdout.strip() == ""


def main():
    args = [a for a in sys.argv[1:] if not a.startswith("--")]
    all_props = "--all-props" in sys.argv
    ids = args or sorted(os.path.basename(d) for d in glob.glob(os.path.join(VERIF, "seeded", "*")) if os.path.isdir(d))
    man = json.load(open(os.path.join(VERIF, "MANIFEST.json")))
    claimed = sorted({c["property_id"] for c in man["checks"]})
    if not clean():
        print("refusing: /repo has local modifications", file=sys.stderr)
        return 2
    rc = 0
    for sid in ids:
        d = os.path.join(VERIF, "seeded", sid)
        meta = json.load(open(os.path.join(d, "meta.json")))
        prop = meta["property"]
        patch = os.path.join(d, "patch.diff")
        r = sh(["git", "-C", REPO, "apply", patch])
        if r.returncode != 0:
            print("%s: patch does not apply: %s" % (sid, r.stdout.strip()[-200:]))
            rc = 1
            continue
        try:
            res = {}
            for p in ([prop] + [c for c in claimed if c != prop] if all_props else [prop]):
                rr = sh([os.path.join(VERIF, "check"), p, "--no-evidence"], cwd=VERIF)
                keys = re.findall(r"^  (.+?) at (?:src|bin|std)/", rr.stdout, re.M)
                res[p] = {"exit": rr.returncode, "violations": keys,
                          "errors": re.findall(r"^CHECK-ERROR: (.*)$", rr.stdout, re.M)[:5]}
        finally:
            sh(["git", "-C", REPO, "checkout", "--", "."])
        assert clean()
        caught = res[prop]["exit"] == 1
        others = sorted(p for p in res if p != prop and res[p]["exit"] == 1)
        out = {"id": sid, "property": prop, "caught": caught, "keys": res[prop]["violations"],
               "exit": res[prop]["exit"], "errors": res[prop]["errors"], "also_reported_by": others,
               "all": res if all_props else None}
        with open(os.path.join(d, "check_result.json"), "w") as fh:
            json.dump(out, fh, indent=1)
        print("%s [%s]: %s %s%s" % (sid, prop, "CAUGHT" if caught else ("exit %d" % res[prop]["exit"]),
                                   res[prop]["violations"][:4], (" also: %s" % others) if others else ""))
    return rc


if __name__ == "__main__":
    sys.exit(main())
