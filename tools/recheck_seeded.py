#!/usr/bin/env python3
"""tools/recheck_seeded.py [workers] [ids...]: re-runs the rules of the property each seeded change breaks, with the CURRENT
machinery, on a scratch copy with the change applied (never touches /repo), and rewrites seeded/<id>/check_result.json.
Same verdict logic as tools/run_seeded.py: caught = an unlisted violation is reported; exit 2 = the rules cannot decide."""
import concurrent.futures as cf
import glob, json, os, shutil, sys
V = os.path.dirname(os.path.dirname(os.path.abspath(__file__)))
sys.path.insert(0, V)


def work(sid):
    from ucgverif import selftest, extract, core, props
    from ucgverif.facts import Facts
    d = os.path.join(V, "seeded", sid)
    meta = json.load(open(os.path.join(d, "meta.json")))
    pid = meta["property"]
    scratch = selftest.make_scratch()
    out = {"id": sid, "property": pid, "mode": "scratch copy, rules of %s only (tools/recheck_seeded.py)" % pid}
    try:
        ok, msg = selftest.apply_patch(scratch, os.path.join(d, "patch.diff"))
        if not ok:
            out.update({"caught": False, "exit": None, "error": "patch does not apply"})
            return out
        try:
            fd, th = extract.ensure_facts("default", repo=scratch)
        except extract.CannotAnalyse as e:
            out.update({"caught": False, "exit": None, "error": "cannot analyse: " + str(e)[-200:]})
            return out
        F = Facts(fd, th, repo=scratch)
        known, _ = core.load_known()
        res = core.run_rules(F, props.rules_for(pid))
        keys = [i["key"] for r in res for i in r.violations if (pid, i["key"]) not in known]
        errs = [str(e)[:200] for r in res for e in r.errors]
        out.update({"caught": bool(keys), "exit": 1 if keys else (2 if errs else 0), "keys": keys[:8], "errors": errs[:4]})
    finally:
        shutil.rmtree(scratch, ignore_errors=True)
    with open(os.path.join(d, "check_result.json"), "w") as fh:
        json.dump(out, fh, indent=1)
    return out


if __name__ == "__main__":
    args = sys.argv[1:]
    n = int(args[0]) if args and args[0].isdigit() else 5
    ids = [a for a in args if not a.isdigit()] or sorted(os.path.basename(p) for p in glob.glob(os.path.join(V, "seeded", "*")) if os.path.isdir(p))
    with cf.ProcessPoolExecutor(max_workers=n) as ex:
        for o in ex.map(work, ids):
            print(o["id"], "caught" if o.get("caught") else ("exit 2" if o.get("exit") == 2 else "NOT REPORTED"), (o.get("keys") or o.get("errors") or [o.get("error", "")])[:2], flush=True)
