#!/usr/bin/env python3
"""tools/mkmeta.py <id> <property> <change> <needs>  -> seeded/<id>/meta.json"""
import json, os, sys
V = os.path.dirname(os.path.dirname(os.path.abspath(__file__)))
sid, prop, change, needs = sys.argv[1:5]
d = os.path.join(V, "seeded", sid)
log = open(os.path.join(d, "confirm.log")).read() if os.path.exists(os.path.join(d, "confirm.log")) else ""
meta = {
    "id": sid, "property": prop, "change": change, "needs": needs,
    "source": "independent sub-agent given only the property text and a scratch worktree of /repo",
    "ran": ["demo/run.sh <scratch worktree at HEAD>  -> exit 0 (property holds)",
            "git apply patch.diff; CARGO_NET_OFFLINE=true cargo test --offline --workspace --no-fail-fast  -> all 533 tests pass",
            "demo/run.sh <scratch worktree with patch>  -> non-zero (property violated)",
            "git checkout -- . ; worktree removed with its build output",
            "tools/run_seeded.py %s  (git -C /repo apply; ./check %s; git -C /repo checkout -- .) -> check_result.json" % (sid, prop)],
}
json.dump(meta, open(os.path.join(d, "meta.json"), "w"), indent=1)
print("meta written", sid)
