#!/usr/bin/env python3
"""Rewrites the table of sub-agent changes in DESIGN.md (between the SEEDED-TABLE markers) from seeded/*/{meta,check_result,cross_result}.json"""
import glob, json, os, re
V = os.path.dirname(os.path.dirname(os.path.abspath(__file__)))
rows = []
stats = {"caught": 0, "exit2": 0, "missed": 0, "obsolete": 0}
def keyf(m):
    sid = os.path.basename(os.path.dirname(m))
    a, b = sid.split("-")
    return (a, int(b))
for m in sorted(glob.glob(os.path.join(V, "seeded", "*", "meta.json")), key=keyf):
    d = os.path.dirname(m)
    meta = json.load(open(m))
    rep = json.load(open(d + "/check_result.json")) if os.path.exists(d + "/check_result.json") else {}
    cross = json.load(open(d + "/cross_result.json")) if os.path.exists(d + "/cross_result.json") else {}
    if meta.get("obsolete"):
        # the change no longer breaks the property on today's tree (a later fix: commit removed what it relied on)
        by = "no longer a breaking change: %s" % meta["obsolete"]
        stats["obsolete"] += 1
    elif rep.get("caught"):
        keys = rep.get("keys", [])
        by = "`%s`" % keys[0] if keys else "yes"
        if len(keys) > 1:
            by += " (+%d)" % (len(keys) - 1)
        stats["caught"] += 1
    elif rep.get("exit") == 2:
        by = "cannot decide (exit 2)"
        stats["exit2"] += 1
    else:
        by = "**not reported**"
        stats["missed"] += 1
    others = sorted(p for p in cross.get("reports", {}) if p != meta["property"])
    ch = meta["change"]
    ch = (ch[:150] + "…") if len(ch) > 150 else ch
    nd = meta["needs"]
    nd = (nd[:110] + "…") if len(nd) > 110 else nd
    rows.append("| %s | %s | %s | %s | %s |" % (meta["id"], ch.replace("|", "\\|"), nd.replace("|", "\\|"), by.replace("|", "\\|"), ", ".join(others) or "—"))
tbl = "| id | change (one line; full text in seeded/<id>/meta.json) | needs | reported by the property's own check (first instance key) | other checks that report it |\n|----|----|----|----|----|\n" + "\n".join(rows) + "\n\n"
p = os.path.join(V, "DESIGN.md")
s = open(p).read()
s = re.sub(r"<!-- SEEDED-TABLE-BEGIN -->\n.*?<!-- SEEDED-TABLE-END -->", "<!-- SEEDED-TABLE-BEGIN -->\n" + tbl.replace("\\", "\\\\") + "<!-- SEEDED-TABLE-END -->", s, flags=re.S)
open(p, "w").write(s)
print(len(rows), stats)
