#!/usr/bin/env python3
"""tools/dump_instances.py [repo] [props...]: every rule instance (property, key, ok) and every check error, one per line - for diffing
the effect of a change to the machinery on the unchanged tree."""
import os, sys
V = os.path.dirname(os.path.dirname(os.path.abspath(__file__)))
sys.path.insert(0, V)
from ucgverif import extract, core, props
from ucgverif.facts import Facts
import concurrent.futures as cf

def work(a):
    repo, pid = a
    fd, th = extract.ensure_facts("default", repo=repo)
    F = Facts(fd, th, repo=repo)
    out = []
    for r in core.run_rules(F, props.rules_for(pid)):
        for i in r.instances:
            out.append("%s %s %s" % (pid, i["key"], "ok" if i["ok"] else "VIOLATION"))
        for e in r.errors:
            out.append("%s ERROR %s" % (pid, str(e)[:200]))
    return out

if __name__ == "__main__":
    repo = sys.argv[1] if len(sys.argv) > 1 and sys.argv[1].startswith("/") else "/repo"
    pids = [a for a in sys.argv[1:] if not a.startswith("/")] or sorted(props.PROPS)
    extract.ensure_facts("default", repo=repo)
    with cf.ProcessPoolExecutor(max_workers=8) as ex:
        for out in ex.map(work, [(repo, p) for p in pids]):
            for l in out:
                print(l)
