#!/bin/bash
# tools/mkmut.sh <prop> <name> <expect-key-prefix> <what> <python edit script run in the scratch repo root>
# Builds a seeded mutant patch from a scratch copy of /repo (never touches /repo).
set -e
cd "$(dirname "$0")/.."
S=$(mktemp -d /var/tmp/mm-XXXX); mkdir -p $S/a $S/b mutants/$1
for d in src bin std Cargo.toml Cargo.lock; do cp -r /repo/$d $S/a/; cp -r /repo/$d $S/b/; done; mkdir -p $S/a/docsite/site/content $S/b/docsite/site/content; cp -r /repo/docsite/site/content/reference $S/a/docsite/site/content/; cp -r /repo/docsite/site/content/reference $S/b/docsite/site/content/
if ! (cd $S/b && python3 "$5"); then echo "edit failed"; rm -rf $S; exit 1; fi
{ echo "# property: $1"; if [ "$3" = "NEUTRAL" ]; then echo "# neutral: behaviour-preserving variant, every rule must stay quiet"; else IFS='|' read -ra EXP <<< "$3"; for e in "${EXP[@]}"; do echo "# expect: $e"; done; fi; echo "# what: $4"; (cd $S && diff -ruN a b || true); } > mutants/$1/$2.patch
rm -rf $S
echo "mutants/$1/$2.patch: $(grep -c '^@@' mutants/$1/$2.patch) hunk(s)"
