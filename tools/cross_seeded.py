#!/usr/bin/env python3
"""tools/cross_seeded.py [workers]: for every seeded change, which OTHER properties' checks report it as well.
Works on scratch copies under /var/tmp (never touches /repo); writes seeded/<id>/cross_result.json."""
import concurrent.futures as cf
import glob, json, os, shutil, sys
V = os.path.dirname(os.path.dirname(os.path.abspath(__file__)))
sys.path.insert(0, V)


def work(sid):
    from ucgverif import selftest, extract, core, props
    from ucgverif.facts import Facts
    d = os.path.join(V, "seeded", sid)
    meta = json.load(open(os.path.join(d, "meta.json")))
    scratch = selftest.make_scratch()
    out = {"id": sid, "property": meta["property"], "reports": {}, "cannot_decide": []}
    try:
        ok, msg = selftest.apply_patch(scratch, os.path.join(d, "patch.diff"))
        if not ok:
            out["error"] = "patch does not apply"
            return out
        try:
            fd, th = extract.ensure_facts("default", repo=scratch)
        except extract.CannotAnalyse as e:
            out["error"] = "cannot analyse: " + str(e)[-200:]
            return out
        F = Facts(fd, th, repo=scratch)
        known, _ = core.load_known()
        for pid in sorted(props.PROPS):
            res = core.run_rules(F, props.rules_for(pid))
            keys = [i["key"] for r in res for i in r.violations if (pid, i["key"]) not in known]
            errs = [e for r in res for e in r.errors]
            if keys:
                out["reports"][pid] = keys[:6]
            elif errs:
                out["cannot_decide"].append(pid)
    finally:
        shutil.rmtree(scratch, ignore_errors=True)
    with open(os.path.join(d, "cross_result.json"), "w") as fh:
        json.dump(out, fh, indent=1)
    return out


if __name__ == "__main__":
    n = int(sys.argv[1]) if len(sys.argv) > 1 else 5
    ids = sorted(os.path.basename(p) for p in glob.glob(os.path.join(V, "seeded", "*")) if os.path.isdir(p))
    with cf.ProcessPoolExecutor(max_workers=n) as ex:
        for o in ex.map(work, ids):
            print(o["id"], o["property"], "reports:", sorted(o["reports"]), "cannot decide:", o["cannot_decide"], o.get("error", ""), flush=True)
