#!/usr/bin/env python3
"""tools/try_neutral.py <patch-or-dir>... [--workers N]: run EVERY property's rules on a scratch copy with a
behaviour-preserving patch applied. Anything reported (violation not in known_findings, or cannot-decide)
is a false alarm / refusal of the machinery, not of the patch. Never touches /repo."""
import concurrent.futures as cf
import glob, json, os, shutil, sys
V = os.path.dirname(os.path.dirname(os.path.abspath(__file__)))
sys.path.insert(0, V)


def baseline():
    """violation keys and check errors of the unpatched /repo: not the patch's doing"""
    from ucgverif import extract, core, props
    from ucgverif.facts import Facts
    fd, th = extract.ensure_facts("default", repo="/repo")
    F = Facts(fd, th, repo="/repo")
    base = set()
    for pid in sorted(props.PROPS):
        for r in core.run_rules(F, props.rules_for(pid)):
            base |= {(pid, i["key"]) for i in r.violations}
            base |= {(pid, str(e)[:300]) for e in r.errors}
    return base


BASE = None


def work(patch):
    from ucgverif import selftest, extract, core, props
    from ucgverif.facts import Facts
    out = {"patch": patch, "reports": {}, "cannot_decide": {}}
    base = BASE or set()
    scratch = selftest.make_scratch()
    try:
        ok, msg = selftest.apply_patch(scratch, patch)
        if not ok:
            out["error"] = "patch does not apply: " + msg[-200:]
            return out
        try:
            fd, th = extract.ensure_facts("default", repo=scratch)
        except extract.CannotAnalyse as e:
            out["error"] = "cannot analyse: " + str(e)[-300:]
            return out
        F = Facts(fd, th, repo=scratch)
        known, _ = core.load_known()
        for pid in sorted(props.PROPS):
            res = core.run_rules(F, props.rules_for(pid))
            keys = [(r.rid, i["key"], ((i.get("verdict") or "") + " | " + str(i.get("detail") or ""))[:240]) for r in res for i in r.violations if (pid, i["key"]) not in known and (pid, i["key"]) not in base]
            errs = [(r.rid, str(e)[:300]) for r in res for e in r.errors if (pid, str(e)[:300]) not in base]
            if keys:
                out["reports"][pid] = keys
            if errs:
                out["cannot_decide"][pid] = errs
    finally:
        shutil.rmtree(scratch, ignore_errors=True)
    return out


if __name__ == "__main__":
    args = sys.argv[1:]
    n = 4
    if "--workers" in args:
        i = args.index("--workers"); n = int(args[i + 1]); del args[i:i + 2]
    patches = []
    for a in args:
        if os.path.isdir(a):
            patches += sorted(glob.glob(os.path.join(a, "*", "patch.diff"))) or sorted(glob.glob(os.path.join(a, "*.diff")))
        else:
            patches.append(a)
    patches = [os.path.abspath(p) for p in patches]
    BASE = baseline()
    bad = 0
    with cf.ProcessPoolExecutor(max_workers=n) as ex:
        for o in ex.map(work, patches):
            st = "QUIET"
            if o.get("error"):
                st = "ERROR " + o["error"]
            elif o["reports"] or o["cannot_decide"]:
                st = "ALARM"; bad += 1
            print(o["patch"], st, flush=True)
            for pid, ks in o["reports"].items():
                for rid, k, d in ks:
                    print("   VIOLATION", pid, rid, k, "::", d, flush=True)
            for pid, es in o["cannot_decide"].items():
                for rid, e in es:
                    print("   CANNOT-DECIDE", pid, rid, e, flush=True)
    sys.exit(1 if bad else 0)
