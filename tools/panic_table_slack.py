#!/usr/bin/env python3
"""tools/panic_table_slack.py: reviewed-table entries of R13 whose slots are not all used on /repo (a free slot would accept a new,
unreviewed site of the same kind in that function: shrink the entry)."""
import os, sys
V = os.path.dirname(os.path.dirname(os.path.abspath(__file__)))
sys.path.insert(0, V)
from ucgverif import extract, panics
from ucgverif.facts import Facts
from ucgverif.origins import Origins
from ucgverif.linear import Linear
from ucgverif.rules import c04
from ucgverif.panic_table import TABLE
fd, th = extract.ensure_facts("default", repo="/repo")
F = Facts(fd, th, repo="/repo")
used = {}
for lsp in (False, True):
    ents = c04.entries(F) if not lsp else c04.lsp_entries(F)
    reach = panics.reachable_fns(F, ents)
    for n in sorted(x for x in reach if x in F.fns and not F.fns[x].derived):
        fn = F.fns[n]; sites = panics.sites_of(fn)
        if not sites: continue
        o = Origins(fn); lin = Linear(fn); und = {}
        for site in sites:
            kind, detail, b, _, msg = site
            base = (n, kind, detail)
            d = c04.discharge_local(F, fn, site, o, lin, None)
            if d is None and not (kind == "precond" and detail.endswith(("RefCell::borrow", "RefCell::borrow_mut"))):
                und[base] = und.get(base, 0) + 1
        for k, v in und.items(): used[k] = max(used.get(k, 0), v)
bad = 0
for k, (n, cls, why) in TABLE.items():
    u = used.get(k, 0)
    if u != n:
        print("used %d of %d  %s  %s" % (u, n, cls, k)); bad += 1
print("entries: %d, with slack: %d" % (len(TABLE), bad))
