#!/usr/bin/env python3
"""tools/try_seeded.py <id> [<prop>...]: dry run of a seeded change on a scratch copy (does not touch /repo)"""
import os, shutil, sys
V = os.path.dirname(os.path.dirname(os.path.abspath(__file__)))
sys.path.insert(0, V)
from ucgverif import selftest, extract
import json
sid = sys.argv[1]
meta = json.load(open(os.path.join(V, "seeded", sid, "meta.json"))) if os.path.exists(os.path.join(V, "seeded", sid, "meta.json")) else {"property": sid.split("-")[0]}
props = sys.argv[2:] or [meta["property"]]
scratch = selftest.make_scratch()
try:
    ok, out = selftest.apply_patch(scratch, os.path.join(V, "seeded", sid, "patch.diff"))
    if not ok:
        print(sid, "patch does not apply", out[-300:]); sys.exit(1)
    for p in props:
        try:
            keys, errs = selftest.violations_on(scratch, p)
            from ucgverif import core
            known, _ = core.load_known()
            keys = [k for k in keys if (p, k) not in known]
        except extract.CannotAnalyse as e:
            print(sid, p, "cannot analyse", str(e)[-300:]); continue
        print(sid, p, "VIOLATIONS" if keys else "silent", keys[:6], errs[:3])
finally:
    shutil.rmtree(scratch, ignore_errors=True)
