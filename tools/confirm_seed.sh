#!/bin/bash
# tools/confirm_seed.sh <scratch-worktree> <k> <seeded-id> <property>
# Confirms a sub-agent's change in its scratch worktree (never in /repo): demo passes at HEAD, patch applies, tree builds,
# the whole existing suite passes with the patch, demo fails with the patch.  Then copies patch + demo into /verif/seeded/<id>/.
set -u
W=$1; K=$2; ID=$3; PROP=$4
V=$(cd "$(dirname "$0")/.." && pwd)
S=$W/SEED/$K
LOG=$(mktemp /var/tmp/confirm-XXXX.log)
export CARGO_NET_OFFLINE=true
cd $W || exit 2
fail() { echo "CONFIRM-FAILED $ID: $1"; echo "log: $LOG"; git -C $W checkout -- . 2>/dev/null; exit 1; }
[ -f $S/patch.diff ] || fail "no patch.diff"
[ -x $S/demo/run.sh ] || chmod +x $S/demo/run.sh 2>/dev/null || fail "no demo/run.sh"
[ -z "$(git -C $W status --porcelain --untracked-files=no)" ] || fail "worktree not at HEAD"
echo "== demo at HEAD" >> $LOG
( $S/demo/run.sh $W ) >> $LOG 2>&1; H=$?
[ $H -eq 0 ] || fail "demo does not pass at HEAD (exit $H)"
git -C $W apply $S/patch.diff >> $LOG 2>&1 || fail "patch does not apply"
echo "== suite with patch" >> $LOG
( cargo test --offline --workspace --no-fail-fast 2>&1 | grep -E "^test result|FAILED|failed|error(\[|:)" ) >> $LOG 2>&1
if grep -E "^test result: FAILED|[1-9][0-9]* failed|^error" $LOG >/dev/null; then fail "suite fails or does not build with the patch"; fi
PASSED=$(grep -E "^test result: ok" $LOG | sed -E 's/.* ([0-9]+) passed.*/\1/' | paste -sd+ | bc)
echo "== demo with patch" >> $LOG
( $S/demo/run.sh $W ) >> $LOG 2>&1; P=$?
git -C $W checkout -- . ; git -C $W status --porcelain --untracked-files=no | grep -q . && fail "could not restore"
[ $P -ne 0 ] || fail "demo still passes with the patch"
mkdir -p $V/seeded/$ID
cp $S/patch.diff $V/seeded/$ID/patch.diff
rm -rf $V/seeded/$ID/demo; cp -r $S/demo $V/seeded/$ID/demo
cp $S/notes.md $V/seeded/$ID/agent_notes.md 2>/dev/null
tail -c 6000 $LOG > $V/seeded/$ID/confirm.log
echo "CONFIRMED $ID property=$PROP suite_passed=$PASSED demo_head=$H demo_patched=$P"
rm -f $LOG
